#!/bin/bash
# MANIFEST.setup_cmd: build the framework from files on disk only (offline).
# Hand-written Lean (models, proofs, property theorems, drivers) must build; the generated obligation modules
# (lean/Scico/Generated/*, rewritten by the translators on every check) are only warmed up here: whether they
# still check is decided - and reported as a VIOLATION - by the individual checks, never by the setup.
cd "$(dirname "$0")/lean" || exit 2
mods=$(find Scico Drv -name '*.lean' ! -path 'Scico/Generated/*' | sed 's/\.lean$//; s#/#.#g' | sort)
lake build $mods || { echo "setup: hand-written Lean targets failed to build"; exit 1; }
gen=$(find Scico/Generated -name '*.lean' 2>/dev/null | sed 's/\.lean$//; s#/#.#g' | sort)
[ -n "$gen" ] && { lake build $gen || echo "setup: some generated obligation modules do not build from the committed copy (re-generated and judged by the checks)"; }
exit 0
