"""Constructor-configuration grid of every linear-operator class of scico (property C01).

A configuration is a JSON-able dict {"cls": name, ...parameters..., "dseed": int}.  `build(cfg)` constructs the
real scico object; all numeric data (filters, matrices, diagonals) are dyadic numbers drawn from a PRNG seeded by
`dseed`, so a configuration is reproducible from the dict alone (replay files store the dict).

`grid()` enumerates the whole grid in a fixed order (thorough tier, `exhaustive: true` over these configurations);
the quick tier takes a seeded sample that contains at least one configuration of every class.
"""

from __future__ import annotations

import itertools
import zlib

import numpy as np

R64, C128, R32, C64 = "float64", "complex128", "float32", "complex64"


def _rng(cfg):
    return np.random.Generator(np.random.PCG64(int(cfg.get("dseed", 0))))


def dy(rng, shape, cplx=False, bits=3, scale=2.0):
    q = 1 << bits
    k = rng.integers(-int(scale * q), int(scale * q) + 1, size=shape)
    v = np.asarray(k, dtype=np.float64) / q
    if cplx:
        k2 = rng.integers(-int(scale * q), int(scale * q) + 1, size=shape)
        v = v + 1j * np.asarray(k2, dtype=np.float64) / q
    return v


def cplx(dt):
    return np.dtype(dt).kind == "c"


def real_of(dt):
    return np.dtype({C128: R64, C64: R32}.get(str(np.dtype(dt)), str(np.dtype(dt))))


def complex_of(dt):
    return np.dtype({R64: C128, R32: C64}.get(str(np.dtype(dt)), str(np.dtype(dt))))


def _arr(v, dt):
    import jax.numpy as jnp

    return jnp.asarray(v, dtype=dt)


def _t(x):
    """lists (from JSON) -> tuples, recursively"""
    if isinstance(x, list):
        return tuple(_t(v) for v in x)
    return x


# --------------------------------------------------------------------------------------------------------
# builders


_DT_KEYS = ("dt", "idt", "odt", "hdt")


def build(cfg):
    """construct the scico operator of a configuration (imports scico lazily).
    dtype names are turned into numpy dtype objects (scico compares dtypes with `==`, and
    `np.complex64 == "complex64"` is False)"""
    c = dict(cfg)
    for k in _DT_KEYS:
        if isinstance(c.get(k), str):
            c[k] = np.dtype(c[k])
    return BUILDERS[c["cls"]](c)


def b_generic(cfg):
    """user-defined LinearOperator with automatically derived adjoint (linear_adjoint: three branches)"""
    import jax.numpy as jnp
    from scico.linop import LinearOperator

    rng = _rng(cfg)
    m, n = cfg["m"], cfg["n"]
    idt, odt = cfg["idt"], cfg["odt"]
    M = dy(rng, (m, n), cplx(odt))
    Mj = jnp.asarray(M, dtype=odt)
    ishape = _t(cfg.get("ishape", [n]))
    oshape = _t(cfg.get("oshape", [m]))

    def ev(x):
        return (Mj @ x.reshape(-1).astype(odt)).reshape(oshape)

    kw = {}
    if cfg.get("declare_out", True):
        kw = dict(output_shape=oshape, output_dtype=odt)
    return LinearOperator(input_shape=ishape, eval_fn=ev, input_dtype=idt, jit=cfg.get("jit", False), **kw)


def b_matrix(cfg):
    from scico.linop import MatrixOperator

    rng = _rng(cfg)
    M = dy(rng, (cfg["m"], cfg["n"]), cplx(cfg["dt"]))
    return MatrixOperator(_arr(M, cfg["dt"]), input_cols=cfg.get("cols", 0))


def b_diag(cfg):
    import scico.numpy as snp
    from scico.linop import Diagonal

    rng = _rng(cfg)
    dshape = _t(cfg["dshape"])
    dt = cfg["dt"]
    if len(dshape) and isinstance(dshape[0], tuple):
        d = snp.blockarray([_arr(dy(rng, s, cplx(dt)), dt) for s in dshape])
    else:
        d = _arr(dy(rng, dshape, cplx(dt)), dt)
    kw = {}
    if cfg.get("ishape") is not None:
        kw["input_shape"] = _t(cfg["ishape"])
    if cfg.get("idt") is not None:
        kw["input_dtype"] = cfg["idt"]
    return Diagonal(d, **kw)


def b_scaledid(cfg):
    from scico.linop import ScaledIdentity

    c = cfg["c"]
    c = complex(c[0], c[1]) if isinstance(c, (list, tuple)) else float(c)
    return ScaledIdentity(c, _t(cfg["ishape"]), input_dtype=cfg["dt"])


def b_ident(cfg):
    from scico.linop import Identity

    return Identity(_t(cfg["ishape"]), input_dtype=cfg["dt"])


def b_circ(cfg):
    from scico.linop import CircularConvolve

    rng = _rng(cfg)
    hdt, idt = cfg["hdt"], cfg["idt"]
    h = dy(rng, _t(cfg["hshape"]), cplx(hdt))
    kw = {}
    if cfg.get("ndims") is not None:
        kw["ndims"] = cfg["ndims"]
    if cfg.get("h_center") is not None:
        kw["h_center"] = cfg["h_center"]
    if cfg.get("h_is_dft"):
        kw["h_is_dft"] = True
        h = h + 0j
        hdt = complex_of(hdt)
    return CircularConvolve(_arr(h, hdt), _t(cfg["ishape"]), input_dtype=idt, jit=cfg.get("jit", True), **kw)


def b_conv(cfg):
    from scico.linop import Convolve, ConvolveByX

    rng = _rng(cfg)
    hdt, idt = cfg["hdt"], cfg["idt"]
    h = _arr(dy(rng, _t(cfg["hshape"]), cplx(hdt)), hdt)
    if cfg["cls"] == "Convolve":
        return Convolve(h, _t(cfg["ishape"]), input_dtype=idt, mode=cfg["mode"])
    return ConvolveByX(h, _t(cfg["ishape"]), input_dtype=idt, mode=cfg["mode"])


def b_dft(cfg):
    from scico.linop import DFT

    kw = {}
    if cfg.get("axes") is not None:
        kw["axes"] = _t(cfg["axes"])
    if cfg.get("axes_shape") is not None:
        kw["axes_shape"] = _t(cfg["axes_shape"])
    if cfg.get("norm") is not None:
        kw["norm"] = cfg["norm"]
    return DFT(_t(cfg["ishape"]), jit=cfg.get("jit", True), **kw)


def b_fd(cfg):
    from scico.linop import FiniteDifference, SingleAxisFiniteDifference

    kw = dict(input_dtype=cfg["dt"], prepend=cfg.get("prepend"), append=cfg.get("append"), circular=cfg.get("circular", False))
    if cfg["cls"] == "SingleAxisFiniteDifference":
        return SingleAxisFiniteDifference(_t(cfg["ishape"]), axis=cfg["axis"], **kw)
    ax = cfg.get("axes")
    return FiniteDifference(_t(cfg["ishape"]), axes=_t(ax) if isinstance(ax, list) else ax, **kw)


def b_func(cfg):
    from scico import linop

    c = cfg["cls"]
    ish, dt = _t(cfg["ishape"]), cfg["dt"]
    if c == "Crop":
        return linop.Crop(_t(cfg["width"]), ish, input_dtype=dt)
    if c == "Pad":
        return linop.Pad(ish, _t(cfg["width"]), input_dtype=dt)
    if c == "Sum":
        ax = cfg.get("axis")
        return linop.Sum(ish, input_dtype=dt, axis=_t(ax) if isinstance(ax, list) else ax)
    if c == "Transpose":
        ax = cfg.get("axes")
        return linop.Transpose(ish, _t(ax) if ax is not None else None, input_dtype=dt)
    if c == "Reshape":
        return linop.Reshape(ish, _t(cfg["newshape"]), input_dtype=dt)
    if c == "Slice":
        return linop.Slice(_idx(cfg["idx"]), ish, input_dtype=dt)
    raise KeyError(c)


def _idx(spec):
    """index expression from JSON: list of items; item = int | ["s",a,b,c] | "E" (Ellipsis) | "N" (None)"""

    def one(it):
        if it == "E":
            return Ellipsis
        if it == "N":
            return None
        if isinstance(it, (list, tuple)):
            return slice(it[1], it[2], it[3])
        return int(it)

    if isinstance(spec, (list, tuple)) and len(spec) and spec[0] == "s":
        return one(spec)
    if isinstance(spec, (list, tuple)):
        return tuple(one(i) for i in spec)
    return one(spec)


def b_grad(cfg):
    from scico import linop

    c = cfg["cls"]
    ish, dt = _t(cfg["ishape"]), cfg["dt"]
    axes = _t(cfg["axes"]) if cfg.get("axes") is not None else None
    cd = cfg.get("cdiff", False)
    if c == "ProjectedGradient":
        coord = None
        if cfg.get("ncoord"):
            rng = _rng(cfg)
            nax = len(axes) if axes is not None else len(ish)
            coord = tuple(_arr(dy(rng, (nax,) + ish), dt) for _ in range(cfg["ncoord"]))
        return linop.ProjectedGradient(ish, axes=axes, coord=coord, cdiff=cd, input_dtype=dt)
    center = _t(cfg["center"]) if cfg.get("center") is not None else None
    if c == "PolarGradient":
        return linop.PolarGradient(ish, axes=axes, center=center, angular=cfg["f"][0], radial=cfg["f"][1], cdiff=cd, input_dtype=dt)
    if c == "CylindricalGradient":
        return linop.CylindricalGradient(ish, axes=axes, center=center, angular=cfg["f"][0], radial=cfg["f"][1], axial=cfg["f"][2], cdiff=cd, input_dtype=dt)
    if c == "SphericalGradient":
        return linop.SphericalGradient(ish, axes=axes, center=center, azimuthal=cfg["f"][0], polar=cfg["f"][1], radial=cfg["f"][2], cdiff=cd, input_dtype=dt)
    raise KeyError(c)


def b_stack(cfg):
    from scico import linop

    ops = [build(c) for c in cfg["ops"]]
    if cfg["cls"] == "VerticalStack":
        return linop.VerticalStack(ops, collapse_output=cfg.get("co", True), jit=cfg.get("jit", True))
    return linop.DiagonalStack(ops, collapse_input=cfg.get("ci", True), collapse_output=cfg.get("co", True), jit=cfg.get("jit", True))


def b_drep(cfg):
    from scico import linop

    return linop.DiagonalReplicated(build(cfg["op"]), cfg["k"], input_axis=cfg.get("ia", 0), output_axis=cfg.get("oa"), map_type=cfg.get("map", "auto"))


def b_abel(cfg):
    from scico.linop.abel import AbelTransform

    return AbelTransform(_t(cfg["ishape"]))


def b_optics(cfg):
    from scico.linop import optics

    c = cfg["cls"]
    ish = _t(cfg["ishape"])
    dx = cfg["dx"]
    dx = tuple(dx) if isinstance(dx, list) else dx
    if c == "FraunhoferPropagator":
        return optics.FraunhoferPropagator(ish, dx, cfg["k0"], cfg["z"], jit=cfg.get("jit", True))
    K = {"AngularSpectrumPropagator": optics.AngularSpectrumPropagator, "FresnelPropagator": optics.FresnelPropagator}[c]
    return K(ish, dx, cfg["k0"], cfg["z"], pad_factor=cfg.get("pad", 1), jit=cfg.get("jit", True))


def b_xray2(cfg):
    from scico.linop.xray import XRayTransform2D

    kw = {}
    for k in ("dx", "y0", "det_count"):
        if cfg.get(k) is not None:
            kw[k] = cfg[k]
    if cfg.get("x0") is not None:
        kw["x0"] = np.asarray(cfg["x0"], dtype=np.float64)
    if isinstance(kw.get("dx"), list):
        kw["dx"] = tuple(kw["dx"])
    import warnings

    with warnings.catch_warnings():
        warnings.simplefilter("ignore")
        return XRayTransform2D(_t(cfg["ishape"]), np.asarray(cfg["angles"], dtype=np.float64), **kw)


def b_xray3(cfg):
    from scico.linop.xray import XRayTransform3D

    ish, det = _t(cfg["ishape"]), _t(cfg["det"])
    ang = np.asarray(cfg["angles"], dtype=np.float64).reshape(-1, 1)
    M = XRayTransform3D.matrices_from_euler_angles(ish, det, cfg.get("seq", "X"), ang)
    if cfg.get("shift") is not None:
        M = np.asarray(M).copy()
        M[:, :, 3] += np.asarray(cfg["shift"], dtype=np.float64)
    return XRayTransform3D(ish, matrices=M, det_shape=det)


def b_tv(cfg):
    from scico.functional import _tvnorm as tv

    c = cfg["cls"]
    ish, dt = _t(cfg["ishape"]), cfg["dt"]
    if c == "SingleAxisFiniteSum":
        return tv.SingleAxisFiniteSum(ish, input_dtype=dt, axis=cfg["axis"])
    if c == "SingleAxisHaarTransform":
        return tv.SingleAxisHaarTransform(ish, input_dtype=dt, axis=cfg["axis"])
    ax = cfg.get("axes")
    ax = _t(ax) if isinstance(ax, list) else ax
    if c == "FiniteSum":
        return tv.FiniteSum(ish, input_dtype=dt, axes=ax)
    if c == "HaarTransform":
        return tv.HaarTransform(ish, input_dtype=dt, axes=ax)
    raise KeyError(c)


def b_jac(cfg):
    """Jacobian operator of a non-linear Operator (linop.jacobian): adj_fn = conjugated vjp"""
    from scico.linop import jacobian

    F, u = jac_parts(cfg)
    return jacobian(F, u)


def jac_parts(cfg):
    """the non-linear Operator and the point of a Jacobian configuration"""
    import jax.numpy as jnp
    from scico.operator import Operator

    rng = _rng(cfg)
    n, m, dt = cfg["n"], cfg["m"], cfg["dt"]
    W = jnp.asarray(dy(rng, (m, n), cplx(dt)), dtype=dt)
    u = jnp.asarray(dy(rng, (n,), cplx(dt)), dtype=dt)
    kind = cfg.get("f", "sq")
    if kind == "sq":
        f = lambda x: (W @ x) ** 2
    elif kind == "sin":
        f = lambda x: jnp.sin(W @ x)
    else:
        f = lambda x: (W @ x) * (W @ x)[::-1]
    F = Operator(input_shape=(n,), output_shape=(m,), eval_fn=f, input_dtype=dt, output_dtype=dt)
    return F, u


# derived forms -----------------------------------------------------------------------------------------


def _scalar(c):
    return complex(c[0], c[1]) if isinstance(c, (list, tuple)) else float(c)


def b_derived(cfg):
    f = cfg["form"]
    if f in ("T", "H", "conj", "gram", "neg"):
        A = build(cfg["a"])
        return {"T": lambda: A.T, "H": lambda: A.H, "conj": lambda: A.conj(), "gram": lambda: A.gram_op, "neg": lambda: -A}[f]()
    if f in ("smul", "rsmul", "sdiv"):
        A = build(cfg["a"])
        c = _scalar(cfg["c"])
        return {"smul": lambda: c * A, "rsmul": lambda: A * c, "sdiv": lambda: A / c}[f]()
    if f in ("add", "sub", "comp"):
        A, B = build(cfg["a"]), build(cfg["b"])
        return {"add": lambda: A + B, "sub": lambda: A - B, "comp": lambda: A @ B}[f]()
    raise KeyError(f)


BUILDERS = {
    "Generic": b_generic,
    "MatrixOperator": b_matrix,
    "Diagonal": b_diag,
    "ScaledIdentity": b_scaledid,
    "Identity": b_ident,
    "CircularConvolve": b_circ,
    "Convolve": b_conv,
    "ConvolveByX": b_conv,
    "DFT": b_dft,
    "FiniteDifference": b_fd,
    "SingleAxisFiniteDifference": b_fd,
    "Crop": b_func,
    "Pad": b_func,
    "Sum": b_func,
    "Transpose": b_func,
    "Reshape": b_func,
    "Slice": b_func,
    "ProjectedGradient": b_grad,
    "PolarGradient": b_grad,
    "CylindricalGradient": b_grad,
    "SphericalGradient": b_grad,
    "VerticalStack": b_stack,
    "DiagonalStack": b_stack,
    "DiagonalReplicated": b_drep,
    "AbelTransform": b_abel,
    "AngularSpectrumPropagator": b_optics,
    "FresnelPropagator": b_optics,
    "FraunhoferPropagator": b_optics,
    "XRayTransform2D": b_xray2,
    "XRayTransform3D": b_xray3,
    "SingleAxisFiniteSum": b_tv,
    "FiniteSum": b_tv,
    "SingleAxisHaarTransform": b_tv,
    "HaarTransform": b_tv,
    "Jacobian": b_jac,
    "Derived": b_derived,
}


# --------------------------------------------------------------------------------------------------------
# the grid


def _seeded(cfg):
    """deterministic data seed from the configuration itself"""
    import json

    c = dict(cfg)
    c.pop("dseed", None)
    cfg["dseed"] = zlib.crc32(json.dumps(c, sort_keys=True).encode()) & 0x7FFFFFFF
    return cfg


def g_generic():
    for (m, n), (idt, odt), decl, jit in itertools.product(
        [(3, 2), (1, 3), (2, 2), (4, 1)], [(R64, R64), (C128, C128), (R64, C128), (R32, R32), (C64, C64), (R32, C64)], [True, False], [False, True]
    ):
        if jit and (m, n) != (3, 2):
            continue
        yield {"cls": "Generic", "m": m, "n": n, "idt": idt, "odt": odt, "declare_out": decl, "jit": jit}
    yield {"cls": "Generic", "m": 6, "n": 4, "idt": C128, "odt": C128, "ishape": [2, 2], "oshape": [3, 1, 2]}
    yield {"cls": "Generic", "m": 6, "n": 4, "idt": R64, "odt": C128, "ishape": [1, 4], "oshape": [2, 3]}


def g_matrix():
    for (m, n), dt, cols in itertools.product([(3, 2), (2, 3), (1, 4), (3, 1), (2, 2)], [R64, C128, R32, C64], [0, 1, 2]):
        yield {"cls": "MatrixOperator", "m": m, "n": n, "dt": dt, "cols": cols}


def g_diag():
    for dt in [R64, C128, R32, C64]:
        for dshape, ishape in [
            ([3], None),
            ([2, 3], None),
            ([1, 3], None),
            ([3], [2, 3]),
            ([1, 3], [2, 3]),
            ([2, 1], [2, 3]),
            ([], [2, 2]),
            ([2, 3], [3]),
            ([2, 1, 2], [3, 2]),
            ([[2], [1, 3]], None),
            ([[1], [1, 3]], [[2], [2, 3]]),
        ]:
            yield {"cls": "Diagonal", "dshape": dshape, "ishape": ishape, "dt": dt}
    # real diagonal applied to a complex space and vice versa
    yield {"cls": "Diagonal", "dshape": [3], "ishape": None, "dt": R64, "idt": C128}
    yield {"cls": "Diagonal", "dshape": [3], "ishape": None, "dt": C128, "idt": R64}


def g_scaledid():
    for dt in [R64, C128, R32, C64]:
        for ish in [[3], [2, 2], [1, 3], [[2], [1, 2]]]:
            yield {"cls": "Identity", "ishape": ish, "dt": dt}
            for c in [1.5, -2.0, 0.0] + ([[0.5, -1.5], [0.0, 1.0]] if cplx(dt) else []):
                yield {"cls": "ScaledIdentity", "ishape": ish, "dt": dt, "c": c}
    yield {"cls": "ScaledIdentity", "ishape": [3], "dt": R64, "c": [0.5, 1.0]}


def g_circ():
    dts = [(R64, R64), (C128, C128), (C128, R64), (R64, C128), (R32, R32), (C64, C64)]
    shapes = [
        # (hshape, ishape, ndims)
        ([3], [4], None),
        ([4], [4], None),
        ([1], [3], None),
        ([2, 2], [3, 4], None),
        ([2, 3], [2, 3], 2),
        ([2], [3, 4], 1),  # batch axis in x
        ([3, 2], [4], 1),  # batch axis in h, broadcast -> adjoint sums
        ([2, 1, 2], [3, 4], 1),  # h has two extra axes, one singleton
        ([2, 2], [2, 3], 1),  # h batch axis matches x batch axis (block diagonal)
        ([3, 2], [1, 4], 1),  # singleton input axis broadcast against h
        ([2, 2, 2], [1, 2, 3], 2),
        ([2, 1, 2], [2, 3, 3], 1),
        ([1, 1], [1, 1], None),
        # filter batch axes BEYOND the input rank combined with a singleton input axis broadcast against h (the adjoint
        # first sums the leading batch axes, then the broadcast axis: axis bookkeeping in two coordinate systems)
        ([2, 3, 2], [1, 3], 1),
        ([3, 2, 2, 2], [1, 3, 2], 2),
        ([2, 2, 1, 2], [2, 1, 3], 1),
        ([2, 3, 2, 2], [1, 1, 3], 1),
    ]
    for (hdt, idt), (hs, ish, nd) in itertools.product(dts, shapes):
        yield {"cls": "CircularConvolve", "hshape": hs, "ishape": ish, "ndims": nd, "hdt": hdt, "idt": idt}
    for hdt, idt in dts[:4]:
        yield {"cls": "CircularConvolve", "hshape": [3], "ishape": [5], "ndims": None, "hdt": hdt, "idt": idt, "h_center": 1}
        yield {"cls": "CircularConvolve", "hshape": [3], "ishape": [4], "ndims": None, "hdt": hdt, "idt": idt, "h_center": 0.5}
        yield {"cls": "CircularConvolve", "hshape": [2, 3], "ishape": [3, 4], "ndims": None, "hdt": hdt, "idt": idt, "h_center": [1, 1]}
        yield {"cls": "CircularConvolve", "hshape": [2, 3], "ishape": [3, 4], "ndims": None, "hdt": hdt, "idt": idt, "h_center": [0.25, 1.5]}
        yield {"cls": "CircularConvolve", "hshape": [4], "ishape": [4], "ndims": None, "hdt": hdt, "idt": idt, "h_is_dft": True}
        yield {"cls": "CircularConvolve", "hshape": [2, 4], "ishape": [4], "ndims": 1, "hdt": hdt, "idt": idt, "h_is_dft": True}
        yield {"cls": "CircularConvolve", "hshape": [3], "ishape": [4], "ndims": None, "hdt": hdt, "idt": idt, "jit": False}


def g_conv():
    for cls in ["Convolve", "ConvolveByX"]:
        for mode, (hs, ish), (hdt, idt) in itertools.product(
            ["full", "valid", "same"],
            [([2], [4]), ([3], [3]), ([1], [3]), ([4], [2]), ([2, 2], [3, 3]), ([1, 3], [2, 4]), ([2, 1], [3, 1])],
            [(R64, R64), (C128, C128), (C128, R64), (R64, C128), (R32, R32)],
        ):
            yield {"cls": cls, "hshape": hs, "ishape": ish, "mode": mode, "hdt": hdt, "idt": idt}


def g_dft():
    for ish, axes, ash in [
        ([4], None, None),
        ([3], None, None),
        ([1], None, None),
        ([2, 3], None, None),
        ([2, 3], [0], None),
        ([2, 3], [1], None),
        ([2, 3], [-1], None),
        ([2, 3], [1, 0], None),
        ([3], None, [5]),
        ([4], None, [2]),
        ([2, 3], None, [4]),
        ([2, 3], [0], [3]),
        ([2, 3], [0, 1], [1, 4]),
        ([2, 3], None, [3, 2]),
        ([1, 3, 2], [0, 2], None),
        ([2, 1, 2], [1], [3]),
    ]:
        for norm in [None, "ortho", "forward", "backward"]:
            yield {"cls": "DFT", "ishape": ish, "axes": axes, "axes_shape": ash, "norm": norm}
    yield {"cls": "DFT", "ishape": [4], "axes": None, "axes_shape": None, "norm": None, "jit": False}


def g_fd():
    bopts = [(None, None, False), (0, None, False), (1, None, False), (None, 0, False), (None, 1, False), (0, 0, False), (1, 1, False), (0, 1, False), (1, 0, False), (None, None, True)]
    for dt in [R64, C128, R32]:
        for (pre, app, circ) in bopts:
            for ish, axis in [([4], 0), ([2, 3], 0), ([2, 3], 1), ([2, 3], -1), ([1, 3], 0), ([3, 1, 2], 1), ([2], 0), ([1], 0)]:
                if ish in ([1, 3], [3, 1, 2], [1]) and pre is None and app is None and not circ and ish[axis] == 1:
                    # output axis of length 0: recorded as its own degenerate configuration below
                    continue
                yield {"cls": "SingleAxisFiniteDifference", "ishape": ish, "axis": axis, "prepend": pre, "append": app, "circular": circ, "dt": dt}
            for ish, axes in [([4], None), ([2, 3], None), ([2, 3], [0]), ([2, 3], [1]), ([2, 3], 1), ([3, 3], None), ([2, 2, 3], [0, 2]), ([2, 2, 2], None), ([3, 3], [1, 0])]:
                yield {"cls": "FiniteDifference", "ishape": ish, "axes": axes, "prepend": pre, "append": app, "circular": circ, "dt": dt}


def g_func():
    for dt in [R64, C128, R32]:
        for ish, w in [([4], 1), ([4], [[1, 2]]), ([3, 4], 1), ([3, 4], [[1, 0], [0, 2]]), ([3, 4], [[0, 0], [1, 1]]), ([2, 3, 4], [[0, 1], [1, 0], [1, 1]]), ([3], 0), ([1, 3], [[0, 0], [1, 0]])]:
            yield {"cls": "Crop", "ishape": ish, "width": w, "dt": dt}
        for ish, w in [([3], 1), ([3], [[1, 2]]), ([2, 3], 1), ([2, 3], [[1, 0], [0, 2]]), ([1, 2], [[0, 1], [2, 0]]), ([2, 1, 2], [[0, 1], [1, 0], [1, 1]]), ([3], 0)]:
            yield {"cls": "Pad", "ishape": ish, "width": w, "dt": dt}
        for ish, ax in [([4], None), ([2, 3], None), ([2, 3], 0), ([2, 3], 1), ([2, 3], -1), ([2, 3], [0, 1]), ([2, 1, 3], [0, 2]), ([2, 1, 3], 1), ([1], None)]:
            yield {"cls": "Sum", "ishape": ish, "axis": ax, "dt": dt}
        for ish, ax in [([2, 3], None), ([2, 3], [1, 0]), ([2, 3], [0, 1]), ([2, 1, 3], [2, 0, 1]), ([2, 1, 3], [1, 2, 0]), ([2, 2, 3], None), ([4], None), ([2, 3, 2], [0, 2, 1])]:
            yield {"cls": "Transpose", "ishape": ish, "axes": ax, "dt": dt}
        for ish, ns in [([2, 3], [6]), ([6], [3, 2]), ([2, 3], [3, 2]), ([2, 3], [1, 6, 1]), ([2, 1, 3], [-1]), ([4], [2, -1])]:
            yield {"cls": "Reshape", "ishape": ish, "newshape": ns, "dt": dt}
        for ish, idx in [
            ([5], ["s", 1, 4, None]),
            ([5], ["s", None, None, 2]),
            ([5], ["s", None, None, -1]),
            ([5], ["s", 4, 0, -2]),
            ([5], ["s", -3, None, None]),
            ([5], ["s", 2, 2, None]),
            ([3, 4], [["s", None, 2, None], ["s", 1, None, 2]]),
            ([3, 4], [1]),
            ([3, 4], [["s", None, None, None], 2]),
            ([3, 4], ["E", ["s", None, None, -1]]),
            ([3, 4], ["N", ["s", 0, 2, None]]),
            ([2, 3, 2], [0, "E", 1]),
            ([[2], [1, 3]], 1),
            ([[2], [1, 3], [2, 2]], ["s", 1, None, None]),
        ]:
            yield {"cls": "Slice", "ishape": ish, "idx": idx, "dt": dt}


def g_grad():
    for dt in [R64, R32, C128]:
        for cd in [False, True]:
            for ish, axes in [([3, 3], None), ([2, 3], None), ([2, 3], [0]), ([2, 3], [1]), ([2, 3], [1, 0]), ([2, 2, 3], [0, 2]), ([2, 2, 2], None), ([4], None)]:
                if cd and min(ish) < 2:
                    continue
                yield {"cls": "ProjectedGradient", "ishape": ish, "axes": axes, "cdiff": cd, "dt": dt}
                for nc in [1, 2]:
                    yield {"cls": "ProjectedGradient", "ishape": ish, "axes": axes, "cdiff": cd, "dt": dt, "ncoord": nc}
            for ish, axes, center in [([3, 3], None, None), ([2, 4], None, None), ([3, 3], None, [0, 1]), ([2, 3, 3], [1, 2], None), ([3, 2, 3], [0, 2], [1, 1])]:
                for f in [[True, True], [True, False], [False, True]]:
                    yield {"cls": "PolarGradient", "ishape": ish, "axes": axes, "center": center, "f": f, "cdiff": cd, "dt": dt}
            for ish, axes, center in [([2, 3, 2], None, None), ([3, 2, 2], None, [1, 0, 1]), ([2, 2, 2, 3], [0, 1, 3], None)]:
                for f in [[True, True, True], [True, False, False], [False, True, False], [False, False, True], [True, False, True]]:
                    yield {"cls": "CylindricalGradient", "ishape": ish, "axes": axes, "center": center, "f": f, "cdiff": cd, "dt": dt}
                    yield {"cls": "SphericalGradient", "ishape": ish, "axes": axes, "center": center, "f": f, "cdiff": cd, "dt": dt}


def _leaf(kind, dt, shape_in=(3,), shape_out=None):
    """small leaf configurations used inside stacks and derived forms"""
    n = int(np.prod(shape_in))
    if kind == "mat":
        m = int(np.prod(shape_out)) if shape_out else 2
        return {"cls": "MatrixOperator", "m": m, "n": n, "dt": dt, "cols": 0}
    if kind == "gen":
        m = int(np.prod(shape_out)) if shape_out else 2
        return {"cls": "Generic", "m": m, "n": n, "idt": dt, "odt": dt, "ishape": list(shape_in), "oshape": list(shape_out or (m,))}
    if kind == "diag":
        return {"cls": "Diagonal", "dshape": list(shape_in), "ishape": None, "dt": dt}
    if kind == "fd":
        return {"cls": "SingleAxisFiniteDifference", "ishape": list(shape_in), "axis": 0, "prepend": None, "append": None, "circular": False, "dt": dt}
    if kind == "fdc":
        return {"cls": "SingleAxisFiniteDifference", "ishape": list(shape_in), "axis": -1, "prepend": None, "append": None, "circular": True, "dt": dt}
    if kind == "circ":
        return {"cls": "CircularConvolve", "hshape": [2], "ishape": list(shape_in), "ndims": 1, "hdt": dt, "idt": dt}
    if kind == "dft":
        return {"cls": "DFT", "ishape": list(shape_in), "axes": None, "axes_shape": None, "norm": None}
    if kind == "sid":
        return {"cls": "ScaledIdentity", "ishape": list(shape_in), "dt": dt, "c": [0.5, 1.5] if cplx(dt) else -1.5}
    if kind == "id":
        return {"cls": "Identity", "ishape": list(shape_in), "dt": dt}
    if kind == "sum":
        return {"cls": "Sum", "ishape": list(shape_in), "axis": 0, "dt": dt}
    raise KeyError(kind)


def g_stack():
    for dt in [R64, C128, R32]:
        for co in [True, False]:
            # same output shapes (collapsible), different output shapes (block)
            yield {"cls": "VerticalStack", "co": co, "ops": [_seeded(_leaf("mat", dt, (3,), (2,))), _seeded(_leaf("gen", dt, (3,), (2,)))]}
            yield {"cls": "VerticalStack", "co": co, "ops": [_seeded(_leaf("mat", dt, (3,), (2,))), _seeded(_leaf("diag", dt, (3,))), _seeded(_leaf("fd", dt, (3,)))]}
            yield {"cls": "VerticalStack", "co": co, "ops": [_seeded(_leaf("diag", dt, (2, 2))), _seeded(_leaf("fdc", dt, (2, 2)))]}
            yield {"cls": "VerticalStack", "co": co, "ops": [_seeded(_leaf("gen", dt, (3,), (2,)))]}
            yield {"cls": "VerticalStack", "co": co, "jit": False, "ops": [_seeded(_leaf("circ", dt, (3,))), _seeded(_leaf("sid", dt, (3,)))]}
            for ci in [True, False]:
                yield {"cls": "DiagonalStack", "ci": ci, "co": co, "ops": [_seeded(_leaf("mat", dt, (3,), (2,))), _seeded({**_leaf("gen", dt, (3,), (2,)), "x": 1})]}
                yield {"cls": "DiagonalStack", "ci": ci, "co": co, "ops": [_seeded(_leaf("mat", dt, (3,), (2,))), _seeded(_leaf("diag", dt, (2,)))]}
                yield {"cls": "DiagonalStack", "ci": ci, "co": co, "ops": [_seeded(_leaf("diag", dt, (2, 2))), _seeded(_leaf("fdc", dt, (2, 2))), _seeded(_leaf("sid", dt, (2, 2)))]}
                yield {"cls": "DiagonalStack", "ci": ci, "co": co, "ops": [_seeded(_leaf("gen", dt, (2,), (3,)))]}
    # inputs collapse but outputs do not, and the reverse (the two sides of DiagonalStack pack with DIFFERENT rules: `_eval` by
    # collapse_output, `_adj` by collapse_input)
    for dt in [R64, C128]:
        for ci, co in itertools.product([True, False], [True, False]):
            yield {"cls": "DiagonalStack", "ci": ci, "co": co, "ops": [_seeded(_leaf("id", dt, (2, 3))), _seeded(_leaf("sum", dt, (2, 3)))]}
            yield {"cls": "DiagonalStack", "ci": ci, "co": co,
                   "ops": [_seeded(_leaf("id", dt, (3,))), _seeded(_leaf("sum", dt, (2, 3))), _seeded(_leaf("gen", dt, (2,), (3,)))]}
    # complex blocks with non-real matrices: DFT and complex generic
    for ci, co in itertools.product([True, False], [True, False]):
        yield {"cls": "DiagonalStack", "ci": ci, "co": co, "ops": [_seeded({**_leaf("dft", C64, (3,))}), _seeded(_leaf("gen", C64, (3,), (3,)))]}
        yield {"cls": "VerticalStack", "co": co, "ops": [_seeded({**_leaf("dft", C64, (3,))}), _seeded(_leaf("gen", C64, (3,), (3,)))]}


def g_drep():
    for dt in [R64, C128, R32]:
        for k in [1, 2, 3]:
            for (si, so), axes in [
                (((3,), (2,)), [(0, None), (1, None), (0, 1), (1, 0), (-1, None)]),
                (((2, 2), (2, 2)), [(0, None), (1, None), (2, None), (0, 2), (2, 0), (1, 0), (-1, 0)]),
                (((2, 3), (3,)), [(0, None), (0, 1), (1, 0), (2, 1), (2, 0), (1, 1)]),
            ]:
                for ia, oa in axes:
                    if len(si) == 1:
                        op = _leaf("mat", dt, si, so)
                    elif si == so:
                        op = _leaf("gen", dt, si, so)
                    else:
                        op = {"cls": "Sum", "ishape": list(si), "axis": 0, "dt": dt} if False else _leaf("gen", dt, si, so)
                    yield {"cls": "DiagonalReplicated", "op": _seeded(op), "k": k, "ia": ia, "oa": oa, "map": "vmap" if k > 1 else "auto"}


def g_misc():
    for ish in [[4, 4], [3, 4], [4, 3], [5, 5], [2, 6], [1, 4], [4, 1], [2, 5], [6, 3], [5, 2]]:
        yield {"cls": "AbelTransform", "ishape": ish}
    for cls in ["AngularSpectrumPropagator", "FresnelPropagator"]:
        for ish, dx in [([4], 1.0), ([5], 0.5), ([3, 3], 1.0), ([4, 4], [1.0, 0.5]), ([2, 2], 2.0), ([1], 1.0)]:
            for pad in [1, 2]:
                for jit in [True, False]:
                    if not jit and pad == 2:
                        continue
                    yield {"cls": cls, "ishape": ish, "dx": dx, "k0": 2.0, "z": 1.5, "pad": pad, "jit": jit}
    for ish, dx in [([4], 1.0), ([5], 0.5), ([3, 3], 1.0), ([4, 4], [1.0, 0.5]), ([2, 3], 1.0), ([3, 2], [0.5, 1.0]), ([1], 1.0)]:
        yield {"cls": "FraunhoferPropagator", "ishape": ish, "dx": dx, "k0": 2.0, "z": 1.5}
    for dt in [R64, C128, R32]:
        for ish, axis in [([4], 0), ([2, 3], 0), ([2, 3], 1), ([2, 3], -1), ([1, 3], 0), ([2, 1, 2], 1)]:
            yield {"cls": "SingleAxisFiniteSum", "ishape": ish, "axis": axis, "dt": dt}
            yield {"cls": "SingleAxisHaarTransform", "ishape": ish, "axis": axis, "dt": dt}
        for ish, axes in [([4], None), ([2, 3], None), ([2, 3], [0]), ([2, 3], 1), ([2, 2, 3], [0, 2]), ([3, 3], [1, 0])]:
            yield {"cls": "FiniteSum", "ishape": ish, "axes": axes, "dt": dt}
            yield {"cls": "HaarTransform", "ishape": ish, "axes": axes, "dt": dt}
        for (n, m), f in itertools.product([(3, 2), (2, 3), (1, 2), (3, 3)], ["sq", "sin", "rev"]):
            yield {"cls": "Jacobian", "n": n, "m": m, "dt": dt, "f": f}


def g_xray():
    pi = float(np.pi)
    angs = [[0.0], [pi / 4], [0.0, pi / 2], [0.3, 1.1, 2.5], [pi / 4, 3 * pi / 4, -0.4]]
    for ish in [[3, 3], [2, 4], [4, 2], [1, 5], [4, 4]]:
        for a in angs:
            # default detector (covers the shadow) ...
            yield {"cls": "XRayTransform2D", "ishape": ish, "angles": a}
            # ... smaller detectors (pixels project off both ends), shifted detector, wide detector, finer pixels
            for det in [1, 2, 3, 8]:
                yield {"cls": "XRayTransform2D", "ishape": ish, "angles": a, "det_count": det}
            yield {"cls": "XRayTransform2D", "ishape": ish, "angles": a, "det_count": 4, "y0": 0.0}
            yield {"cls": "XRayTransform2D", "ishape": ish, "angles": a, "det_count": 4, "y0": -6.0}
            yield {"cls": "XRayTransform2D", "ishape": ish, "angles": a, "dx": 0.5}
            yield {"cls": "XRayTransform2D", "ishape": ish, "angles": a, "dx": [0.5, 0.25], "det_count": 2}
            yield {"cls": "XRayTransform2D", "ishape": ish, "angles": a, "x0": [0.0, 0.0], "det_count": 3}
    for ish, det in [([2, 2, 2], [4, 4]), ([2, 2, 2], [2, 2]), ([2, 2, 2], [1, 3]), ([1, 2, 3], [4, 4]), ([3, 2, 1], [2, 5]), ([2, 3, 2], [6, 6]), ([2, 2, 2], [1, 1])]:
        for a in [[0.0], [0.4], [0.0, 1.2], [0.3, 2.0, -0.9]]:
            yield {"cls": "XRayTransform3D", "ishape": ish, "det": det, "angles": a, "seq": "X"}
            yield {"cls": "XRayTransform3D", "ishape": ish, "det": det, "angles": a, "seq": "Y"}
            yield {"cls": "XRayTransform3D", "ishape": ish, "det": det, "angles": a, "seq": "Z", "shift": [1.25, -0.75]}
    # detector LARGER than the volume with the object shifted partly off its first rows/columns: negative detector
    # indices must be redirected beyond the DETECTOR extent (2-D: y0 moves the detector origin into the object)
    for ish in [[3, 3], [2, 4]]:
        for a in [[0.0], [0.3, 1.1, 2.5]]:
            yield {"cls": "XRayTransform2D", "ishape": ish, "angles": a, "det_count": 12, "y0": 0.0}
            yield {"cls": "XRayTransform2D", "ishape": ish, "angles": a, "det_count": 12, "y0": -1.25}
    for ish, det, shift in [([12, 2, 2], [14, 5], [-2.25, -0.75]), ([12, 1, 2], [3, 13], [-0.5, -1.5]), ([2, 2, 2], [6, 7], [-1.25, -0.5])]:
        yield {"cls": "XRayTransform3D", "ishape": ish, "det": det, "angles": [0.0, 0.4], "seq": "Y", "shift": shift}
        yield {"cls": "XRayTransform3D", "ishape": ish, "det": det, "angles": [0.3], "seq": "Z", "shift": shift}
    # more than MAX_SLICE_LEN = 10 slices along axis 0: the slab loops of _project / _back_project run twice and the
    # second slab needs its slice offset (views whose matrix has a non-zero first column)
    for ish, det in [([11, 1, 2], [12, 3]), ([12, 2, 1], [13, 3]), ([21, 1, 1], [22, 2])]:
        yield {"cls": "XRayTransform3D", "ishape": ish, "det": det, "angles": [0.0, 0.4], "seq": "Y"}
        yield {"cls": "XRayTransform3D", "ishape": ish, "det": det, "angles": [0.3], "seq": "Z"}


def base_leaves_for_derived():
    """operands of the derived forms: (name, config, complexness)"""
    out = []
    for dt in [R64, C128, R32, C64]:
        out.append(_leaf("mat", dt, (3,), (2,)))
        out.append(_leaf("gen", dt, (3,), (2,)))
        out.append(_leaf("gen", dt, (3,), (3,)))
        out.append(_leaf("diag", dt, (3,)))
        out.append(_leaf("sid", dt, (3,)))
        out.append(_leaf("id", dt, (3,)))
        out.append(_leaf("circ", dt, (3,)))
        out.append(_leaf("fd", dt, (3,)))
        out.append(_leaf("fdc", dt, (3,)))
        out.append({"cls": "Convolve", "hshape": [2], "ishape": [3], "mode": "same", "hdt": dt, "idt": dt})
    out.append(_leaf("dft", C64, (3,)))
    out.append({"cls": "Generic", "m": 2, "n": 3, "idt": R64, "odt": C128})
    out.append({"cls": "CircularConvolve", "hshape": [2], "ishape": [3], "ndims": 1, "hdt": C128, "idt": R64})
    out.append({"cls": "Diagonal", "dshape": [1, 3], "ishape": [2, 3], "dt": C128})
    out.append({"cls": "Diagonal", "dshape": [[2], [1, 2]], "ishape": None, "dt": C128})
    out.append({"cls": "Diagonal", "dshape": [2, 3], "ishape": None, "dt": C128})
    out.append({"cls": "Diagonal", "dshape": [2, 3], "ishape": [3], "dt": C128})
    out.append({"cls": "ScaledIdentity", "ishape": [2, 3], "dt": C128, "c": [0.5, 1.5]})
    out.append({"cls": "Identity", "ishape": [2, 3], "dt": C128})
    out.append({"cls": "MatrixOperator", "m": 2, "n": 3, "dt": C128, "cols": 2})
    out.append({"cls": "XRayTransform2D", "ishape": [3, 3], "angles": [0.3, 1.1]})
    out.append({"cls": "VerticalStack", "co": True, "ops": [_seeded(_leaf("mat", C128, (3,), (2,))), _seeded(_leaf("gen", C128, (3,), (2,)))]})
    out.append({"cls": "DiagonalStack", "ci": True, "co": False, "ops": [_seeded(_leaf("gen", C128, (3,), (2,))), _seeded(_leaf("diag", C128, (3,)))]})
    return [_seeded(dict(c)) for c in out]


def leaf_signatures(leaves):
    """(input_shape, output_shape, input_dtype, output_dtype) of every operand, from the real objects"""
    sig = []
    for c in leaves:
        A = build(c)
        norm = lambda sh: str(tuple(sh) if not isinstance(sh, (int, np.integer)) else (int(sh),))
        sig.append((norm(A.input_shape), norm(A.output_shape), str(np.dtype(A.input_dtype)), str(np.dtype(A.output_dtype))))
    return sig


def g_derived():
    leaves = base_leaves_for_derived()
    for a in leaves:
        for f in ["T", "H", "conj", "gram", "neg"]:
            yield {"cls": "Derived", "form": f, "a": a}
        for c in [2.0, -0.5, [0.5, 1.5], [0.0, 1.0]]:
            for f in ["smul", "rsmul", "sdiv"]:
                yield {"cls": "Derived", "form": f, "c": c, "a": a}
    # binary forms over all ordered pairs whose declared SHAPES conform (dtypes may differ: that is part of the
    # property - the result must either be rejected at construction or have a working adjoint)
    sig = leaf_signatures(leaves)
    for (a, sa), (b, sb) in itertools.product(list(zip(leaves, sig)), repeat=2):
        if sa[0] == sb[0] and sa[1] == sb[1]:
            yield {"cls": "Derived", "form": "add", "a": a, "b": b}
            yield {"cls": "Derived", "form": "sub", "a": a, "b": b}
        if sa[0] == sb[1]:
            yield {"cls": "Derived", "form": "comp", "a": a, "b": b}
        if sa[0] == sb[0]:
            yield {"cls": "Derived", "form": "comp", "a": a, "b": {"cls": "Derived", "form": "H", "a": b}}
        if sa[1] == sb[1]:
            yield {"cls": "Derived", "form": "comp", "a": {"cls": "Derived", "form": "T", "a": a}, "b": b}


def g_shortcuts():
    """binary forms between operands of classes that override +, -, @ with closed forms (always run)"""
    fam = []
    for dt in (C128, R64):
        d23 = [
            {"cls": "Diagonal", "dshape": [2, 3], "ishape": None, "dt": dt},
            {"cls": "Diagonal", "dshape": [1, 3], "ishape": [2, 3], "dt": dt},
            {"cls": "Diagonal", "dshape": [2, 3], "ishape": [3], "dt": dt},
            {"cls": "Diagonal", "dshape": [2, 1, 3], "ishape": [1, 3], "dt": dt},
            {"cls": "ScaledIdentity", "ishape": [2, 3], "dt": dt, "c": [0.5, 1.5] if cplx(dt) else -1.5},
            {"cls": "Identity", "ishape": [2, 3], "dt": dt},
            {"cls": "ScaledIdentity", "ishape": [3], "dt": dt, "c": 2.0},
            {"cls": "Identity", "ishape": [3], "dt": dt},
            {"cls": "Diagonal", "dshape": [[2], [1, 2]], "ishape": None, "dt": dt},
            {"cls": "Identity", "ishape": [[2], [1, 2]], "dt": dt},
        ]
        mats = [
            {"cls": "MatrixOperator", "m": 3, "n": 3, "dt": dt, "cols": 0},
            {"cls": "MatrixOperator", "m": 2, "n": 3, "dt": dt, "cols": 0},
            {"cls": "MatrixOperator", "m": 3, "n": 2, "dt": dt, "cols": 0, "x": 1},
            {"cls": "MatrixOperator", "m": 3, "n": 3, "dt": dt, "cols": 2},
            {"cls": "Identity", "ishape": [3], "dt": dt},
            {"cls": "Generic", "m": 3, "n": 3, "idt": dt, "odt": dt},
        ]
        convs = [
            {"cls": "CircularConvolve", "hshape": [2], "ishape": [3], "ndims": 1, "hdt": dt, "idt": dt},
            {"cls": "CircularConvolve", "hshape": [3], "ishape": [3], "ndims": 1, "hdt": dt, "idt": dt, "x": 1},
            {"cls": "Convolve", "hshape": [2], "ishape": [3], "mode": "same", "hdt": dt, "idt": dt},
            {"cls": "Convolve", "hshape": [2], "ishape": [3], "mode": "same", "hdt": dt, "idt": dt, "x": 1},
            {"cls": "ConvolveByX", "hshape": [2], "ishape": [3], "mode": "full", "hdt": dt, "idt": dt},
            {"cls": "ConvolveByX", "hshape": [2], "ishape": [3], "mode": "full", "hdt": dt, "idt": dt, "x": 1},
        ]
        fam += [d23, mats, convs]
    for group in fam:
        group = [_seeded(dict(c)) for c in group]
        sig = leaf_signatures(group)
        for (a, sa), (b, sb) in itertools.product(list(zip(group, sig)), repeat=2):
            if sa[0] == sb[0] and sa[1] == sb[1]:
                yield {"cls": "Derived", "form": "add", "a": a, "b": b}
                yield {"cls": "Derived", "form": "sub", "a": a, "b": b}
            if sa[0] == sb[1]:
                yield {"cls": "Derived", "form": "comp", "a": a, "b": b}


def shortcut_grid():
    return [_seeded(c) for c in g_shortcuts()]


GENERATORS = [g_generic, g_matrix, g_diag, g_scaledid, g_circ, g_conv, g_dft, g_fd, g_func, g_grad, g_stack, g_drep, g_misc, g_xray]


def grid():
    """the full class grid (without derived forms), deterministic order"""
    out = []
    for g in GENERATORS:
        for cfg in g():
            out.append(_seeded(cfg))
    return out


def derived_grid():
    return [_seeded(c) for c in g_derived()]


def key_of(cfg):
    import json

    return json.dumps(cfg, sort_keys=True)
