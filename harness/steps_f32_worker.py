"""Default-precision worker of C11 / C03 (run as a subprocess WITHOUT jax_enable_x64): every sampled optimiser recipe is built with
float32 / complex64 operators and data (starts partly omitted: the constructors' own default dtypes), optionally put into a given
state, stepped once, and its residual accessors / objective are called.  Reported per case: exception (none allowed for these
conforming inputs), dtypes of every public state array before and after the step (must stay 32-bit and keep their real / complex
kind), the post-state and the accessor values (compared by the parent with the model at float32 tolerance).
stdin: {"repo": ..., "cases": [{"recipe": ..., "pre": state | null}, ...]}; stdout: {"results": [...]}."""

import json
import os
import sys
import warnings

os.environ["JAX_PLATFORMS"] = "cpu"
os.environ.pop("JAX_ENABLE_X64", None)
os.environ.setdefault("XLA_FLAGS", "--xla_cpu_multi_thread_eigen=false intra_op_parallelism_threads=2")
req = json.loads(sys.stdin.read())
sys.path.insert(0, req["repo"])
sys.path.insert(0, os.path.dirname(os.path.abspath(__file__)))
warnings.simplefilter("ignore")
import numpy as np  # noqa: E402

import jax  # noqa: E402

assert not jax.config.jax_enable_x64
import steps_gen as G  # noqa: E402

G.SINGLE = True


def leaves(v):
    if hasattr(v, "arrays") or type(v).__name__ == "BlockArray":
        return list(v)
    return [v]


def state_arrays(b):
    s, a = b.solver, b.alg
    if a == "admm":
        return {"x": s.x, "z_list": list(s.z_list), "z_list_old": list(s.z_list_old), "u_list": list(s.u_list)}
    if a == "ladmm":
        return {"x": s.x, "z": s.z, "z_old": s.z_old, "u": s.u}
    if a in ("padmm", "nlpadmm"):
        return {"x": s.x, "z": s.z, "z_old": s.z_old, "u": s.u, "u_old": s.u_old}
    if a == "pdhg":
        return {"x": s.x, "x_old": s.x_old, "z": s.z, "z_old": s.z_old}
    d = {"x": s.x, "fixed_point_residual": s.fixed_point_residual, "L": s.L}
    if a == "apgm":
        d.update({"v": s.v, "t": s.t})
    return d


def dtype_report(b):
    """names of state entries whose dtype is not 32-bit / of the wrong kind"""
    bad, seen = [], {}
    want_c = b.cplx
    for name, v in state_arrays(b).items():
        vs = v if isinstance(v, list) else [v]
        for w in vs:
            for leaf in leaves(w):
                if isinstance(leaf, (int, float)):
                    continue  # python scalars are weakly typed
                dt = np.dtype(getattr(leaf, "dtype", type(leaf)))
                seen[name] = str(dt)
                if dt.itemsize > (8 if dt.kind == "c" else 4):
                    bad.append(f"{name}:{dt}")
                elif name not in ("L", "t", "fixed_point_residual") and (dt.kind == "c") != want_c:
                    bad.append(f"{name}:{dt} (variable is {'complex' if want_c else 'real'})")
    return bad, seen


def scalar(v):
    dt = np.dtype(getattr(v, "dtype", type(v)))
    return float(np.real(v)), (str(dt) if dt.itemsize > 4 and not isinstance(v, (int, float)) else None)


out = []
for k, case in enumerate(req["cases"]):
    rec = {"i": k}
    stage = "constructor"
    try:
        b = G.Built(case["recipe"])
        bad0, _ = dtype_report(b)
        rec["init"] = b.read()
        if case.get("pre") is not None:
            stage = "state"
            b.write(case["pre"])
        stage = "step"
        b.solver.step()
        bad1, seen = dtype_report(b)
        rec["post"] = b.read()
        rec["dtypes"] = seen
        rec["bad_dtypes"] = sorted(set(bad0 + bad1))
        acc = {}
        s = b.solver
        calls = [("objective", s.objective)]
        if b.alg in ("pgm", "apgm"):
            calls.append(("residual", s.norm_residual))
        else:
            calls += [("primal", s.norm_primal_residual), ("dual", s.norm_dual_residual)]
        for name, fn in calls:
            stage = name
            v, wide = scalar(fn())
            acc[name] = v
            if wide:
                rec["bad_dtypes"].append(f"{name}():{wide}")
        rec["acc"] = acc
    except Exception as e:  # noqa: BLE001
        rec["raised"] = f"{stage}: {type(e).__name__}: {e}"[:400]
    out.append(rec)
    if k % 20 == 19:
        jax.clear_caches()
print(json.dumps({"results": out}))
