"""Generators / builders for the C07 (Autograd) adapter.

A *recipe* is a JSON-able description of a functional expression.  From one recipe we build
(a) the real scico object with scico's own constructors and operators (`build`), and
(b) the request tree for the Lean model (`to_model`).  Numbers in recipes are Python floats /
[re, im] pairs (dyadic, so exactly representable); the model tree carries IEEE bit patterns.
"""

from __future__ import annotations

import numpy as np

import common
from common import f2b

# --------------------------------------------------------------------------------------------
# encoding


def cv(a):
    """array (real or complex, any shape) -> {"re": bits, "im": bits} of its row-major flattening"""
    a = np.asarray(a)
    if a.dtype == object:
        raise common.Infra("object array")
    z = np.asarray(a, dtype=np.complex128).ravel()
    return {"re": [f2b(v) for v in z.real.tolist()], "im": [f2b(v) for v in z.imag.tolist()]}


def cmat(M):
    M = np.asarray(M, dtype=np.complex128)
    return {
        "re": [[f2b(v) for v in row] for row in M.real.tolist()],
        "im": [[f2b(v) for v in row] for row in M.imag.tolist()],
    }


def from_cv(d):
    re = np.array(common.b2fs(d["re"]), dtype=np.float64)
    im = np.array(common.b2fs(d["im"]), dtype=np.float64)
    return re + 1j * im


def enc(a):
    """complex/real array -> nested [re, im] lists (recipe storage)"""
    a = np.asarray(a, dtype=np.complex128)
    return [[float(v.real), float(v.imag)] for v in a.ravel()]


def dec(l, shape=None, cplx=True):
    a = np.array([complex(r, i) for r, i in l], dtype=np.complex128)
    if shape is not None:
        a = a.reshape(shape)
    return a if cplx else a.real.copy()


def flat_blocks(x):
    """scico array or BlockArray -> flat complex numpy vector (concatenation of raveled blocks)"""
    if hasattr(x, "arrays"):
        return np.concatenate([np.asarray(b).ravel() for b in x.arrays]).astype(np.complex128)
    return np.asarray(x).ravel().astype(np.complex128)


# --------------------------------------------------------------------------------------------
# random dyadic data


def dy(rng, shape, cplx, nz=False, bits=3, scale=2.0):
    a = common.dyadic(rng, shape, bits=bits, scale=scale)
    if cplx:
        a = a + 1j * common.dyadic(rng, shape, bits=bits, scale=scale)
    if nz:
        a = np.where(a == 0, 1.0 / (1 << bits), a)
    return a


def dyscalar(rng, positive=False):
    v = float(common.dyadic(rng, (), bits=2, scale=3.0))
    if v == 0.0:
        v = 0.25
    return abs(v) if positive else v


# --------------------------------------------------------------------------------------------
# recipes

LEAVES = ["zero", "sqL2", "l2", "l1", "huber_sep", "huber_nonsep", "l1ml2"]


def gen_leaf(rng, n):
    k = LEAVES[int(rng.integers(len(LEAVES)))]
    if k == "huber_sep":
        return {"k": "huber", "delta": float(rng.choice([0.5, 1.0, 2.0])), "sep": True}
    if k == "huber_nonsep":
        return {"k": "huber", "delta": float(rng.choice([0.5, 1.0, 2.0, 4.0])), "sep": False}
    if k == "l1ml2":
        return {"k": "l1ml2", "beta": float(rng.choice([0.5, 1.0, 0.25]))}
    return {"k": k}


def gen_op(rng, n, cplx):
    """operator A with input size n: identity (None) / diagonal / dense matrix"""
    kind = ["none", "diag", "matrix", "matrix"][int(rng.integers(4))]
    if kind == "none":
        return {"kind": "none", "m": n}
    if kind == "diag":
        return {"kind": "diag", "m": n, "d": enc(dy(rng, (n,), cplx))}
    m = int(rng.integers(1, 5))
    return {"kind": "matrix", "m": m, "M": enc(dy(rng, (m, n), cplx))}


def gen_nlop(rng, n, cplx):
    """nonlinear operator F(x) = A x + B conj(x) + (C x)^2 + c (entrywise square), small coefficients"""
    m = int(rng.integers(1, 4))
    z = np.zeros((m, n), dtype=np.complex128 if cplx else np.float64)
    A = dy(rng, (m, n), cplx)
    B = dy(rng, (m, n), cplx, scale=1.0) if rng.random() < 0.5 else z
    C = dy(rng, (m, n), cplx, bits=2, scale=1.0) if rng.random() < 0.75 else z
    return {"kind": "op", "m": m, "A": enc(A), "B": enc(B), "C": enc(C), "c": enc(dy(rng, (m,), cplx))}


def gen_op_pos(rng, n):
    """operator with positive real entries (PoissonLoss needs A x > 0 for x > 0)"""
    kind = ["none", "diag", "matrix"][int(rng.integers(3))]
    if kind == "none":
        return {"kind": "none", "m": n}
    if kind == "diag":
        return {"kind": "diag", "m": n, "d": enc(np.abs(dy(rng, (n,), False)) + 0.25)}
    m = int(rng.integers(1, 5))
    return {"kind": "matrix", "m": m, "M": enc(np.abs(dy(rng, (m, n), False)) + 0.25)}


def gen_tree(rng, n, cplx, depth, inner=False):
    """random functional expression on a flat argument of size n (`inner`: the argument is a residual
    A x - y, so nodes that need a positive argument are not generated)"""
    if depth <= 0:
        return gen_leaf(rng, n)
    r = rng.random()
    if r < 0.18:
        return gen_leaf(rng, n)
    if r < 0.38:
        return {"k": "mul", "c": dyscalar(rng), "side": "l" if rng.random() < 0.5 else "r", "f": gen_tree(rng, n, cplx, depth - 1, inner)}
    if r < 0.50:
        return {"k": "add", "f": gen_tree(rng, n, cplx, depth - 1, inner), "g": gen_tree(rng, n, cplx, depth - 1, inner)}
    if r < 0.58:
        # division: defined for losses only; applied to a loss node here
        node = gen_lossnode(rng, n, cplx, depth - 1, inner)
        c = dyscalar(rng)
        return {"k": "div", "c": c, "f": node}
    return gen_lossnode(rng, n, cplx, depth - 1, inner)


def gen_poisson_tree(rng, n):
    """a PoissonLoss (real data), bare or scaled / divided / summed with a smooth functional"""
    op = gen_op_pos(rng, n)
    t = {"k": "poisson", "s": dyscalar(rng), "op": op, "y": [float(v) for v in np.abs(common.dyadic(rng, (op["m"],), bits=0, scale=4.0))]}
    r = rng.random()
    if r < 0.25:
        t = {"k": "mul", "c": dyscalar(rng), "side": "l" if rng.random() < 0.5 else "r", "f": t}
    elif r < 0.45:
        t = {"k": "div", "c": dyscalar(rng), "f": t}
    elif r < 0.7:
        t = {"k": "add", "f": t, "g": gen_tree(rng, n, False, 1)}
    return t


def gen_proxavg(rng, n):
    """ProximalAverage of 2-3 functionals with a prox (leaves, positively scaled leaves), weights None /
    summing to one / not summing to one; possibly scaled or added to something"""
    k = int(rng.integers(2, 4))
    fs = []
    for _ in range(k):
        f = gen_leaf(rng, n)
        if rng.random() < 0.3:
            f = {"k": "mul", "c": dyscalar(rng, True), "side": "l", "f": f}
        fs.append(f)
    r = rng.random()
    if r < 0.35:
        al = None
    elif r < 0.6:
        al = [[0.25, 0.75], [0.5, 0.25, 0.25]][k - 2]
    else:
        al = [dyscalar(rng, True) for _ in range(k)]
    t = {"k": "proxavg", "fs": fs, "alphas": al}
    if rng.random() < 0.3:
        t = {"k": "mul", "c": dyscalar(rng), "side": "r", "f": t}
    return t


def _gen_w(rng, m):
    return None if rng.random() < 0.4 else [float(v) for v in np.abs(common.dyadic(rng, (m,), bits=2, scale=2.0))]


def gen_lossnode(rng, n, cplx, depth, inner=False):
    r = rng.random()
    if r < 0.74 and r >= 0.68 and not cplx and not inner:
        op = gen_op_pos(rng, n)
        return {"k": "poisson", "s": dyscalar(rng), "op": op, "y": [float(v) for v in np.abs(common.dyadic(rng, (op["m"],), bits=0, scale=4.0))]}
    if 0.50 <= r < 0.58:
        F = gen_nlop(rng, n, cplx)
        return {"k": "sqL2LossOp", "s": dyscalar(rng), "F": F, "y": enc(dy(rng, (F["m"],), cplx)), "w": _gen_w(rng, F["m"])}
    if 0.58 <= r < 0.68:
        F = gen_nlop(rng, n, cplx)
        return {"k": "lossOp", "s": dyscalar(rng), "F": F, "y": enc(dy(rng, (F["m"],), cplx)), "f": gen_tree(rng, F["m"], cplx, depth - 1, True)}
    op = gen_op(rng, n, cplx)
    m = op["m"]
    if r < 0.30:
        return {"k": "sqL2Loss", "s": dyscalar(rng), "op": op, "y": enc(dy(rng, (m,), cplx)), "w": _gen_w(rng, m)}
    if r < 0.42:
        return {"k": "sqL2SqAbsLoss", "s": dyscalar(rng), "op": op, "y": [float(v) for v in common.dyadic(rng, (m,), bits=2, scale=2.0)], "w": _gen_w(rng, m)}
    if r < 0.50:
        return {"k": "sqL2AbsLoss", "s": dyscalar(rng), "op": op, "y": [float(v) for v in np.abs(common.dyadic(rng, (m,), bits=2, scale=2.0))], "w": _gen_w(rng, m)}
    return {"k": "loss", "s": dyscalar(rng), "op": op, "y": enc(dy(rng, (m,), cplx)), "f": gen_tree(rng, m, cplx, depth - 1, True)}


def gen_block_tree(rng, sizes, cplx, depth):
    """functional on a BlockArray with the given block sizes: separable, or a flat functional
    applied to the whole block array, possibly scaled / summed"""
    r = rng.random()
    if r < 0.55:
        t = {"k": "sepN", "fs": [gen_tree(rng, n, cplx, depth) for n in sizes], "sizes": list(sizes)}
    elif r < 0.75:
        leaf = gen_leaf(rng, sum(sizes))
        t = leaf
    elif r < 0.9:
        t = {"k": "mul", "c": dyscalar(rng), "side": "l", "f": gen_block_tree(rng, sizes, cplx, depth - 1) if depth > 0 else gen_leaf(rng, sum(sizes))}
    else:
        t = {"k": "add", "f": gen_leaf(rng, sum(sizes)), "g": {"k": "sepN", "fs": [gen_leaf(rng, n) for n in sizes], "sizes": list(sizes)}}
    return t


# --------------------------------------------------------------------------------------------
# recipe -> scico object


def dtype_of(cplx, single=False):
    if single:
        return np.complex64 if cplx else np.float32
    return np.complex128 if cplx else np.float64


def build_op(op, n, cplx, single=False):
    import scico.numpy as snp
    from scico import linop

    dt = dtype_of(cplx, single)
    if op["kind"] == "none":
        return None
    if op["kind"] == "diag":
        return linop.Diagonal(snp.array(np.asarray(dec(op["d"], (n,), cplx), dtype=dt)), input_dtype=dt)
    M = dec(op["M"], (op["m"], n), cplx)
    return linop.MatrixOperator(snp.array(np.asarray(M, dtype=dt)), input_cols=0)


def nlop_parts(F, n, cplx=True):
    m = F["m"]
    return tuple(dec(F[k], (m, n), cplx) for k in ("A", "B", "C")) + (dec(F["c"], (m,), cplx),)


def nlop_eval(F, x):
    """numpy value of the operator recipe at a flat vector"""
    x = np.asarray(x, dtype=np.complex128).ravel()
    A, B, C, c = nlop_parts(F, x.size)
    return A @ x + B @ np.conj(x) + (C @ x) ** 2 + c


def build_nlop(F, n, cplx, single=False):
    """operator recipe -> scico.operator.Operator (arbitrary eval_fn: scico only forwards jax.jvp/vjp)"""
    import jax.numpy as jnp
    from scico.operator import Operator

    dt = dtype_of(cplx, single)
    A, B, C, c = (jnp.asarray(a, dtype=dt) for a in nlop_parts(F, n, cplx))

    def ev(x):
        return A @ x + B @ jnp.conj(x) + (C @ x) ** 2 + c

    return Operator((n,), output_shape=(F["m"],), eval_fn=ev, input_dtype=dt, output_dtype=dt)


def nlop_model(F, n):
    A, B, C, c = nlop_parts(F, n)
    return {"A": cmat(A), "B": cmat(B), "C": cmat(C), "c": cv(c)}


def has_kind(t, kind):
    return kind in kinds(t)


def op_matrix(op, n):
    if op["kind"] == "none":
        return np.eye(n, dtype=np.complex128)
    if op["kind"] == "diag":
        return np.diag(dec(op["d"], (n,)))
    return dec(op["M"], (op["m"], n))


def build(t, n, cplx, single=False):
    """recipe -> scico Functional (using the operators `*`, `/`, `+` where the recipe says so)"""
    import scico.numpy as snp
    from scico import functional, linop, loss

    dt = dtype_of(cplx, single)
    rdt = np.float32 if single else np.float64
    k = t["k"]
    if k == "zero":
        return functional.ZeroFunctional()
    if k == "sqL2":
        return functional.SquaredL2Norm()
    if k == "l2":
        return functional.L2Norm()
    if k == "l1":
        return functional.L1Norm()
    if k == "huber":
        return functional.HuberNorm(delta=t["delta"], separable=t["sep"])
    if k == "l1ml2":
        return functional.L1MinusL2Norm(beta=t["beta"])
    if k == "l21":
        return functional.L21Norm(l2_axis=t["axis"])
    if k == "mul":
        f = build(t["f"], n, cplx, single)
        return t["c"] * f if t["side"] == "l" else f * t["c"]
    if k == "div":
        return build(t["f"], n, cplx, single) / t["c"]
    if k == "add":
        return build(t["f"], n, cplx, single) + build(t["g"], n, cplx, single)
    if k == "proxavg":
        return functional.ProximalAverage([build(f, n, cplx, single) for f in t["fs"]], alpha_list=t["alphas"])
    if k == "sepN":
        return functional.SeparableFunctional([build(f, m, cplx, single) for f, m in zip(t["fs"], t["sizes"])])
    if k in ("lossOp", "sqL2LossOp"):
        F = build_nlop(t["F"], n, cplx, single)
        m = t["F"]["m"]
        y = snp.array(np.asarray(dec(t["y"], (m,), cplx), dtype=dt))
        if k == "lossOp":
            return loss.Loss(y=y, A=F, f=build(t["f"], m, cplx, single), scale=t["s"])
        W = None if t.get("w") is None else linop.Diagonal(snp.array(np.array(t["w"], dtype=rdt)), input_dtype=dt)
        return loss.SquaredL2Loss(y=y, A=F, scale=t["s"], W=W)
    if k == "poisson":
        op = t["op"]
        A = build_op(op, n, cplx, single)
        return loss.PoissonLoss(y=snp.array(np.array(t["y"], dtype=rdt)), A=A, scale=t["s"])
    if k in ("loss", "sqL2Loss", "sqL2SqAbsLoss", "sqL2AbsLoss"):
        op = t["op"]
        m = op["m"]
        A = build_op(op, n, cplx, single)
        if k == "loss":
            y = snp.array(np.asarray(dec(t["y"], (m,), cplx), dtype=dt))
            return loss.Loss(y=y, A=A, f=build(t["f"], m, cplx, single), scale=t["s"])
        W = None if t.get("w") is None else linop.Diagonal(snp.array(np.array(t["w"], dtype=rdt)), input_dtype=dt)
        if k == "sqL2Loss":
            y = snp.array(np.asarray(dec(t["y"], (m,), cplx), dtype=dt))
            return loss.SquaredL2Loss(y=y, A=A, scale=t["s"], W=W)
        y = snp.array(np.array(t["y"], dtype=rdt))
        if A is None:
            A = linop.Identity((n,), input_dtype=dt)
        if k == "sqL2AbsLoss":
            return loss.SquaredL2AbsLoss(y=y, A=A, scale=t["s"], W=W)
        return loss.SquaredL2SquaredAbsLoss(y=y, A=A, scale=t["s"], W=W)
    raise common.Infra(f"unknown recipe node {k}")


# --------------------------------------------------------------------------------------------
# recipe -> model tree


def to_model(t, n):
    k = t["k"]
    if k in ("zero", "sqL2", "l2", "l1"):
        return {"k": k}
    if k == "huber":
        return {"k": "huber", "delta": f2b(t["delta"]), "sep": bool(t["sep"])}
    if k == "l1ml2":
        return {"k": "l1ml2", "beta": f2b(t["beta"])}
    if k == "l21":
        return {"k": "l21", "groups": t["groups"], "grp": list(t["grp"])}
    if k == "mul":
        return {"k": "mul", "c": f2b(t["c"]), "f": to_model(t["f"], n)}
    if k == "div":
        return {"k": "div", "c": f2b(t["c"]), "f": to_model(t["f"], n)}
    if k == "add":
        return {"k": "add", "f": to_model(t["f"], n), "g": to_model(t["g"], n)}
    if k == "proxavg":
        out = {"k": "proxavg", "fs": [to_model(f, n) for f in t["fs"]]}
        if t["alphas"] is not None:
            out["alphas"] = [f2b(a) for a in t["alphas"]]
        return out
    if k == "sepN":
        fs, sizes = t["fs"], t["sizes"]
        if len(fs) == 1:
            return to_model(fs[0], sizes[0])
        rest = {"k": "sepN", "fs": fs[1:], "sizes": sizes[1:]}
        return {"k": "sep", "n1": sizes[0], "n2": sum(sizes[1:]), "f": to_model(fs[0], sizes[0]), "g": to_model(rest, sum(sizes[1:]))}
    if k in ("lossOp", "sqL2LossOp"):
        m = t["F"]["m"]
        out = {"k": k, "m": m, "s": f2b(t["s"]), "F": nlop_model(t["F"], n), "y": cv(dec(t["y"]))}
        if k == "lossOp":
            out["f"] = to_model(t["f"], m)
        else:
            out["w"] = [f2b(1.0)] * m if t.get("w") is None else [f2b(v) for v in t["w"]]
        return out
    if k == "poisson":
        from scipy.special import gammaln

        op = t["op"]
        m = op["m"]
        y = np.array(t["y"], dtype=np.float64)
        # `self.const = gammaln(y + 1)` is a constant of the object; it enters the value only
        return {"k": "poisson", "m": m, "s": f2b(t["s"]), "A": cmat(op_matrix(op, n)), "y": [f2b(v) for v in y],
                "cst": [f2b(float(v)) for v in gammaln(y + 1.0)]}
    if k in ("loss", "sqL2Loss", "sqL2SqAbsLoss", "sqL2AbsLoss"):
        op = t["op"]
        m = op["m"]
        A = cmat(op_matrix(op, n))
        if k == "loss":
            return {"k": "loss", "m": m, "s": f2b(t["s"]), "A": A, "y": cv(dec(t["y"])), "f": to_model(t["f"], m)}
        w = [f2b(1.0)] * m if t.get("w") is None else [f2b(v) for v in t["w"]]
        if k == "sqL2Loss":
            return {"k": "sqL2Loss", "m": m, "s": f2b(t["s"]), "A": A, "y": cv(dec(t["y"])), "w": w}
        return {"k": k, "m": m, "s": f2b(t["s"]), "A": A, "y": [f2b(v) for v in t["y"]], "w": w}
    raise common.Infra(f"unknown recipe node {k}")


# --------------------------------------------------------------------------------------------
# smoothness / decision margins (input selection only)


def margin(t, x):
    """(m_kink, m_branch): distance of x to the nearest point where the expression is not
    differentiable, and to the nearest branch boundary that *is* differentiable (Huber threshold;
    0.0 = exactly on it).  numpy mirror of the expression, used only to select inputs."""
    k = t["k"]
    inf = float("inf")
    x = np.asarray(x, dtype=np.complex128).ravel()
    if k in ("zero", "sqL2"):
        return inf, inf
    if k == "l2":
        return float(np.linalg.norm(x)), inf
    if k == "l1":
        return (float(np.min(np.abs(x))) if x.size else inf), inf
    if k == "huber":
        if t["sep"]:
            return inf, (float(np.min(np.abs(np.abs(x) - t["delta"]))) if x.size else inf)
        nx = float(np.linalg.norm(x))
        return inf, abs(nx - t["delta"])
    if k == "l1ml2":
        return (float(np.min(np.abs(x))) if x.size else inf), inf
    if k == "l21":
        g = np.zeros(t["groups"])
        for i, gi in enumerate(t["grp"]):
            g[gi] += abs(x[i]) ** 2
        return float(np.sqrt(np.min(g))), inf
    if k in ("mul", "div"):
        return margin(t["f"], x)
    if k == "add":
        a, b = margin(t["f"], x), margin(t["g"], x)
        return min(a[0], b[0]), min(a[1], b[1])
    if k == "proxavg":
        ms = [margin(f, x) for f in t["fs"]]
        return min(a[0] for a in ms), min(a[1] for a in ms)
    if k == "sepN":
        mk, mb, o = inf, inf, 0
        for f, m in zip(t["fs"], t["sizes"]):
            a = margin(f, x[o : o + m])
            mk, mb, o = min(mk, a[0]), min(mb, a[1]), o + m
        return mk, mb
    if k == "loss":
        r = op_matrix(t["op"], x.size) @ x - dec(t["y"])
        return margin(t["f"], r)
    if k in ("sqL2Loss", "sqL2SqAbsLoss", "sqL2LossOp"):
        return inf, inf
    if k == "sqL2AbsLoss":
        r = op_matrix(t["op"], x.size) @ x
        return (float(np.min(np.abs(r))) if r.size else inf), inf
    if k == "poisson":
        r = op_matrix(t["op"], x.size) @ x
        if np.any(np.abs(r.imag) > 0) or np.any(r.real <= 0):
            return 0.0, inf
        return float(np.min(r.real)), inf
    if k == "lossOp":
        return margin(t["f"], nlop_eval(t["F"], x) - dec(t["y"]))
    raise common.Infra(f"unknown recipe node {k}")


def kinds(t, acc=None):
    acc = acc if acc is not None else []
    k = t["k"]
    acc.append(k if k != "huber" else ("huber_sep" if t["sep"] else "huber_nonsep"))
    for key in ("f", "g"):
        if key in t and isinstance(t[key], dict):
            kinds(t[key], acc)
    for f in t.get("fs", []):
        kinds(f, acc)
    return acc
