"""C12 - declared shapes and dtypes match actual behaviour; bad inputs are rejected.

Part 1: integer shape calculus (`slice_length`, `indexed_shape`, the `Slice` operator, collapse rules).
Part 2: declared metadata of derived operators through the OpAlg engine (harness/opalg_*.py).
"""

from __future__ import annotations

import itertools

import numpy as np

import common
from common import ModelErr

PROP = "C12"
CLAIMED = True
ENGINE = "OpAlg"
DESIGN_REF = "DESIGN.md §5.1"
TECHNIQUE = (
    "Lean 4 proof: induction/omega over the integer slice calculus, list induction for the collapse rules, induction "
    "over operator expression trees for the declared metadata (engine OpAlg) + exhaustive small-scope / class-table / "
    "random-tree correspondence with the code"
)
LEVEL_TEXT = (
    "Lean theorems: (1) the declared length of a sliced axis equals the number of positions Python indexing selects, "
    "for every axis length and start/stop/step; selected positions in range; rejection iff step 0; indexed_shape (the "
    "loop as written) = NumPy basic indexing for every shape and every index tuple of ints/slices/None with at most one "
    "Ellipsis, rejections included; (2) collapse rules: stacked iff allowed and all shapes equal one plain shape (size "
    "preserved), twice-nested rejected; (3) for every accepted linear operator expression (all classes, any depth): "
    "matrix_shape = (size out, size in) = shape of the denoted matrix, eval/adj return arrays of exactly the declared "
    "sizes, __call__ evaluates an array iff its shape is input_shape, adj iff output shape (and dtype) match; (4) declared "
    "dtype = returned dtype (forward and adjoint) for every expression whose generic sums / Operator compositions agree "
    "in dtype - in particular for every dtype-uniform expression; result_type lattice laws.  The models are tied to "
    "slice_length / indexed_shape / collapse_shapes / shape_to_size and to the metadata of real operator objects."
)
LEVEL_NOTE = (
    "Trusted: Lean kernel + Mathlib (axioms propext, Classical.choice, Quot.sound); CPython slice.indices/range and NumPy "
    "basic indexing (the model and its specification are checked against them on every case); jax dtype promotion (table "
    "validated every run). Excluded by an explicit hypothesis of the dtype theorem (and false for the code): operands of "
    "different dtypes in a generic sum / Operator composition - recorded findings mixed-operand-dtypes, "
    "adj-dtype-check-mixed."
)
PROP_MODULES = ["Scico.Props.C12"]
EXTRA_TARGETS = ["Drv.Shape", "Drv.OpAlg"]
DRIVER = "Shape"
FILES = ["scico/numpy/util.py", "scico/linop/_func.py", "scico/operator/_operator.py", "scico/linop/_linop.py",
         "scico/linop/_diag.py", "scico/linop/_matrix.py", "scico/operator/_stack.py", "scico/linop/_stack.py", "scico/function.py"]
RULE = (
    "slices: every (n, start, stop, step) with n<=N, start/stop in [-B,B] or None, step in [-3,3] or None (step 0 = "
    "malformed stream), non-trivial when the slice selects >=1 position and is not the full forward slice. indexed_shape: "
    "every tuple of length <=3/4 over 11 index atoms (None, Ellipsis, in/out-of-range ints, slices) on 3/5 shapes, "
    "non-trivial when non-empty. collapse: all pairs/triples of 6 plain/nested shapes x allow. operator metadata: unary part "
    "of the class table, real->complex and explicit-input_dtype operands under every class, random trees (160/4000), random stacks of random expressions (40/1200), "
    "non-trivial when the tree has an operation node, distinct by skeleton; fixed stacks/freeze/Function configurations; "
    "model-backed streams: freeze / Function.slice / join (every index in [-N-1, N]), DiagonalReplicated (axes in and out of range)."
)
ASSUMPTIONS = [
    "CPython's slice.indices / range and NumPy basic indexing are the reference semantics of slicing (contract)",
    "jax.numpy.result_type is the dtype of jax arithmetic (validated against the model table on every run of C05)",
    "jax.linear_transpose returns the transpose of the dense matrix of a linear closure (real part for real primals)",
]


def _impl_slice_length(util, n, sl):
    try:
        return ("ok", util.slice_length(n, sl))
    except Exception as e:  # noqa: BLE001
        return ("err", common.err_kind(e))


def _oracle_slice(scico):
    """property oracle on the implementation: the Slice operator's declared output shape versus the shape
    of what it returns (and versus numpy indexing)"""
    import scico.numpy as snp
    from scico.linop import Slice

    def oracle(case):
        n, sl = case["n"], slice(case["start"], case["stop"], case["step"])
        want = np.arange(n)[sl].shape
        from scico.numpy.util import indexed_shape

        try:
            decl = tuple(indexed_shape((n,), sl))
        except Exception as e:  # noqa: BLE001
            decl = repr(e)
        if decl != want:
            return {"n": n, "slice": [case["start"], case["stop"], case["step"]], "indexed_shape": decl if isinstance(decl, str) else list(decl), "numpy_shape": list(want)}
        if n == 0:
            return None
        try:
            A = Slice(sl, (n,), input_dtype=np.float64)
        except Exception as e:  # noqa: BLE001
            return {"n": n, "slice": [case["start"], case["stop"], case["step"]], "constructor_raised": repr(e)}
        y = A(snp.arange(n, dtype=np.float64))
        if tuple(A.output_shape) != tuple(y.shape) or tuple(y.shape) != want:
            return {
                "n": n,
                "slice": [case["start"], case["stop"], case["step"]],
                "declared_output_shape": list(A.output_shape),
                "returned_shape": list(y.shape),
                "numpy_shape": list(want),
            }
        return None

    return oracle


def correspond(ctx, model):
    scico = common.setup_scico()
    from scico.numpy import util

    oracle = _oracle_slice(scico)
    N = ctx.n(5, 7)
    B = ctx.n(7, 9)
    vals = [None] + list(range(-B, B + 1))
    steps = [None, -3, -2, -1, 1, 2, 3]
    all_cases = [(n, a, b, s) for n in range(0, N + 1) for a in vals for b in vals for s in steps]
    ctx.exhaustive = True
    ctx.extra["slice_grid"] = {"n_max": N, "bound": B, "steps": [str(s) for s in steps], "cases": len(all_cases)}
    bad = []
    for n, a, b, s in all_cases:
        sl = slice(a, b, s)
        case = {"n": n, "start": a, "stop": b, "step": s}
        got = model.call("slice", n=n, start=a, stop=b, step=s)
        # reference semantics (contract check of the model's pyIndices / enumeration)
        ref_idx = list(sl.indices(n))
        ref_sel = list(range(n))[sl]
        if got["indices"] != ref_idx or got["selected"] != ref_sel:
            raise common.Infra(f"model disagrees with CPython slicing on {case}: {got} vs {ref_idx} {ref_sel}")
        impl = _impl_slice_length(util, n, sl)
        nt = None
        if len(ref_sel) > 0 and not (s in (None, 1) and len(ref_sel) == n):
            nt = (n, a, b, s)
        ctx.case(case, nt)
        ctx.count("step<0" if (s is not None and s < 0) else "step>0")
        ctx.count(f"len={len(ref_sel)}")
        if impl != ("ok", got["len"]):
            bad.append((case, list(impl), got["len"]))
    for i in sorted({len(bad) - 1, len(bad) // 2, 0} - {-1}) if bad else []:
        ctx.disagree("shape.slice_length", *bad[i], oracle=oracle)
    ctx.count("slice_length disagreements", len(bad))
    # malformed stream: zero step
    _indexed_shape_part(ctx, model)
    _collapse_part(ctx, model)
    _stacks_part(ctx)
    _part2(ctx)
    for n in range(0, 4):
        sl = slice(None, None, 0)
        try:
            model.call("slice", n=n, start=None, stop=None, step=0)
            m = "ok"
        except ModelErr as e:
            m = e.kind
        impl = _impl_slice_length(util, n, sl)
        ctx.case({"n": n, "step": 0}, None)
        ctx.count("malformed:step0")
        if not (m == "value" and impl[0] == "err"):
            ctx.disagree("shape.slice_length.reject", {"n": n, "start": None, "stop": None, "step": 0}, list(impl), m)


def _idx_json(ix):
    if ix is None:
        return {"k": "none"}
    if ix is Ellipsis:
        return {"k": "ellipsis"}
    if isinstance(ix, slice):
        return {"k": "slice", "start": ix.start, "stop": ix.stop, "step": ix.step}
    return {"k": "int", "i": int(ix)}


def _indexed_shape_part(ctx, model):
    """indexed_shape on tuples of ints / slices / None / Ellipsis: model = code (exact, incl. rejection),
    model's specification = NumPy indexing (contract), code = NumPy (the property itself)"""
    from scico.numpy.util import indexed_shape

    atoms = [None, Ellipsis, 0, -1, 2, 5, slice(None), slice(0, 2), slice(None, None, -1), slice(1, None, 2), slice(-7, 9, 3)]
    shapes = [(3,), (3, 4), (2, 3, 4)] if not ctx.thorough else [(1,), (3,), (3, 4), (4, 1), (2, 3, 4)]
    maxlen = ctx.n(3, 4)
    n = 0
    for shape in shapes:
        x = np.zeros(shape)
        for L in range(0, maxlen + 1):
            for idx in itertools.product(atoms, repeat=L):
                if sum(1 for i in idx if i is Ellipsis) > 1:
                    continue
                try:
                    want = list(x[idx].shape)
                except IndexError:
                    want = None
                try:
                    got = [int(v) for v in indexed_shape(shape, idx)]
                except ValueError:
                    got = None
                r = model.raw({"op": "indexed_shape", "shape": list(shape), "idx": [_idx_json(i) for i in idx]})
                if "bad" in r:
                    raise common.Infra(f"indexed_shape driver: {r}")
                mod = r["ok"]["shape"] if "ok" in r else None
                spec = (r["ok"] if "ok" in r else r)["spec"]
                n += 1
                if spec != want:
                    raise common.Infra(f"indexSpec disagrees with NumPy on {shape} {idx}: {spec} vs {want}")
                nt = None if L == 0 else ("idx", shape, tuple(repr(i) for i in idx))
                ctx.case({"shape": list(shape), "idx": [repr(i) for i in idx]}, nt, sample_every=5000)
                if mod != got or got != want:
                    case = {"shape": list(shape), "idx": [_idx_json(i) for i in idx]}

                    def orc(c, shape=shape, idx=idx, want=want, got=got):
                        if got != want:
                            return {"shape": list(shape), "idx": [repr(i) for i in idx], "indexed_shape": got, "numpy_shape": want}
                        return None

                    ctx.disagree("shape.indexed_shape", case, got, mod, oracle=orc)
                    return
    ctx.count("indexed_shape:cases", n)
    ctx.extra["indexed_shape_grid"] = {"atoms": [repr(a) for a in atoms], "shapes": [list(s) for s in shapes], "max_len": maxlen, "cases": n, "exhaustive": True}


def _collapse_part(ctx, model):
    """collapse_shapes / is_collapsible / is_blockable / shape_to_size and the stacks built from them"""
    scico = common.setup_scico()
    import jax.numpy as jnp
    from scico import linop
    from scico.numpy.util import shape_to_size
    from scico.operator._stack import collapse_shapes

    pool = [(2,), (3,), (2, 3), (1,), ((2,), (3,)), ((1, 2), (2,))]
    rng = ctx.rng
    combos = list(itertools.product(range(len(pool)), repeat=2)) + list(itertools.product(range(len(pool)), repeat=3))
    for combo in combos:
        for allow in (True, False):
            shapes = tuple(pool[i] for i in combo)
            try:
                sh, col = collapse_shapes(shapes, allow)
                impl = {"collapsed": bool(col), "shape": _tolist(sh)}
            except ValueError:
                impl = None
            except Exception as ex:  # noqa: BLE001
                impl = "raised " + type(ex).__name__
            r = model.raw({"op": "collapse", "shapes": [_tolist(s) for s in shapes], "allow": allow})
            if "bad" in r:
                raise common.Infra(f"collapse driver: {r}")
            mod = {"collapsed": r["ok"]["collapsed"], "shape": r["ok"]["shape"]} if "ok" in r else None
            sizes = (r["ok"] if "ok" in r else r)["sizes"]
            ctx.case({"shapes": [_tolist(s) for s in shapes], "allow": allow}, ("collapse", combo, allow))
            ctx.count("collapse:" + ("error" if mod is None else ("stacked" if mod["collapsed"] else "blocked")))
            if sizes != [int(shape_to_size(s)) for s in shapes]:
                ctx.disagree("shape.shape_to_size", {"shapes": [_tolist(s) for s in shapes]}, [int(shape_to_size(s)) for s in shapes], sizes)
                return
            if impl != mod:
                kid = "collapse-nested-shapes" if (isinstance(impl, dict) and impl["collapsed"] and any(isinstance(v, list) for v in impl["shape"])) else None
                ctx.disagree("shape.collapse_shapes", {"shapes": [_tolist(s) for s in shapes], "allow": allow}, impl, mod, known_id=kid)
                if kid is None or not ctx.is_known(kid):
                    return
    # real stacks: declared output shape / plain-vs-block as returned
    for k in range(ctx.n(12, 60)):
        nops = int(rng.integers(2, 4))
        n = int(rng.integers(1, 4))
        outs = [int(rng.integers(1, 4)) for _ in range(nops)]
        if rng.random() < 0.5:
            outs = [outs[0]] * nops
        ops = [linop.MatrixOperator(jnp.asarray(common.dyadic(rng, (m, n)), dtype=np.float64)) for m in outs]
        co = bool(rng.random() < 0.7)
        ci = co if rng.random() < 0.5 else (not co)
        r = model.raw({"op": "collapse", "shapes": [[m] for m in outs], "allow": co})
        want = r["ok"]["shape"]
        ctx.case({"vstack": outs, "collapse": co}, ("vstack", tuple(outs), co))
        # (an exception of the stack under test is a disagreement, never an infrastructure failure)
        try:
            V = linop.VerticalStack(ops, collapse_output=co)
            y = V(jnp.ones((n,), dtype=np.float64))
            got = [_tolist(V.output_shape), _tolist(y.shape)]
        except Exception as ex:  # noqa: BLE001
            got = ["raised " + type(ex).__name__ + ": " + str(ex)[:120]]
        if got != [want, want]:
            ctx.disagree("shape.vertical_stack", {"outs": outs, "collapse": co}, got, [want, want],
                         oracle=lambda c, got=got, want=want: {"operand_output_shapes": [[m] for m in outs], "collapse_output": co,
                                                              "declared_and_returned": got, "documented": want})
            return
        ri = model.raw({"op": "collapse", "shapes": [[n]] * nops, "allow": ci})["ok"]["shape"]
        try:
            D = linop.DiagonalStack(ops, collapse_input=ci, collapse_output=co)
            x = snp_stack(D.input_shape)
            yd = D(x)
            za = D.adj(snp_stack(D.output_shape))
            got = [_tolist(D.input_shape), _tolist(D.output_shape), _tolist(yd.shape), _tolist(za.shape)]
        except Exception as ex:  # noqa: BLE001
            got = ["raised " + type(ex).__name__ + ": " + str(ex)[:120]]
        if got != [ri, want, want, ri]:
            ctx.disagree("shape.diagonal_stack", {"outs": outs, "n": n, "collapse_input": ci, "collapse_output": co}, got, [ri, want, want, ri],
                         oracle=lambda c, got=got, ri=ri, want=want: {"operands": [[m, n] for m in outs], "collapse_input": ci, "collapse_output": co,
                                                                     "declared_in_out_returned_eval_adj": got, "documented": [ri, want, want, ri]})
            return


def snp_stack(shape):
    import jax.numpy as jnp
    import scico.numpy as snp

    if len(shape) and isinstance(shape[0], (tuple, list)):
        return snp.blockarray([jnp.ones(tuple(s), dtype=np.float64) for s in shape])
    return jnp.ones(tuple(shape), dtype=np.float64)


def _tolist(sh):
    if isinstance(sh, (tuple, list)):
        return [_tolist(v) for v in sh]
    return int(sh)


def _stacks_part(ctx):
    """stacks / freeze / Function.slice, join: declared shapes and dtypes, plain-vs-block output, adjoint shapes
    (implementation-only oracle, harness/opalg_stacks.py)"""
    import json

    import opalg_gen as G
    import opalg_stacks as S

    env = G.Env()
    for name, key, fail in S.cases(env, ctx.rng, ctx.thorough, parts=("stacks", "freeze")):
        ctx.case({"name": name}, ("oracle",) + tuple(map(str, key)))
        ctx.count("oracle-only:" + name.split(" ")[0].split("(")[0].split("[")[0])
        if fail:
            f = json.loads(json.dumps(fail, default=str))
            kid = fail.get("known_id")
            ctx.disagree("opalg.oracle:" + str(fail.get("what")), {"name": name, "key": [str(k) for k in key]}, f,
                         "declared metadata = observed; matrix = same construction on the operands' matrices", oracle=lambda c, f=f: f, known_id=kid)
            if kid is not None and ctx.is_known(kid):
                continue
            return


def _part2(ctx):
    """operator metadata: declared shapes / dtypes / matrix_shape of derived operators against the
    OpAlg model (exact) and against what evaluation returns; non-conforming inputs are rejected"""
    import opalg_gen as G
    import opalg_trees as T

    env = G.Env()
    orc = G.oracle(env)
    om = common.Model("OpAlg")
    try:
        n = ctx.n(160, 4000)
        dmax = ctx.n(4, 7)
        bad = 0
        # every class x {neg, T, H, conj, gram, scalar kinds} first (finite), then random trees
        table = [c for c in T.pair_table(ctx.rng) if c[1]["t"] in ("neg", "T", "H", "conj", "gram") or "R->C" in c[0] or "input_dtype" in c[0]]
        cases = []
        cdir = common.CORPUS_DIR / PROP
        if cdir.exists():
            import json as _json

            for f in sorted(cdir.glob("*.json")):
                c = _json.loads(f.read_text())
                if "e" in c:
                    cases.append(("corpus:" + f.stem, c["e"]))
        cases += [(nm, e) for nm, e in table]
        for i in range(n):
            dt_of = T.dtype_regime(ctx.rng)
            insh = T.shape(ctx.rng)
            outsh = insh if ctx.rng.random() < 0.5 else T.shape(ctx.rng)
            cases.append((f"tree{i}", T.tree(ctx.rng, int(ctx.rng.integers(2, dmax + 1)), insh, outsh, dt_of, p_bad=0.03)))
        for name, e in cases:
            impl = env.observe(e, [], None)
            key = ("meta", G.skeleton(e))
            if impl[0] == "err":
                mod = G.model_observe(om, e, [], [])
                ctx.case({"name": name, "rejected": impl[1]}, None)
                ctx.count("opalg:rejected:" + impl[1])
                if mod[0] != "err" or mod[1] != impl[1]:
                    ctx.disagree("opalg.meta:rejection", {"e": e, "name": name}, list(impl[:2]), list(mod[:2]), oracle=orc)
                    bad += 1
                continue
            info = impl[1]
            m_, n_ = info["matrix_shape"]
            xs = [T.vals(ctx.rng, (n_,), G.is_cplx(info["in_dtype"])).astype(np.complex128)]
            ys = [T.vals(ctx.rng, (m_,), G.is_cplx(info["out_dtype"])).astype(np.complex128)]
            impl = env.evaluate(impl, xs, ys)
            info, o = impl[1], impl[2]
            # probes: wrong input shape, wrong adjoint dtype, wrong adjoint shape
            bad_in = info["in_shape"] + [1] if not G.is_nested(info["in_shape"]) else info["in_shape"] + [[1]]
            bad_out = info["out_shape"] + [1] if not G.is_nested(info["out_shape"]) else info["out_shape"] + [[1]]
            bad_dt = "complex64" if info["out_dtype"] != "complex64" else "float32"
            try:
                mod = ("ok", om.call("expr", e=e, xs=[G.encs(x) for x in xs], ys=[G.encs(y) for y in ys],
                                     probe_xsh=bad_in, probe_ysh=info["out_shape"], probe_ydt=bad_dt))
            except ModelErr as ex:
                # the implementation accepts what the model rejects: a disagreement, never an infrastructure failure
                ctx.case({"name": name, "accepted-by-impl-rejected-by-model": ex.kind}, None)
                ctx.disagree("opalg.meta:constructible", {"e": e, "name": name}, "ok", "err:" + ex.kind, oracle=orc)
                bad += 1
                if bad >= 10:
                    break
                continue
            mod[1]["eval"] = [G.decs(v) for v in mod[1]["eval"]]
            mod[1]["adj"] = [G.decs(v) for v in mod[1]["adj"]]
            diffs = [d for d in G.compare(impl, mod, e, check_adj=False, check_vals=False)]
            ctx.case({"name": name, "skeleton": G.skeleton(e)[:200]}, key if G.nodes(e) > 1 else None, sample_every=300)
            ctx.count("opalg:class=" + info["cls"])
            ctx.count("opalg:dtype=" + info["in_dtype"] + ">" + info["out_dtype"])
            ctx.count("opalg:nested" if G.is_nested(info["in_shape"]) or G.is_nested(info["out_shape"]) else "opalg:plain")
            kid = None
            if not diffs:
                # non-conforming inputs
                def probe(f):
                    try:
                        f()
                        return "ok"
                    except Exception as ex:  # noqa: BLE001
                        return "err:" + common.err_kind(ex)

                got_call = probe(lambda: o(env.to_array(np.zeros(G.size(bad_in)), bad_in, info["in_dtype"])))
                want_call = mod[1]["call_arr"]
                if got_call != want_call:
                    diffs.append(("call(nonconforming shape)", got_call, want_call))
                if hasattr(o, "adj"):
                    got_adj = probe(lambda: o.adj(env.to_array(np.zeros(m_), info["out_shape"], bad_dt)))
                    want_adj = mod[1]["adj_arr"]
                    if got_adj.startswith("err") != str(want_adj).startswith("err") or (got_adj.startswith("err") and got_adj != want_adj):
                        diffs.append(("adj(wrong dtype)", got_adj, want_adj))
                        if info["cls"] == "MatrixOperator" and got_adj == "ok":
                            kid = "matrix-adj-no-checks"
                    got_adj2 = probe(lambda: o.adj(env.to_array(np.zeros(G.size(bad_out)), bad_out, info["out_dtype"])))
                    if not got_adj2.startswith("err"):
                        diffs.append(("adj(nonconforming shape)", got_adj2, "err:shape"))
                        if info["cls"] == "MatrixOperator":
                            kid = "matrix-adj-no-checks"
            elif diffs[0][0] == "adj_dt" and str(diffs[0][2]) == "err:dtype" and '"t": "mat"' in __import__("json").dumps(e):
                kid = "matrix-adj-no-checks"
            if diffs:
                d = diffs[0]
                ctx.disagree("opalg.meta:" + d[0], {"e": e, "name": name}, str(d[1])[:300], str(d[2])[:300], oracle=orc, known_id=kid)
                if kid is None or not ctx.is_known(kid):
                    bad += 1
            else:
                # the property itself on the implementation: declared versus observed
                r = orc({"e": e})
                if r:
                    decl_only = {k: v for k, v in r.items() if k in ("shape", "dtype", "matrix_shape", "evaluation_raised", "adjoint_meta") or k.startswith("view_")}
                    if decl_only:
                        ctx.disagree("opalg.meta:declared-vs-observed", {"e": e, "name": name}, decl_only, "declared = observed", oracle=orc,
                                     known_id=_classify_decl(e, decl_only, mod[1]))
                        if not (_classify_decl(e, decl_only, mod[1]) and ctx.is_known(_classify_decl(e, decl_only, mod[1]))):
                            bad += 1
            if bad >= 10:
                break
        # stacks with a Lean model: declared shapes / dtypes / plain-vs-block, rejection kinds
        import opalg_stacks as S

        S.model_tie(ctx, env, om, ctx.n(40, 1200))
        S.stackx_tie(ctx, env, om, ctx.n(30, 800))
        S.freeze_tie(ctx, env, om, ctx.n(60, 1500))
        S.drep_tie(ctx, env, om, ctx.n(50, 1200))
        # default precision (round 6): declared vs returned shapes / dtypes (all 32-bit) in a subprocess WITHOUT jax_enable_x64,
        # Python-scalar operands weakly typed, dtype arguments omitted; same accept / reject and declaration as with x64
        S.nox64_stream(ctx, env, T.pair_table(ctx.rng), ctx.n(120, 2000), ctx.n(20, 300))
    finally:
        om.close()


def _classify_decl(e, r, mod):
    """`adj-dtype-check-mixed`: the only failure is that evaluation raises the dtype error of
    LinearOperator.adj, the model predicts exactly that raise, and the tree mixes dtypes
    (real/complex or float32/float64 operands inside .T/.H/gram_op)."""
    import opalg_gen as G

    if set(r) == {"evaluation_raised"} and "Dtype error" in r["evaluation_raised"]["error"] \
            and mod.get("eval_dt") == "err:dtype" and not G.dtype_uniform(e) and G.uses_adjoint(e):
        return "adj-dtype-check-mixed"
    if set(r) == {"dtype"} and mod.get("eval_dt") == r["dtype"]["returned_dtype"] and not G.dtype_uniform(e):
        # the model computes the same (wrong) returned dtype: operands of different dtypes were combined
        return "mixed-operand-dtypes"
    return None


def generate(ctx):
    """translator: override table, dispatch ladders and derived-constructor arguments read from the working tree with `ast`
    (harness/opalg_translate.py) against the tables of the model (one `decide` obligation)"""
    import opalg_translate

    return opalg_translate.adapter_generate(ctx)


def findings(ctx, model):
    scico = common.setup_scico()
    import jax.numpy as jnp
    from scico import linop

    A = linop.MatrixOperator(jnp.arange(6, dtype=np.float64).reshape(2, 3))
    still = False
    try:
        y = A.adj(jnp.ones((2, 4), dtype=np.float64))
        still = tuple(y.shape) == (3, 4)
    except Exception:  # noqa: BLE001
        still = False
    ctx.known_finding("matrix-adj-no-checks", still)
    # (A + B).H for a real A and a real->complex B: its evaluation calls A.adj on a complex array
    A_ = linop.LinearOperator(input_shape=(2,), output_shape=(2,), eval_fn=lambda x: 2.0 * x, adj_fn=lambda y: 2.0 * y,
                              input_dtype=np.float64, output_dtype=np.float64)
    B_ = linop.LinearOperator(input_shape=(2,), output_shape=(2,), eval_fn=lambda x: 2j * x, adj_fn=lambda y: (-2j * y).real,
                              input_dtype=np.float64, output_dtype=np.complex128)
    S_ = (A_ + B_).H
    try:
        S_(jnp.ones((2,), dtype=S_.input_dtype))
        still2 = False
    except ValueError as ex:
        still2 = "Dtype error" in str(ex)
    ctx.known_finding("adj-dtype-check-mixed", still2)
    from scico.operator._stack import collapse_shapes

    try:
        sh, col = collapse_shapes((((2,), (3,)), ((2,), (3,))), True)
        still3 = bool(col)
    except ValueError:
        still3 = False
    ctx.known_finding("collapse-nested-shapes", still3)
    # sum of operators with different input dtypes: declared complex, returns real
    Dr = linop.Diagonal(jnp.ones((2,), dtype=np.float64))
    Gc = linop.LinearOperator(input_shape=(2,), output_shape=(2,), eval_fn=lambda x: 2.0 * x, adj_fn=lambda y: 2.0 * y,
                              input_dtype=np.complex128, output_dtype=np.complex128)
    S = Dr + Gc
    y = S(jnp.ones((2,), dtype=S.input_dtype))
    ctx.known_finding("mixed-operand-dtypes", np.dtype(S.output_dtype) != np.dtype(y.dtype))
    import opalg_gen as G_
    import opalg_stacks as S_

    ctx.known_finding(S_.KNOWN_NEG_INDEX, S_.neg_index_still_fails(G_.Env()))
    ctx.known_finding(S_.KNOWN_DREP_OA, S_.drep_oa_still_fails(G_.Env()))


def search(ctx, model, why):
    """after a broken generated obligation: the targeted panel (harness/opalg_panel.py) - declared versus observed shapes and
    dtypes (forward and adjoint) on expressions exercising exactly the classes / methods whose table rows differ"""
    if why is None:
        return None
    import opalg_gen as G
    import opalg_panel

    return opalg_panel.search(ctx, G.Env(), keys=("shape", "dtype", "matrix_shape", "evaluation_raised", "adjoint_meta"))


def replay(ctx, model, case):
    scico = common.setup_scico()
    oracle = _oracle_slice(scico)
    c = case.get("case", case)
    r = oracle(c)
    print("replay:", "property FAILS on implementation:" if r else "no failure at this input", r)
    if r:
        ctx.violation({"kind": "failing-input", "case": c, "failing": r}, True, "replay")
