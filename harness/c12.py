"""C12 - declared shapes and dtypes match actual behaviour; bad inputs are rejected.

Part 1: integer shape calculus (`slice_length`, `indexed_shape`, the `Slice` operator).
(Part 2 - operator metadata through the OpAlg engine - is added by harness/opalg.py.)
"""

from __future__ import annotations

import itertools

import numpy as np

import common
from common import ModelErr

PROP = "C12"
CLAIMED = True
ENGINE = "Shape"
DESIGN_REF = "DESIGN.md §5.1"
TECHNIQUE = "Lean 4 proof (induction/omega over the integer slice calculus) + exhaustive small-scope correspondence with the code"
LEVEL_TEXT = (
    "Lean theorems: the declared length of a sliced axis equals the number of positions Python indexing selects, for "
    "every axis length and every start/stop/step; every selected position is in range; rejection iff step 0. "
    "The model is tied to scico.numpy.util.slice_length / indexed_shape / linop.Slice by exhaustive comparison over a small grid."
)
LEVEL_NOTE = (
    "Trusted: Lean kernel + Mathlib (axioms propext, Classical.choice, Quot.sound); CPython slice.indices/range semantics "
    "(model checked against them on every case); correspondence is exhaustive only for n<=5..7, |bounds|<=7..9, |step|<=3."
)
PROP_MODULES = ["Scico.Props.C12"]
EXTRA_TARGETS = ["Drv.Shape"]
DRIVER = "Shape"
FILES = ["scico/numpy/util.py", "scico/linop/_func.py", "scico/operator/_operator.py", "scico/linop/_linop.py"]
RULE = (
    "slices: every (n, start, stop, step) with n<=N, start/stop in [-B,B] or None, step in [-3,3] or None "
    "(step 0 = malformed stream); a case is non-trivial when the slice selects >=1 position and is not the "
    "full forward slice; distinct by (n,start,stop,step). Slice operators: random index tuples over 1-3 axes."
)
ASSUMPTIONS = [
    "CPython's slice.indices / range and NumPy basic indexing are the reference semantics of slicing (contract)",
]


def _impl_slice_length(util, n, sl):
    try:
        return ("ok", util.slice_length(n, sl))
    except Exception as e:  # noqa: BLE001
        return ("err", common.err_kind(e))


def _oracle_slice(scico):
    """property oracle on the implementation: the Slice operator's declared output shape versus the shape
    of what it returns (and versus numpy indexing)"""
    import scico.numpy as snp
    from scico.linop import Slice

    def oracle(case):
        n, sl = case["n"], slice(case["start"], case["stop"], case["step"])
        want = np.arange(n)[sl].shape
        from scico.numpy.util import indexed_shape

        try:
            decl = tuple(indexed_shape((n,), sl))
        except Exception as e:  # noqa: BLE001
            decl = repr(e)
        if decl != want:
            return {"n": n, "slice": [case["start"], case["stop"], case["step"]], "indexed_shape": decl if isinstance(decl, str) else list(decl), "numpy_shape": list(want)}
        if n == 0:
            return None
        try:
            A = Slice(sl, (n,), input_dtype=np.float64)
        except Exception as e:  # noqa: BLE001
            return {"n": n, "slice": [case["start"], case["stop"], case["step"]], "constructor_raised": repr(e)}
        y = A(snp.arange(n, dtype=np.float64))
        if tuple(A.output_shape) != tuple(y.shape) or tuple(y.shape) != want:
            return {
                "n": n,
                "slice": [case["start"], case["stop"], case["step"]],
                "declared_output_shape": list(A.output_shape),
                "returned_shape": list(y.shape),
                "numpy_shape": list(want),
            }
        return None

    return oracle


def correspond(ctx, model):
    scico = common.setup_scico()
    from scico.numpy import util

    oracle = _oracle_slice(scico)
    N = ctx.n(5, 7)
    B = ctx.n(7, 9)
    vals = [None] + list(range(-B, B + 1))
    steps = [None, -3, -2, -1, 1, 2, 3]
    all_cases = [(n, a, b, s) for n in range(0, N + 1) for a in vals for b in vals for s in steps]
    ctx.exhaustive = True
    ctx.extra["slice_grid"] = {"n_max": N, "bound": B, "steps": [str(s) for s in steps], "cases": len(all_cases)}
    bad = []
    for n, a, b, s in all_cases:
        sl = slice(a, b, s)
        case = {"n": n, "start": a, "stop": b, "step": s}
        got = model.call("slice", n=n, start=a, stop=b, step=s)
        # reference semantics (contract check of the model's pyIndices / enumeration)
        ref_idx = list(sl.indices(n))
        ref_sel = list(range(n))[sl]
        if got["indices"] != ref_idx or got["selected"] != ref_sel:
            raise common.Infra(f"model disagrees with CPython slicing on {case}: {got} vs {ref_idx} {ref_sel}")
        impl = _impl_slice_length(util, n, sl)
        nt = None
        if len(ref_sel) > 0 and not (s in (None, 1) and len(ref_sel) == n):
            nt = (n, a, b, s)
        ctx.case(case, nt)
        ctx.count("step<0" if (s is not None and s < 0) else "step>0")
        ctx.count(f"len={len(ref_sel)}")
        if impl != ("ok", got["len"]):
            bad.append((case, list(impl), got["len"]))
    for i in sorted({len(bad) - 1, len(bad) // 2, 0} - {-1}) if bad else []:
        ctx.disagree("shape.slice_length", *bad[i], oracle=oracle)
    ctx.count("slice_length disagreements", len(bad))
    # malformed stream: zero step
    for n in range(0, 4):
        sl = slice(None, None, 0)
        try:
            model.call("slice", n=n, start=None, stop=None, step=0)
            m = "ok"
        except ModelErr as e:
            m = e.kind
        impl = _impl_slice_length(util, n, sl)
        ctx.case({"n": n, "step": 0}, None)
        ctx.count("malformed:step0")
        if not (m == "value" and impl[0] == "err"):
            ctx.disagree("shape.slice_length.reject", {"n": n, "start": None, "stop": None, "step": 0}, list(impl), m)


def findings(ctx, model):
    pass


def replay(ctx, model, case):
    scico = common.setup_scico()
    oracle = _oracle_slice(scico)
    c = case.get("case", case)
    r = oracle(c)
    print("replay:", "property FAILS on implementation:" if r else "no failure at this input", r)
    if r:
        ctx.violation({"kind": "failing-input", "case": c, "failing": r}, True, "replay")
