"""Translator of the engine ProxCalc (round 4): extracts with `ast` from the scico working tree ($SCICO_REPO)

  * the capability-flag logic (assignments to `has_eval` / `has_prox`, with the `if` / `try` / `super().__init__` structure
    around them) of every wrapper constructor of `functional/_functional.py` and every loss class of `loss.py`;
  * the call sites that forward `**kwargs` in `prox` / `conj_prox` (callee, positional argument expressions, kwargs passed?);
  * default values of constructor / method parameters and of `SquaredL2Loss`'s CG settings;
  * the public functions of `metric.py` with the reductions they call;
  * the exception classes raised by the modelled methods, in source order;
  * which classes define `prox`, which classes derive from `Loss`,

and writes `lean/Scico/Generated/ProxCalcTables.lean`: the tables as Lean data plus `decide` obligations that compare them with
what the hand-written model assumes (`Scico/Proofs/ProxCalcTables.lean`).  Nothing is imported from scico; only source text is read.
"""

from __future__ import annotations

import ast
from pathlib import Path

import common

OUT = common.LEAN_DIR / "Scico" / "Generated" / "ProxCalcTables.lean"

ATOMS = {
    "functional.has_eval": "innerEval", "functional.has_prox": "innerProx",
    "all((fi.has_eval for fi in functional_list))": "allEval", "all((fi.has_prox for fi in functional_list))": "allProx",
    "all([fi.has_eval for fi in functional_list])": "allEval", "all([fi.has_prox for fi in functional_list])": "allProx",
    "functional1.has_eval": "f1Eval", "functional2.has_eval": "f2Eval",
    "snp.isrealobj(scale)": "scaleReal", "bool(scale > 0)": "scalePos",
    "self.f is not None": "fGiven", "bool(self.f.has_eval)": "fEval", "self.f.has_prox": "fProx",
    "isinstance(self.A, linop.Identity)": "aIdentity", "isinstance(self.A, linop.LinearOperator)": "aLinear",
    "snp.all(y >= 0)": "yNonneg", "type(self).__call__ is not Loss.__call__": "callOverridden",
}


def lstr(s):
    return '"' + s.replace("\\", "\\\\").replace('"', '\\"') + '"'


def bexp(e):
    """python expression -> Lean `BExp`"""
    src = ast.unparse(e)
    if src in ATOMS:
        return f"(.atom .{ATOMS[src]})"
    if isinstance(e, ast.Constant) and e.value is True:
        return ".tt"
    if isinstance(e, ast.Constant) and e.value is False:
        return ".ff"
    if isinstance(e, ast.BoolOp):
        op = ".and" if isinstance(e.op, ast.And) else ".or"
        out = bexp(e.values[-1])
        for v in reversed(e.values[:-1]):
            out = f"({op} {bexp(v)} {out})"
        return out
    if isinstance(e, ast.UnaryOp) and isinstance(e.op, ast.Not):
        return f"(.not {bexp(e.operand)})"
    return f"(.unknown {lstr(src)})"


def flag_target(t):
    if isinstance(t, ast.Attribute) and isinstance(t.value, ast.Name) and t.value.id == "self" and t.attr in ("has_eval", "has_prox"):
        return ".hasEval" if t.attr == "has_eval" else ".hasProx"
    if isinstance(t, ast.Name) and t.id in ("has_eval", "has_prox"):  # class attribute
        return ".hasEval" if t.id == "has_eval" else ".hasProx"
    return None


def is_super_init(st):
    return (isinstance(st, ast.Expr) and isinstance(st.value, ast.Call) and isinstance(st.value.func, ast.Attribute)
            and st.value.func.attr == "__init__" and isinstance(st.value.func.value, ast.Call)
            and isinstance(st.value.func.value.func, ast.Name) and st.value.func.value.func.id == "super")


def stmts(body, cls_overrides_call, base_is_loss):
    """statements that matter for the flags -> list of Lean `Stmt` source strings"""
    out = []
    for st in body:
        if isinstance(st, (ast.Assign, ast.AnnAssign)):
            targets = st.targets if isinstance(st, ast.Assign) else [st.target]
            for t in targets:
                f = flag_target(t)
                if f and st.value is not None:
                    out.append(f"(.assign {f} {bexp(st.value)})")
        elif isinstance(st, ast.If):
            t = stmts(st.body, cls_overrides_call, base_is_loss)
            e = stmts(st.orelse, cls_overrides_call, base_is_loss)
            if t or e:
                out.append(f"(.ite {bexp(st.test)} [{', '.join(t)}] [{', '.join(e)}])")
        elif isinstance(st, ast.Try):
            b = stmts(st.body, cls_overrides_call, base_is_loss)
            only_pass = all(len(h.body) == 1 and isinstance(h.body[0], ast.Pass) for h in st.handlers)
            if b:
                out.append(f"(.tryPass [{', '.join(b)}])" if only_pass else f"(.assign .hasProx (.unknown {lstr('try with a handler that is not pass')}))")
        elif is_super_init(st) and base_is_loss:
            out.append(f"(.superLoss {'true' if cls_overrides_call else 'false'})")
    return out


def find_class(tree, name):
    for n in tree.body:
        if isinstance(n, ast.ClassDef) and n.name == name:
            return n
    return None


def find_method(cls, name):
    for n in cls.body:
        if isinstance(n, ast.FunctionDef) and n.name == name:
            return n
    return None


def flag_table(tree, cname):
    cls = find_class(tree, cname)
    if cls is None:
        return ["(.assign .hasProx (.unknown \"class not found\"))"]
    base_is_loss = any(ast.unparse(b) in ("Loss",) for b in cls.bases)
    overrides = find_method(cls, "__call__") is not None
    out = stmts(cls.body, overrides, base_is_loss)  # class attributes (has_eval = True)
    init = find_method(cls, "__init__")
    if init is not None:
        out += stmts(init.body, overrides, base_is_loss)
    elif base_is_loss:
        out.append(f"(.superLoss {'true' if overrides else 'false'})")
    return out


def call_sites(tree, wanted):
    """calls `<something>.prox(...)` / `cg(...)` inside the given `Class.method`s"""
    out = []
    for cname, mname, callee_pred in wanted:
        cls = find_class(tree, cname)
        m = find_method(cls, mname) if cls else None
        if m is None:
            continue
        for n in ast.walk(m):
            if isinstance(n, ast.Call):
                callee = ast.unparse(n.func)
                if callee_pred(callee):
                    kw = any(k.arg is None and ast.unparse(k.value) in ("kwargs", "self.prox_kwargs") for k in n.keywords)
                    out.append((f"{cname}.{mname}", callee, [ast.unparse(a) for a in n.args], kw))
    return out


def defaults_of(tree, prefix=""):
    out = []
    for n in tree.body:
        funcs = []
        if isinstance(n, ast.ClassDef):
            funcs = [(f"{n.name}.{f.name}", f) for f in n.body if isinstance(f, ast.FunctionDef)]
            if n.name == "SquaredL2Loss":
                for w in ast.walk(n):
                    if isinstance(w, (ast.Assign, ast.AnnAssign)):
                        tgt = (w.targets[0] if isinstance(w, ast.Assign) else w.target)
                        if ast.unparse(tgt) in ("default_prox_kwargs",) and isinstance(w.value, ast.Dict):
                            for k, v in zip(w.value.keys, w.value.values):
                                out.append(("SquaredL2Loss.default_prox_kwargs", str(k.value), ast.unparse(v)))
        elif isinstance(n, ast.FunctionDef) and prefix:
            funcs = [(prefix + n.name, n)]
        for qn, f in funcs:
            a = f.args
            pos = a.posonlyargs + a.args
            for p, d in zip(pos[len(pos) - len(a.defaults):], a.defaults):
                out.append((qn, p.arg, ast.unparse(d)))
            for p, d in zip(a.kwonlyargs, a.kw_defaults):
                if d is not None:
                    out.append((qn, p.arg, ast.unparse(d)))
    return out


def metric_table(tree):
    names = {n.name for n in tree.body if isinstance(n, ast.FunctionDef)}
    out = []
    for n in tree.body:
        if isinstance(n, ast.FunctionDef) and not n.name.startswith("_"):
            calls = set()
            for c in ast.walk(n):
                if isinstance(c, ast.Call):
                    s = ast.unparse(c.func)
                    if s.startswith("snp.") or s in names or s in ("max", "min", "sum", "abs"):
                        calls.add(s)
            out.append((n.name, sorted(calls)))
    return out


def raises_table(trees):
    out = []
    for tree in trees:
        for n in tree.body:
            if isinstance(n, ast.ClassDef):
                for f in n.body:
                    if isinstance(f, ast.FunctionDef):
                        rs = [ast.unparse(r.exc.func) if isinstance(r.exc, ast.Call) else ast.unparse(r.exc)
                              for r in sorted((w for w in ast.walk(f) if isinstance(w, ast.Raise) and w.exc is not None), key=lambda r: r.lineno)]
                        if rs:
                            out.append((f"{n.name}.{f.name}", rs))
    return out


def returns_table(trees, methods):
    """`Class.method` -> source of every `return` expression (source order) for the evaluation / prox methods the model transcribes"""
    out = []
    for tree in trees:
        for n in tree.body:
            if isinstance(n, ast.ClassDef):
                for f in n.body:
                    if isinstance(f, ast.FunctionDef) and f.name in methods:
                        rets = [ast.unparse(r.value) for r in sorted((w for w in ast.walk(f) if isinstance(w, ast.Return) and w.value is not None),
                                                                      key=lambda r: r.lineno)]
                        if rets:
                            out.append((f"{n.name}.{f.name}", rets))
            elif isinstance(n, ast.FunctionDef) and not n.name.startswith("_") and "metric" in methods:
                rets = [ast.unparse(r.value) for r in sorted((w for w in ast.walk(n) if isinstance(w, ast.Return) and w.value is not None), key=lambda r: r.lineno)]
                out.append(("metric." + n.name, rets))
    return out


def assigns_table(tree, cname, mname):
    """local assignments `name = expr` of one method (the formulas of SquaredL2Loss.prox / hessian)"""
    cls = find_class(tree, cname)
    m = find_method(cls, mname) if cls else None
    out = []
    if m is not None:
        for w in sorted((w for w in ast.walk(m) if isinstance(w, ast.Assign) and len(w.targets) == 1 and isinstance(w.targets[0], ast.Name)), key=lambda w: w.lineno):
            out.append((f"{cname}.{mname}", w.targets[0].id, ast.unparse(w.value)))
        for w in ast.walk(m):
            if isinstance(w, ast.keyword) and w.arg in ("eval_fn", "adj_fn"):
                out.append((f"{cname}.{mname}", w.arg, ast.unparse(w.value)))
    return out


def decorators_table(trees):
    """decorator lists of every `__call__` / `prox` / `conj_prox` / `_call_*` / `_prox_*` method of the modelled files (a decorator such
    as `jax.jit` with `self` static freezes attribute values at the first trace)"""
    out = []
    for tree in trees:
        for n in tree.body:
            if isinstance(n, ast.ClassDef):
                for f in n.body:
                    if isinstance(f, ast.FunctionDef) and (f.name in ("__call__", "prox", "conj_prox") or f.name.startswith(("_call", "_prox"))):
                        out.append((f"{n.name}.{f.name}", [ast.unparse(d) for d in f.decorator_list]))
    return out


def prox_classes(trees):
    return [n.name for tree in trees for n in tree.body if isinstance(n, ast.ClassDef) and find_method(n, "prox") is not None]


def loss_classes(tree):
    return [n.name for n in tree.body if isinstance(n, ast.ClassDef) and any(ast.unparse(b) == "Loss" for b in n.bases)]


def read_tables(repo: Path | None = None):
    repo = Path(repo or common.REPO)
    src = {k: ast.parse((repo / p).read_text()) for k, p in {
        "functional": "scico/functional/_functional.py", "loss": "scico/loss.py", "metric": "scico/metric.py", "norm": "scico/functional/_norm.py",
        "indicator": "scico/functional/_indicator.py", "tv": "scico/functional/_tvnorm.py", "proxavg": "scico/functional/_proxavg.py"}.items()}
    t = {}
    t["flags"] = {c: flag_table(src["functional"], c) for c in ("ScaledFunctional", "SeparableFunctional", "FunctionalSum", "ZeroFunctional")}
    t["flags"].update({c: flag_table(src["loss"], c) for c in ("Loss", "SquaredL2Loss", "SquaredL2AbsLoss", "SquaredL2SquaredAbsLoss", "PoissonLoss")})
    is_prox = lambda s: s.endswith(".prox")  # noqa: E731
    t["calls"] = (call_sites(src["functional"], [("Functional", "conj_prox", is_prox), ("ScaledFunctional", "prox", is_prox), ("SeparableFunctional", "prox", is_prox)])
                  + call_sites(src["loss"], [("Loss", "prox", is_prox), ("SquaredL2Loss", "prox", lambda s: s == "cg")]))
    t["defaults"] = (defaults_of(src["functional"]) + defaults_of(src["loss"]) + defaults_of(src["norm"]) + defaults_of(src["indicator"])
                     + defaults_of(src["tv"]) + defaults_of(src["proxavg"]) + defaults_of(src["metric"], "metric."))
    t["metrics"] = metric_table(src["metric"])
    t["raises"] = raises_table([src["functional"], src["loss"], src["norm"], src["proxavg"]])
    src["dist"] = ast.parse((repo / "scico/functional/_dist.py").read_text())
    t["returns"] = (returns_table([src["functional"], src["loss"], src["norm"], src["indicator"], src["dist"], src["tv"], src["proxavg"]],
                                  {"__call__", "_call_sep", "_call_nonsep", "_l2norm", "prox", "conj_prox"})
                    + returns_table([src["metric"]], {"metric"}))
    t["assigns"] = assigns_table(src["loss"], "SquaredL2Loss", "prox") + assigns_table(src["loss"], "SquaredL2Loss", "hessian")
    t["decorators"] = decorators_table([src["functional"], src["loss"], src["norm"], src["indicator"], src["dist"], src["tv"], src["proxavg"]])
    t["prox_classes"] = prox_classes([src["functional"], src["loss"]])
    t["loss_classes"] = loss_classes(src["loss"])
    return t


def render(t):
    L = []
    L.append("/- GENERATED by harness/proxcalc_translate.py from the scico sources (ast) — rewritten on every run, do not edit. -/")
    L.append("import Scico.Proofs.ProxCalcTables\n")
    L.append("namespace Scico.Generated.ProxCalcTables")
    L.append("open Scico.ProxCalc Scico.ProxCalc.Tables\n")
    names = {"ScaledFunctional": "scaledInit", "SeparableFunctional": "separableInit", "FunctionalSum": "sumInit", "ZeroFunctional": "zeroAttrs",
             "Loss": "lossInit", "SquaredL2Loss": "sqL2Init", "SquaredL2AbsLoss": "sqL2AbsInit", "SquaredL2SquaredAbsLoss": "sqL2SqAbsInit",
             "PoissonLoss": "poissonInit"}
    for c, nm in names.items():
        L.append(f"/-- flag logic of `{c}` (class attributes, then `__init__`) -/")
        L.append(f"def {nm} : List Stmt :=\n  [" + ",\n   ".join(t["flags"][c]) + "]\n")
    L.append("def calls : List CallSite :=\n  [" + ",\n   ".join(
        f"⟨{lstr(m)}, {lstr(c)}, [{', '.join(lstr(a) for a in args)}], {'true' if kw else 'false'}⟩" for m, c, args, kw in t["calls"]) + "]\n")
    L.append("def defaults : List (String × String × String) :=\n  [" + ",\n   ".join(f"({lstr(a)}, {lstr(b)}, {lstr(c)})" for a, b, c in t["defaults"]) + "]\n")
    L.append("def metrics : List (String × List String) :=\n  [" + ",\n   ".join(f"({lstr(a)}, [{', '.join(lstr(x) for x in b)}])" for a, b in t["metrics"]) + "]\n")
    L.append("def raises : List (String × List String) :=\n  [" + ",\n   ".join(f"({lstr(a)}, [{', '.join(lstr(x) for x in b)}])" for a, b in t["raises"]) + "]\n")
    L.append("def returns : List (String × List String) :=\n  [" + ",\n   ".join(f"({lstr(a)}, [{', '.join(lstr(x) for x in b)}])" for a, b in t["returns"]) + "]\n")
    L.append("def assigns : List (String × String × String) :=\n  [" + ",\n   ".join(f"({lstr(a)}, {lstr(b)}, {lstr(c)})" for a, b, c in t["assigns"]) + "]\n")
    L.append("def decorators : List (String × List String) :=\n  [" + ",\n   ".join(f"({lstr(a)}, [{', '.join(lstr(x) for x in b)}])" for a, b in t["decorators"]) + "]\n")
    L.append("def proxClasses : List String := [" + ", ".join(lstr(x) for x in t["prox_classes"]) + "]")
    L.append("def lossClasses : List String := [" + ", ".join(lstr(x) for x in t["loss_classes"]) + "]\n")
    L.append("""/-- the constructors compute the flags the model assumes, on every valuation of the conditions they test -/
theorem scaled_flags_ok : checkFlags lossInit scaledInit [.innerEval, .innerProx, .scaleReal, .scalePos, .tracer] expectScaled = true := by decide
theorem separable_flags_ok : checkFlags lossInit separableInit [.allEval, .allProx] expectSep = true := by decide
theorem sum_flags_ok : checkFlags lossInit sumInit [.f1Eval, .f2Eval] expectSum = true := by decide
theorem zero_flags_ok : checkFlags lossInit zeroAttrs [] (fun _ => some (some true, some true)) = true := by decide
theorem loss_flags_ok : checkFlags lossInit lossInit [.fGiven, .fEval, .fProx, .aIdentity, .aLinear, .callOverridden] expectLoss = true := by decide
theorem sqL2_flags_ok : checkFlags lossInit sqL2Init [.aIdentity, .aLinear, .yNonneg] (expectCls .sqL2) = true := by decide
theorem sqL2Abs_flags_ok : checkFlags lossInit sqL2AbsInit [.aIdentity, .aLinear, .yNonneg] (expectCls .sqL2Abs) = true := by decide
theorem sqL2SqAbs_flags_ok : checkFlags lossInit sqL2SqAbsInit [.aIdentity, .aLinear, .yNonneg] (expectCls .sqL2SqAbs) = true := by decide
theorem poisson_flags_ok : checkFlags lossInit poissonInit [.aIdentity, .aLinear, .yNonneg] (expectCls .poisson) = true := by decide

/-- the `prox` forwarding sites are the modelled ones: same callee, same argument expressions, `**kwargs` passed on -/
theorem calls_ok : calls = expectedCalls := by decide

/-- defaults assumed by model and harness are the defaults of the source -/
theorem defaults_ok : subsetOf expectedDefaults defaults = true := by decide

/-- the metric functions and the reductions they are built from -/
theorem metrics_ok : metrics = expectedMetrics := by decide

/-- the modelled argument checks raise the modelled exception classes -/
theorem raises_ok : subsetOf expectedRaises raises = true := by decide

/-- the formulas the model transcribes are the formulas of the source: `return` expressions of every evaluation / prox method
    of the modelled classes and of the metrics, and the local formulas of `SquaredL2Loss.prox` / `hessian` -/
theorem returns_ok : subsetOf expectedReturns returns = true := by decide +kernel
theorem assigns_ok : subsetOf expectedAssigns assigns = true := by decide +kernel

/-- the evaluation / prox methods carry exactly the pinned decorators (none, except the static / jitted leaf proxes): a new
    decorator (e.g. `jax.jit` with `self` static, which freezes attribute values) breaks this obligation -/
theorem decorators_ok : decorators = expectedDecorators := by decide +kernel

/-- no other class of `_functional.py` / `loss.py` defines its own `prox`; the loss classes are the modelled ones -/
theorem classes_ok : proxClasses = expectedProxClasses ∧ lossClasses = expectedLossClasses := by decide
""")
    L.append("end Scico.Generated.ProxCalcTables")
    return "\n".join(L) + "\n"


def _lean_str(s):
    return s.replace('\\"', '"').replace("\\\\", "\\")


def expected_tables():
    """the expected tables of Proofs/ProxCalcTables.lean, parsed back (one entry per line) - used to name the rows that differ"""
    import re

    src = (common.LEAN_DIR / "Scico" / "Proofs" / "ProxCalcTables.lean").read_text()
    out = {}
    for name in ("expectedReturns", "expectedMetrics", "expectedRaises"):
        blk = src[src.index(f"def {name} "):]
        blk = blk[: blk.index("\n\n")]
        out[name] = {m.group(1): [_lean_str(x) for x in re.findall(r'"((?:[^"\\]|\\.)*)"', m.group(2))]
                     for m in re.finditer(r'\("((?:[^"\\]|\\.)*)", \[((?:"(?:[^"\\]|\\.)*"(?:, )?)*)\]\)', blk)}
    for name in ("expectedAssigns", "expectedDefaults"):
        blk = src[src.index(f"def {name} "):]
        blk = blk[: blk.index("\n\n")]
        out[name] = {(_lean_str(a), _lean_str(b), _lean_str(c)) for a, b, c in re.findall(r'\("((?:[^"\\]|\\.)*)", "((?:[^"\\]|\\.)*)", "((?:[^"\\]|\\.)*)"\)', blk)}
    blk = src[src.index("def expectedCalls "):]
    blk = blk[: blk.index("\n\n")]
    out["expectedCalls"] = [(m.group(1), m.group(2), [_lean_str(x) for x in re.findall(r'"((?:[^"\\]|\\.)*)"', m.group(3))], m.group(4) == "true")
                            for m in re.finditer(r'⟨"([^"]*)", "([^"]*)", \[(.*?)\], (true|false)⟩', blk)]
    return out


def differing_rows(repo: Path | None = None):
    """names (`Class.method`, `metric.f`) of the table rows of the working tree that differ from what the model pins;
    empty list = only the flag logic / class lists can differ"""
    t = read_tables(repo)
    e = expected_tables()
    rows = set()
    got = dict(t["returns"])
    for k, v in e["expectedReturns"].items():
        if got.get(k) != v:
            rows.add(k)
    gotm = dict(t["metrics"])
    for k, v in e["expectedMetrics"].items():
        if gotm.get(k) != v:
            rows.add("metric." + k)
    gotr = dict(t["raises"])
    for k, v in e["expectedRaises"].items():
        if gotr.get(k) != v:
            rows.add(k)
    for a in e["expectedAssigns"] - set(t["assigns"]):
        rows.add(a[0])
    for a in e["expectedDefaults"] - set(t["defaults"]):
        rows.add(a[0])
    import re as _re

    srcl = (common.LEAN_DIR / "Scico" / "Proofs" / "ProxCalcTables.lean").read_text()
    blk = srcl[srcl.index("def expectedDecorators "):]
    blk = blk[: blk.index("\n\n")]
    expd = {m.group(1): _re.findall(r'"((?:[^"\\]|\\.)*)"', m.group(2))
            for m in _re.finditer(r'\("((?:[^"\\]|\\.)*)", \[((?:"(?:[^"\\]|\\.)*"(?:, )?)*)\]\)', blk)}
    gotd = dict(t["decorators"])
    for k in set(expd) | set(gotd):
        if expd.get(k) != gotd.get(k):
            rows.add(k)
    gc = [(m, c, a, k) for m, c, a, k in t["calls"]]
    for c in e["expectedCalls"]:
        if c not in gc:
            rows.add(c[0])
    return sorted(rows)


def generate(repo: Path | None = None):
    tabs = read_tables(repo)
    txt = render(tabs)
    OUT.parent.mkdir(parents=True, exist_ok=True)
    if not OUT.exists() or OUT.read_text() != txt:
        OUT.write_text(txt)
    return tabs


if __name__ == "__main__":
    import json

    print(json.dumps(generate(), indent=1)[:3000])
