"""Configuration grid over every built-in linear-operator class of scico (tiny sizes).

Public, stable interface (used by C04, importable by other adapters, e.g. C01 / C06):

    iter_configs(rng, thorough, classes=None, per_class=None, on_error="skip")
        yields (class_name, config_dict, constructed_operator)
        * thorough=True  -> the whole grid of every class
        * thorough=False -> a seeded sample (`per_class` configs per class, default QUICK_PER_CLASS)
        * on_error: "skip" (default) drops configurations whose constructor raises,
                    "yield" yields (class_name, config, exception) for them, "raise" re-raises.
    grid(class_name, rng)         -> list of config dicts (the full grid of one class)
    build(class_name, config)     -> constructed operator (reconstructs from the JSON-able config alone)
    dense(op)                     -> dense numpy matrix of the operator w.r.t. row-major flattening of
                                     input/output (BlockArrays: concatenation of the flattened blocks)
    flat(y), unflat(v, shape, dtype)   -> helpers for (block) arrays
    CLASSES                       -> list of class names

`config_dict` is JSON-able and self-contained: shapes are lists, dtypes are strings, arrays are stored
with `enc()` ({"shape": [...], "re": [...], "im": [...]|None}) and read back with `dec()`.
Random data (filters, diagonals, matrices) are dyadic rationals drawn from `rng` when the grid is
enumerated and stored in the config, so an operator is reproducible from its config alone.

All operators are constructed with explicit dtypes (float64 / complex128 unless the class fixes its
dtype).  Call `common.setup_scico()` before using this module's functions.
"""

from __future__ import annotations

import itertools
import math

import numpy as np

QUICK_PER_CLASS = 10

# --------------------------------------------------------------------------
# encoding helpers


def enc(a):
    a = np.asarray(a)
    if np.iscomplexobj(a):
        return {"shape": list(a.shape), "re": a.real.ravel().tolist(), "im": a.imag.ravel().tolist()}
    return {"shape": list(a.shape), "re": a.astype(np.float64).ravel().tolist(), "im": None}


def dec(d, dtype=None):
    re = np.asarray(d["re"], dtype=np.float64).reshape(d["shape"])
    if d.get("im") is not None:
        a = re + 1j * np.asarray(d["im"], dtype=np.float64).reshape(d["shape"])
    else:
        a = re
    if dtype is not None:
        a = a.astype(dtype)
    return a


def _dy(rng, shape, cplx=False, bits=3, scale=2.0):
    q = 1 << bits
    k = rng.integers(-int(scale * q), int(scale * q) + 1, size=shape)
    a = np.asarray(k, dtype=np.float64) / q
    if cplx:
        k2 = rng.integers(-int(scale * q), int(scale * q) + 1, size=shape)
        a = a + 1j * np.asarray(k2, dtype=np.float64) / q
    return a


def _subsets(n, nonempty=True):
    out = []
    for r in range(1 if nonempty else 0, n + 1):
        out += [list(c) for c in itertools.combinations(range(n), r)]
    return out


def _tl(x):
    """lists -> tuples (recursively)"""
    if isinstance(x, list):
        return tuple(_tl(v) for v in x)
    return x


def _idx_enc(idx):
    """index expression -> JSON-able"""
    if not isinstance(idx, tuple):
        idx = (idx,)
    out = []
    for i in idx:
        if isinstance(i, slice):
            out.append({"s": [i.start, i.stop, i.step]})
        elif i is Ellipsis:
            out.append("...")
        elif i is None:
            out.append("newaxis")
        else:
            out.append(int(i))
    return out


def _idx_dec(enc_idx):
    out = []
    for i in enc_idx:
        if isinstance(i, dict):
            out.append(slice(*i["s"]))
        elif i == "...":
            out.append(Ellipsis)
        elif i == "newaxis":
            out.append(None)
        else:
            out.append(int(i))
    return tuple(out)


# --------------------------------------------------------------------------
# (block) array helpers


def flat(y):
    """row-major flattening; BlockArray -> concatenation of flattened blocks"""
    import scico.numpy as snp

    if isinstance(y, snp.BlockArray):
        return np.concatenate([np.asarray(b).ravel() for b in y])
    return np.asarray(y).ravel()


def _is_nested(shape):
    return len(shape) > 0 and isinstance(shape[0], (tuple, list))


def unflat(v, shape, dtype):
    """inverse of flat for a given (possibly nested) shape"""
    import jax.numpy as jnp

    import scico.numpy as snp

    v = np.asarray(v, dtype=dtype)
    if _is_nested(shape):
        blocks, o = [], 0
        for s in shape:
            n = int(np.prod(s, dtype=int))
            blocks.append(jnp.asarray(v[o : o + n].reshape(s)))
            o += n
        return snp.blockarray(blocks)
    return jnp.asarray(v.reshape(shape))


def size_of(shape):
    if _is_nested(shape):
        return sum(int(np.prod(s, dtype=int)) for s in shape)
    return int(np.prod(shape, dtype=int))


def dense(op, fn=None, dtype=None):
    """dense matrix (output_size x input_size) of `op` (or of `fn`, a map on op's input space) by
    applying it to every standard basis vector of the row-major-flattened input; `dtype` overrides the
    dtype of the basis vectors (default: the operator's declared input dtype)"""
    n = size_of(op.input_shape)
    f = op if fn is None else fn
    dt = op.input_dtype if dtype is None else dtype
    cols = []
    for j in range(n):
        e = np.zeros(n, dtype=dt)
        e[j] = 1
        cols.append(flat(f(unflat(e, op.input_shape, dt))))
    if not cols:
        return np.zeros((size_of(op.output_shape), 0))
    return np.stack(cols, axis=1)


# --------------------------------------------------------------------------
# grids, one per class.  Each returns a list of JSON-able config dicts.

FD_BOUNDARY = [(p, a, False) for p in (None, 0, 1) for a in (None, 0, 1)] + [(None, None, True)]
SHAPES_ND = [[2], [5], [1, 3], [3, 1], [2, 3], [4, 3], [2, 1, 3], [2, 3, 2]]


def g_SingleAxisFiniteDifference(rng):
    out = []
    for shape in [[1], *SHAPES_ND]:
        nd = len(shape)
        for axis in list(range(nd)) + [-1]:
            for p, a, c in FD_BOUNDARY:
                n = shape[axis]
                if n + (p is not None) + (a is not None) - 1 <= 0 and not c:
                    continue  # empty output axis
                out.append({"shape": shape, "axis": axis, "prepend": p, "append": a, "circular": c, "dtype": "float64"})
    out.append({"shape": [3, 2], "axis": 0, "prepend": 1, "append": 0, "circular": False, "dtype": "complex128"})
    out.append({"shape": [4], "axis": 0, "prepend": None, "append": None, "circular": True, "dtype": "float32"})
    return out


def g_FiniteDifference(rng):
    out = []
    for shape in SHAPES_ND:
        nd = len(shape)
        axes_opts = [None] + _subsets(nd)
        if nd >= 2:
            axes_opts += [[1, 0], -1, 0, [0, -1], [-1, 0], [-nd, -1]]  # negative and mixed-sign axes (normalize_axes)
        else:
            axes_opts += [0, [-1]]
        for axes in axes_opts:
            for p, a, c in FD_BOUNDARY:
                ax = list(range(nd)) if axes is None else ([axes % nd] if isinstance(axes, int) else [a_ % nd for a_ in axes])
                if not c and any(shape[i] + (p is not None) + (a is not None) - 1 <= 0 for i in ax):
                    continue
                out.append({"shape": shape, "axes": axes, "prepend": p, "append": a, "circular": c, "dtype": "float64"})
    out.append({"shape": [2, 3], "axes": None, "prepend": 0, "append": 1, "circular": False, "dtype": "complex128"})
    return out


def g_DFT(rng):
    out = []
    for shape in [[4], [5], [1], [2, 3], [3, 2], [4, 1], [2, 3, 2]]:
        nd = len(shape)
        for axes in [None] + _subsets(nd) + ([[1, 0]] if nd == 2 else []):
            ax = list(range(nd)) if axes is None else axes
            as_opts = [None, [shape[i] for i in ax], [shape[i] + 2 for i in ax], [max(1, shape[i] - 1) for i in ax]]
            if len(ax) >= 2:
                as_opts.append([shape[ax[0]] + 1] + [max(1, shape[i] - 1) for i in ax[1:]])
            for axes_shape in as_opts:
                for norm in (None, "ortho", "forward", "backward"):
                    out.append({"shape": shape, "axes": axes, "axes_shape": axes_shape, "norm": norm})
        if nd >= 2:
            # axes None with a shorter axes_shape: trailing axes
            for norm in (None, "ortho"):
                out.append({"shape": shape, "axes": None, "axes_shape": [shape[-1] + 1], "norm": norm})
            # negative axes (Python indexing of input_shape / output_shape in the constructor)
            for axes, ash in [([-1], None), ([-1], [shape[-1] + 2]), ([0, -1], [shape[0], shape[-1] + 1]), ([-2], [max(1, shape[-2] - 1)])]:
                out.append({"shape": shape, "axes": axes, "axes_shape": ash, "norm": "ortho"})
    return out


def g_CircularConvolve(rng):
    out = []

    def add(xshape, hshape, ndims, center, xd="float64", hc=False, h_is_dft=False):
        h = _dy(rng, hshape, cplx=hc)
        out.append(
            {"route": "init", "shape": xshape, "h": enc(h), "ndims": ndims, "h_center": center, "dtype": xd, "h_is_dft": h_is_dft}
        )

    # 1-d
    for n, k in [(4, 2), (5, 3), (5, 5), (1, 1), (3, 1), (4, 3)]:
        for center in [None, 0, 1, k - 1, [1], 0.5, 1.25, [-0.75]]:
            add([n], [k], None, center)
    # 2-d full
    for xs, hs in [([3, 4], [2, 2]), ([4, 3], [3, 1]), ([2, 5], [2, 3]), ([3, 3], [3, 3]), ([1, 4], [1, 2])]:
        for center in [None, [0, 0], [1, 0], [1, 1], [0.5, 0], [0.5, 1.5], [-1, 0.25]]:
            add(xs, hs, None, center)
            add(xs, hs, 2, center)
    # batch axes in x only (block diagonal of the same H'), ndims < len(input_shape)
    for xs, hs, nd in [([2, 4], [3], 1), ([3, 2, 3], [2, 2], 2), ([2, 2, 3], [2], 1), ([2, 5], [1, 3], 1)]:
        for center in [None, [1] * nd, [0.5] * nd]:
            add(xs, hs, nd, center)
    # multiple filters, singleton / missing input axis (block column)
    for xs, hs, nd in [([4], [3, 2], 1), ([1, 4], [2, 3], 1), ([3, 3], [2, 2, 2], 2), ([1, 2, 3], [2, 2, 2], 2)]:
        for center in [None, [1] * nd, [0.5] * nd]:
            add(xs, hs, nd, center)
    # multiple filters, matching input axis (block diagonal H_m)
    for xs, hs, nd in [([2, 4], [2, 3], 1), ([3, 3], [3, 2], 1), ([2, 3, 3], [2, 2, 2], 2)]:
        for center in [None, [1] * nd, [0.25] * nd]:
            add(xs, hs, nd, center)
    # dtypes: complex filter x real input (complex output), real filter x complex input, both complex
    for xs, hs, nd, center in [([4], [3], None, None), ([5], [2], None, [1]), ([3, 4], [2, 2], None, [1, 0]), ([2, 4], [3], 1, None),
                               ([4], [2, 3], 1, [1]), ([2, 4], [2, 3], 1, [0.5]), ([3, 3], [2, 2], 2, [0.5, 1.0])]:
        add(xs, hs, nd, center, xd="float64", hc=True)
        add(xs, hs, nd, center, xd="complex128", hc=False)
    for i in (-14, -13, -12, -2):
        out[i]["must"] = True
    add([4], [3], None, [1], xd="complex128")
    add([4], [3], None, [0.5], xd="float64", hc=True)
    add([3, 4], [2, 2], None, [0, 1], xd="complex128", hc=True)
    add([3, 4], [3, 2], 1, None, xd="float64", hc=True)
    add([4], [3], None, None, xd="float32")
    # complex data with a FRACTIONAL centre on an even-length axis (the Nyquist bin carries cos(k pi), not exp)
    add([4], [2], None, [0.5], xd="complex128")
    out[-1]["must"] = True
    add([2, 4], [2, 2], None, [0.5, 1.25], xd="float64", hc=True)
    out[-1]["must"] = True
    add([6], [3], None, [-0.75], xd="complex128", hc=True)
    # filter longer than the axis: fftn(h, s=n) crops it
    add([3], [5], None, None)
    add([3], [5], None, [1])
    add([2, 3], [3, 4], None, [0, 1])
    add([4], [6], None, [0.5])
    # negative integer centres
    add([5], [3], None, [-2])
    add([3, 4], [2, 2], None, [-1, 1])
    # h given in the DFT domain
    for xs, nd in [([4], None), ([3, 4], None), ([2, 5], 1), ([5], 1)]:
        hshape = xs if nd is None else xs[-nd:]
        h = np.fft.fftn(_dy(rng, hshape))
        out.append({"route": "init", "shape": xs, "h": enc(h), "ndims": nd, "h_center": None, "dtype": "complex128", "h_is_dft": True})
        out.append({"route": "init", "shape": xs, "h": enc(h), "ndims": nd, "h_center": None, "dtype": "float64", "h_is_dft": True})
    # from_operator of a shift-invariant operator
    for xs, hs, nd in [([5], [3], None), ([4], [2], None), ([3, 4], [2, 2], None), ([2, 4], [3], 1), ([4, 4], [3, 2], 2)]:
        h = _dy(rng, hs)
        for center in [None, [0] * len(hs), [1] * len(hs)]:
            out.append({"route": "from_operator", "inner": "circ", "shape": xs, "h": enc(h), "ndims": nd, "center": center, "dtype": "float64"})
    for xs, ax in [([5], 0), ([3, 4], 1), ([3, 4], 0)]:
        for center in [None, [0] * len(xs)]:
            out.append({"route": "from_operator", "inner": "fd_circular", "shape": xs, "axis": ax, "ndims": None, "center": center, "dtype": "float64"})
    return out


def g_Convolve(rng, which="Convolve"):
    out = []
    pairs = [
        ([4], [2]), ([5], [3]), ([3], [3]), ([2], [4]), ([1], [3]), ([4], [1]),
        ([3, 4], [2, 2]), ([3, 3], [1, 3]), ([2, 3], [3, 4]), ([4, 2], [2, 2]), ([3, 4], [3, 2]), ([2, 2, 3], [2, 1, 2]),
    ]
    for xs, hs in pairs:
        for mode in ("full", "valid", "same"):
            if mode == "valid":
                ge = all(a >= b for a, b in zip(xs, hs))
                le = all(a <= b for a, b in zip(xs, hs))
                if not (ge or le):
                    continue
            out.append({"route": "init", "shape": xs, "h": enc(_dy(rng, hs)), "mode": mode, "dtype": "float64"})
    out.append({"route": "init", "shape": [4], "h": enc(_dy(rng, [3], cplx=True)), "mode": "same", "dtype": "float64", "must": True})
    for xs, hs in [([5], [2]), ([3, 4], [2, 2]), ([2], [4])]:
        for mode in ("full", "valid", "same"):
            out.append({"route": "init", "shape": xs, "h": enc(_dy(rng, hs, cplx=True)), "mode": mode, "dtype": "float64"})
            out.append({"route": "init", "shape": xs, "h": enc(_dy(rng, hs)), "mode": mode, "dtype": "complex128"})
    out[-1]["must"] = True
    out[-2]["must"] = True
    out.append({"route": "init", "shape": [3, 3], "h": enc(_dy(rng, [2, 2], cplx=True)), "mode": "full", "dtype": "complex128"})
    out.append({"route": "init", "shape": [4], "h": enc(_dy(rng, [2])), "mode": "valid", "dtype": "float32"})
    for xs, hs in [([4], [2]), ([3, 4], [2, 2])]:
        for mode in ("full", "valid", "same"):
            out.append({"route": "biconvolve_freeze", "shape": xs, "h": enc(_dy(rng, hs)), "mode": mode, "dtype": "float64"})
    return out


def g_ConvolveByX(rng):
    return g_Convolve(rng, "ConvolveByX")


def _pad_widths(nd):
    opts = [0, 1, 2, [1, 2], [0, 3]]
    opts.append([[1, 0]] * nd)
    opts.append([[i % 2, (i + 1) % 3] for i in range(nd)])
    opts.append([[2, 1]] + [[0, 0]] * (nd - 1))
    return opts


def g_Pad(rng):
    out = []
    for shape in [[1], [3], [2, 3], [3, 1], [2, 2, 3]]:
        for pw in _pad_widths(len(shape)):
            out.append({"shape": shape, "pad_width": pw, "mode": "constant", "dtype": "float64"})
        for mode in ("edge", "wrap", "reflect", "symmetric", "mean"):
            if mode == "reflect" and min(shape) < 2:
                continue
            out.append({"shape": shape, "pad_width": 1, "mode": mode, "dtype": "float64"})
            out.append({"shape": shape, "pad_width": [[1, 0]] * len(shape), "mode": mode, "dtype": "float64"})
            # pad widths larger than the axis (several reflections / periods)
            out.append({"shape": shape, "pad_width": [[2 * shape[0] + 1, 3]] + [[0, 2]] * (len(shape) - 1), "mode": mode, "dtype": "float64"})
    out.append({"shape": [2, 3], "pad_width": [[1, 2], [0, 1]], "mode": "constant", "dtype": "complex128"})
    return out


def g_Crop(rng):
    out = []
    for shape in [[3], [5], [4, 5], [5, 3], [3, 4, 5]]:
        for cw in _pad_widths(len(shape)):
            # total crop must leave every axis non-empty
            w = np.asarray(np.broadcast_to(np.asarray(cw if not isinstance(cw, int) else [[cw, cw]]), (len(shape), 2)))
            if np.all(np.asarray(shape) - w.sum(1) >= 1):
                out.append({"shape": shape, "crop_width": cw, "dtype": "float64"})
    out.append({"shape": [4, 5], "crop_width": [[1, 2], [0, 1]], "dtype": "complex128"})
    return out


def g_Reshape(rng):
    out = []
    for shape, targets in [
        ([6], [[2, 3], [3, 2], [6, 1], [1, 2, 3], [-1, 2]]),
        ([2, 3], [[6], [3, 2], [-1], [1, 6], [2, 3, 1], [3, -1]]),
        ([2, 3, 4], [[6, 4], [2, 12], [4, 3, 2], [24], [-1, 3]]),
        ([1, 5], [[5], [5, 1]]),
    ]:
        for t in targets:
            out.append({"shape": shape, "newshape": t, "dtype": "float64"})
    out.append({"shape": [2, 3], "newshape": [3, 2], "dtype": "complex128"})
    return out


def g_Transpose(rng):
    out = []
    for shape in [[3], [2, 3], [3, 1], [2, 3, 4], [1, 2, 3], [2, 1, 2, 3]]:
        nd = len(shape)
        perms = list(itertools.permutations(range(nd)))
        for p in perms if nd <= 3 else perms[::5]:
            out.append({"shape": shape, "axes": list(p), "dtype": "float64"})
        out.append({"shape": shape, "axes": None, "dtype": "float64"})
    out.append({"shape": [2, 3], "axes": [1, 0], "dtype": "complex128"})
    return out


def g_Sum(rng):
    out = []
    for shape in [[4], [2, 3], [3, 1], [2, 3, 4]]:
        nd = len(shape)
        for axis in [None] + list(range(nd)) + [-1] + [s for s in _subsets(nd) if len(s) >= 2]:
            for keepdims in (False, True):
                out.append({"shape": shape, "axis": axis, "keepdims": keepdims, "dtype": "float64"})
    out.append({"shape": [2, 3], "axis": 0, "keepdims": False, "dtype": "complex128"})
    # nested (BlockArray) input shapes: with an axis every block is reduced on its own, without one everything is summed;
    # the axis is passed by keyword and POSITIONALLY (linop.Sum forwards positional arguments to snp.sum)
    for blocks in ([[2, 3], [4, 3]], [[3, 2], [3, 2]], [[2, 2, 3], [1, 2, 3]]):
        for axis in (0, 1, -1, None):
            for positional in (False, True):
                if axis is None and positional:
                    continue
                out.append({"blocks": blocks, "axis": axis, "positional": positional, "keepdims": False, "dtype": "float64",
                            "must": blocks == [[2, 3], [4, 3]] and positional and axis in (0, 1)})
    return out


def g_Slice(rng):
    s = slice
    out = []
    one_d = [s(None), s(1, None), s(None, -1), s(None, None, 2), s(None, None, -1), s(-2, None), s(1, 4, 2), s(4, 0, -2), s(None, None, -2), s(0, 1), 0, -1, 2]
    for n in (3, 5):
        for i in one_d:
            if isinstance(i, int) and not (-n <= i < n):
                continue
            if len(range(n)[i]) == 0 if isinstance(i, slice) else False:
                continue
            out.append({"shape": [n], "idx": _idx_enc(i), "dtype": "float64"})
    two_d = [
        (s(None), s(1, None)), (s(1, None), s(None)), (0,), (s(None), 0), (1, s(None, None, -1)), (Ellipsis, 1), (Ellipsis, s(None, None, 2)),
        (s(None, None, -1), s(None, None, -1)), (s(0, 1), s(0, 1)), (1, 2), (s(-1, None), Ellipsis), (s(None, None, 2), s(1, 3)),
    ]
    for shape in ([3, 4], [2, 3]):
        for idx in two_d:
            out.append({"shape": shape, "idx": _idx_enc(idx), "dtype": "float64"})
    three_d = [(0,), (Ellipsis, 0), (s(None), 1, s(None)), (s(1, None), Ellipsis, s(None, None, -1)), (1, s(None), 2), (s(None, None, -1), s(0, 2), s(None, None, 2))]
    for idx in three_d:
        out.append({"shape": [2, 3, 4], "idx": _idx_enc(idx), "dtype": "float64"})
    out.append({"shape": [3, 4], "idx": _idx_enc((s(None, None, -1), 1)), "dtype": "complex128"})
    # np.newaxis, alone and combined with Ellipsis / integer / slice entries (indexed_shape offsets)
    newax = [
        ([3], (None,)), ([3], (None, s(1, None))), ([3], (s(None, None, -1), None)),
        ([3, 4], (None, Ellipsis, s(1, None))), ([3, 4], (Ellipsis, None, s(1, 3))), ([3, 4], (0, None, Ellipsis)),
        ([3, 4], (s(1, None), None, Ellipsis, 0)), ([3, 4], (None, None, 1)), ([3, 4], (Ellipsis, None)),
        ([2, 3, 4], (None, Ellipsis, s(None, None, 2))), ([2, 3, 4], (1, None, Ellipsis, None, s(0, 2))), ([2, 3, 4], (s(None), None, 1)),
    ]
    for k, (shape, idx) in enumerate(newax):
        c = {"shape": shape, "idx": _idx_enc(idx), "dtype": "float64"}
        if k in (3, 6):
            c["must"] = True
        out.append(c)
    return out


def g_Identity(rng):
    return [{"shape": sh, "dtype": dt} for sh in ([3], [2, 3], [1, 2, 2]) for dt in ("float64", "complex128")]


def g_ScaledIdentity(rng):
    out = []
    for sh in ([3], [2, 3]):
        for sc, dt in [(2.5, "float64"), (-0.5, "float64"), (0.0, "float64"), (1.5, "complex128"), ([0.5, -2.0], "complex128")]:
            out.append({"shape": sh, "scalar": sc, "dtype": dt})
    return out


def g_Diagonal(rng):
    out = []
    for dsh, ish in [([3], None), ([2, 3], None), ([3], [2, 3]), ([2, 1], [2, 3]), ([1, 3], [2, 3]), ([2, 1, 2], [2, 3, 2])]:
        for cplx in (False, True):
            out.append({"diagonal": enc(_dy(rng, dsh, cplx=cplx)), "input_shape": ish, "dtype": "complex128" if cplx else "float64"})
    return out


def g_MatrixOperator(rng):
    out = []
    for m, n in [(2, 3), (3, 3), (4, 1), (1, 4)]:
        for cols in (0, 1, 2):
            for cplx in (False, True):
                out.append({"A": enc(_dy(rng, [m, n], cplx=cplx)), "input_cols": cols})
    return out


# leaf operators used inside stacks / compositions: (class name, config) with a given input shape
def _leaves(rng, shape, dtype="float64"):
    nd = len(shape)
    ls = [
        ("Identity", {"shape": shape, "dtype": dtype}),
        ("ScaledIdentity", {"shape": shape, "scalar": -1.5, "dtype": dtype}),
        ("Diagonal", {"diagonal": enc(_dy(rng, shape)), "input_shape": None, "dtype": dtype}),
        ("SingleAxisFiniteDifference", {"shape": shape, "axis": nd - 1, "prepend": None, "append": 0, "circular": False, "dtype": dtype}),
        ("SingleAxisFiniteDifference", {"shape": shape, "axis": 0, "prepend": None, "append": None, "circular": True, "dtype": dtype}),
        ("Sum", {"shape": shape, "axis": 0, "keepdims": False, "dtype": dtype}),
        ("Pad", {"shape": shape, "pad_width": 1, "mode": "constant", "dtype": dtype}),
        ("Transpose", {"shape": shape, "axes": None, "dtype": dtype}),
    ]
    if min(shape) >= 2:
        ls.append(("SingleAxisFiniteDifference", {"shape": shape, "axis": 0, "prepend": None, "append": None, "circular": False, "dtype": dtype}))
    return ls


def g_VerticalStack(rng):
    out = []
    for shape in ([3], [2, 3]):
        L = _leaves(rng, shape)
        n = len(L)
        combos = [(0, 1), (0, 2, 1), (3, 4), (0, 5), (6, 0), (3, 8 % n), (1, 1, 1), (7, 0), (2,)]
        for c in combos:
            for collapse in (True, False):
                out.append({"ops": [list(L[i]) for i in c], "collapse_output": collapse})
    L = _leaves(rng, [2, 2], "complex128")
    out.append({"ops": [list(L[0]), list(L[2])], "collapse_output": True})
    return out


def g_DiagonalStack(rng):
    out = []
    La, Lb = _leaves(rng, [3]), _leaves(rng, [2, 3])
    combos = [
        [La[0], La[1]], [La[0], La[2], La[4]], [La[3], La[4]], [La[0], Lb[0]], [La[5], Lb[5]], [Lb[0], Lb[3]], [Lb[6], La[6]], [Lb[2], Lb[7]], [La[1]],
        [Lb[5], Lb[5], Lb[5]],
    ]
    for ops in combos:
        for ci in (True, False):
            for co in (True, False):
                out.append({"ops": [list(o) for o in ops], "collapse_input": ci, "collapse_output": co})
    Lc = _leaves(rng, [2], "complex128")
    out.append({"ops": [list(Lc[2]), list(Lc[1])], "collapse_input": True, "collapse_output": True})
    out.append({"ops": [["MatrixOperator", {"A": enc(_dy(rng, [2, 3], cplx=True)), "input_cols": 0}], ["MatrixOperator", {"A": enc(_dy(rng, [2, 3], cplx=True)), "input_cols": 0}]],
                "collapse_input": True, "collapse_output": True})
    return out


def g_DiagonalReplicated(rng):
    out = []
    for shape in ([3], [2, 3]):
        L = _leaves(rng, shape)
        for li in (0, 2, 3, 5, 6, 7):
            name, cfg = L[li]
            ind = len(shape)
            outd = ind - 1 if name == "Sum" else ind  # number of output axes of the replicated operator
            for rep in (1, 2, 3):
                for ia in range(-1, ind + 1):
                    for oa in (None, 0):
                        if oa is None and (ia if ia >= 0 else ind + 1 + ia) > outd:
                            continue  # output replication axis would not exist
                        out.append({"op": [name, cfg], "replicates": rep, "input_axis": ia, "output_axis": oa})
    # negative output_axis with operators whose output rank differs from the input rank
    rankch = [
        ("Reshape", {"shape": [3, 4], "newshape": [2, 3, 2], "dtype": "float64"}, 3),
        ("Reshape", {"shape": [2, 3, 2], "newshape": [6, 2], "dtype": "float64"}, 2),
        ("Sum", {"shape": [2, 3], "axis": 0, "keepdims": False, "dtype": "float64"}, 1),
        ("Sum", {"shape": [2, 3, 2], "axis": [0, 2], "keepdims": False, "dtype": "float64"}, 1),
    ]
    for k, (name, cfg, outd) in enumerate(rankch):
        for oa in range(-(outd + 1), 0):
            for ia in (0, -1):
                out.append({"op": [name, cfg], "replicates": 2, "input_axis": ia, "output_axis": oa, "must": (k in (0, 2) and oa == -1 and ia == 0)})
    return out


def g_ComposedLinearOperator(rng):
    out = []
    for shape in ([3], [2, 3]):
        L = _leaves(rng, shape)
        for bi in range(len(L)):
            if not (L[bi][0] == "Sum" and len(shape) == 1):  # scalar output: no axis to difference
                out.append({"B": list(L[bi]), "A": "fd_last"})
            out.append({"B": list(L[bi]), "A": "diag"})
    return out


def _coord_arrays(rng, shape, naxes, ncoord, block):
    """random local coordinate systems: ncoord arrays each of shape (naxes, *shape) (or blocks broadcastable)"""
    cs = []
    for _ in range(ncoord):
        if block:
            blocks = []
            for m in range(naxes):
                bs = list(shape)
                if m % 2 == 1 and len(bs) > 1:
                    bs[0] = 1  # broadcastable block
                blocks.append(enc(_dy(rng, bs)))
            cs.append({"block": blocks})
        else:
            cs.append({"array": enc(_dy(rng, [naxes] + list(shape)))})
    return cs


def g_ProjectedGradient(rng):
    out = []
    for shape in ([4], [3, 4], [2, 3], [2, 3, 2]):
        nd = len(shape)
        for axes in [None] + _subsets(nd) + ([[1, 0]] if nd >= 2 else []):
            naxes = nd if axes is None else len(axes)
            for cdiff in (False, True):
                if cdiff and any(shape[a] < 2 for a in (range(nd) if axes is None else axes)):
                    continue
                out.append({"shape": shape, "axes": axes, "coord": None, "cdiff": cdiff, "dtype": "float64"})
                for ncoord in (1, 2):
                    for block in (False, True):
                        out.append({"shape": shape, "axes": axes, "coord": _coord_arrays(rng, shape, naxes, ncoord, block), "cdiff": cdiff, "dtype": "float64"})
    return out


def _flag_subsets(names):
    out = []
    for r in range(1, len(names) + 1):
        for c in itertools.combinations(names, r):
            out.append({n: (n in c) for n in names})
    return out


def g_PolarGradient(rng):
    out = []
    for shape, axes_opts in [([3, 4], [None, [0, 1], [1, 0]]), ([4, 3], [None, [1, 0]]), ([2, 3, 4], [None, [1, 2], [2, 0], [0, 2]]), ([2, 2], [None])]:
        for axes in axes_opts:
            ax = [0, 1] if axes is None else axes
            for center in (None, [0.0, 0.0], [1.0, 0.5], [-0.5, 2.0]):
                for flags in _flag_subsets(["angular", "radial"]):
                    for cdiff in (False, True):
                        out.append({"shape": shape, "axes": axes, "center": center, **flags, "cdiff": cdiff, "dtype": "float64"})
    # centres that are not multiples of 1/2: a float-valued coordinate range can have one sample too many (rounding)
    out.append({"shape": [6, 6], "axes": None, "center": [-2.21, 0.556], "angular": True, "radial": True, "cdiff": False, "dtype": "float64", "must": True})
    out.append({"shape": [1, 4], "axes": None, "center": [-1.764, 1.017], "angular": False, "radial": True, "cdiff": False, "dtype": "float64", "must": True})
    out.append({"shape": [3, 5], "axes": [1, 0], "center": [0.3, 1.7], "angular": True, "radial": True, "cdiff": True, "dtype": "float64"})
    return out


def g_CylindricalGradient(rng):
    out = []
    for shape, axes_opts in [([2, 3, 4], [None, [0, 1, 2], [2, 0, 1], [1, 0, 2]]), ([3, 2, 2], [None, [2, 1, 0]]), ([2, 2, 3, 2], [None, [1, 2, 3], [3, 0, 2]])]:
        for axes in axes_opts:
            for center in (None, [0.0, 0.0, 0.0], [1.0, 0.5, 1.0]):
                for flags in _flag_subsets(["angular", "radial", "axial"]):
                    for cdiff in (False, True):
                        out.append({"shape": shape, "axes": axes, "center": center, **flags, "cdiff": cdiff, "dtype": "float64"})
    out.append({"shape": [6, 2, 2], "axes": None, "center": [-2.21, 0.556, 0.0], "angular": True, "radial": True, "axial": True, "cdiff": False, "dtype": "float64"})
    out.append({"shape": [2, 3, 2], "axes": [2, 0, 1], "center": [0.3, 1.7, 0.45], "angular": True, "radial": True, "axial": False, "cdiff": False, "dtype": "float64"})
    return out


def g_SphericalGradient(rng):
    out = []
    for shape, axes_opts in [([2, 3, 4], [None, [0, 1, 2], [2, 0, 1], [1, 0, 2]]), ([3, 2, 2], [None, [2, 1, 0]]), ([2, 2, 3, 2], [None, [1, 2, 3], [3, 0, 2]])]:
        for axes in axes_opts:
            for center in (None, [0.0, 0.0, 0.0], [1.0, 0.5, 1.0]):
                for flags in _flag_subsets(["azimuthal", "polar", "radial"]):
                    for cdiff in (False, True):
                        out.append({"shape": shape, "axes": axes, "center": center, **flags, "cdiff": cdiff, "dtype": "float64"})
    out.append({"shape": [3, 2, 3], "axes": [2, 1, 0], "center": [2.612, -1.062, -1.258], "azimuthal": True, "polar": False, "radial": True, "cdiff": True, "dtype": "float64"})
    out.append({"shape": [2, 3, 2], "axes": None, "center": [0.3, 1.7, 0.45], "azimuthal": True, "polar": True, "radial": True, "cdiff": False, "dtype": "float64"})
    return out


def g_XRayTransform2D(rng):
    out = []
    angle_sets = [[0.0], [math.pi / 2], [0.0, math.pi / 2], [math.pi / 4], [0.3, 1.1, 2.0], [math.pi, 3 * math.pi / 2], [-0.4, 2.7, 4.0, 5.5]]
    for shape in ([3, 3], [2, 4], [4, 3], [1, 4], [5, 2]):
        diag = int(np.ceil(np.linalg.norm(shape)))
        for angles in angle_sets:
            for det in (None, diag + 2, max(shape), 2):
                for dx in (None, 1.0, [0.5, 0.7]):
                    out.append({"shape": shape, "angles": angles, "det_count": det, "dx": dx, "x0": None, "y0": None})
        out.append({"shape": shape, "angles": [0.2, 1.3], "det_count": diag + 3, "dx": [0.6, 0.6], "x0": [-1.0, -0.5], "y0": -3.25})
        out.append({"shape": shape, "angles": [0.0, math.pi / 2], "det_count": max(shape) + 1, "dx": 1.0, "x0": None, "y0": None})
    return out


def g_XRayTransform3D(rng):
    out = []
    for shape, det in [([2, 2, 2], [4, 4]), ([2, 3, 2], [5, 5]), ([3, 2, 2], [3, 3]), ([2, 2, 3], [6, 5]), ([1, 2, 2], [2, 2])]:
        for seq, angles in [("X", [[0.0]]), ("X", [[0.0], [0.5]]), ("XY", [[0.3, 0.2], [1.0, -0.7]]), ("Z", [[math.pi / 2]]), ("XYZ", [[0.1, 0.2, 0.3]])]:
            for vs, ds in [(None, None), ([1.0, 0.5, 0.75], [1.0, 2.0])]:
                out.append({"shape": shape, "det_shape": det, "seq": seq, "angles": angles, "voxel_spacing": vs, "det_spacing": ds})
    # more than MAX_SLICE_LEN = 10 slices along axis 0: the volume is projected slab by slab
    for shape, det in [([11, 2, 2], [11, 2]), ([12, 2, 1], [12, 2]), ([13, 1, 2], [14, 3]), ([21, 1, 1], [21, 1])]:
        for seq, angles in [("X", [[0.0]]), ("X", [[0.0], [0.5]]), ("Z", [[math.pi / 2]]), ("XY", [[0.3, 0.2]])]:
            out.append({"shape": shape, "det_shape": det, "seq": seq, "angles": angles, "voxel_spacing": None, "det_spacing": None})
    out[-16]["must"] = True  # (11,2,2), identity view: equals x.sum(axis=2)
    out[-11]["must"] = True  # (12,2,1), two views
    # footprints whose left edge lies exactly on a detector-bin edge (voxel spacing 1/2, detector one bin wider / narrower)
    for shape, det in [([2, 2, 2], [3, 3]), ([2, 2, 1], [3, 2]), ([4, 2, 2], [4, 3]), ([2, 4, 1], [2, 2])]:
        for seq, angles in [("X", [[0.0]]), ("Z", [[math.pi / 2]])]:
            out.append({"shape": shape, "det_shape": det, "seq": seq, "angles": angles, "voxel_spacing": [0.5, 0.5, 0.5], "det_spacing": None})
    out[-8]["must"] = True
    # HAND-WRITTEN projection matrices following the documented convention (voxel (i,j,k) has its centre projected to
    # M (i+1/2, j+1/2, k+1/2) + t; detector pixel (a,b) covers [a,a+1) x [b,b+1)) -- not built by matrices_from_euler_angles
    hand = [
        ([2, 3, 2], [2, 3], [[[1, 0, 0, 0], [0, 1, 0, 0]]]),            # identity view: x.sum(axis=2)
        ([2, 3, 4], [3, 4], [[[0, 1, 0, 0], [0, 0, 1, 0]]]),            # axis permutation: x.sum(axis=0)
        ([3, 2, 2], [2, 3], [[[0, 0, 1, 0], [1, 0, 0, 0]]]),            # (k, i): x.sum(axis=1) transposed
        ([1, 1, 1], [2, 2], [[[1, 0, 0, 0.75], [0, 1, 0, 0.1]]]),       # documented offsets, small detector
        ([2, 2, 2], [3, 3], [[[0.5, 0, 0, 1.0], [0, 0.5, 0, 1.0]], [[1, 0, 0, 0.5], [0, 0, 1, 0.25]]]),
        ([12, 2, 1], [12, 2], [[[1, 0, 0, 0], [0, 1, 0, 0]]]),          # more than one slab
    ]
    for k, (shape, det, mats) in enumerate(hand):
        out.append({"shape": shape, "det_shape": det, "matrices": mats, "must": k in (0, 1, 3)})
    return out


def _optics_grid(pad=True):
    out = []
    for shape, dxs in [
        ([4], [1.0, [0.5]]), ([5], [0.5]),
        ([4, 4], [1.0, [1.0, 1.0], [0.5, 1.0]]), ([3, 3], [0.5, [1.0, 0.25]]),
        ([4, 6], [1.0, [0.5, 1.0]]), ([5, 2], [1.0]), ([1, 4], [1.0]),
    ]:
        for dx in dxs:
            for k0, z in [(2.0, 1.0), (6.0, 0.5), (1.0, 3.0)]:
                for pf in (1, 2) if pad else (None,):
                    c = {"shape": shape, "dx": dx, "k0": k0, "z": z}
                    if pad:
                        c["pad_factor"] = pf
                    out.append(c)
    return out


def g_AngularSpectrumPropagator(rng):
    return _optics_grid()


def g_FresnelPropagator(rng):
    return _optics_grid()


def g_FraunhoferPropagator(rng):
    out = _optics_grid(pad=False)
    # parameters for which a float-step range over the destination plane has N + 1 samples (rounding)
    for shape, dx, k0, z in [([17], 0.7, 3.0, 0.1), ([13], 0.1, 1.0, 2.0), ([3], 1.3, 7.71, 1.0), ([3, 13], [1.3, 0.1], 7.71, 1.0), ([5, 3], [0.5, 1.3], 7.71, 1.0)]:
        out.append({"shape": shape, "dx": dx, "k0": k0, "z": z})
    out[-5]["must"] = True
    return out


def g_AbelTransform(rng):
    # (PyAbel's own Transform, the numpy reference, needs at least 3 rows)
    return [{"shape": s} for s in ([3, 3], [4, 4], [5, 3], [3, 5], [4, 6], [3, 4], [6, 5], [3, 1], [3, 2], [4, 7], [7, 2], [5, 8])]


def g_SingleAxisFiniteSum(rng):
    return [{"shape": sh, "axis": ax, "dtype": "float64"} for sh in ([1], [4], [2, 3], [3, 1], [2, 3, 2]) for ax in list(range(len(sh))) + [-1]]


def g_FiniteSum(rng):
    out = [{"shape": sh, "axes": ax, "dtype": "float64"} for sh in ([4], [2, 3], [2, 3, 2]) for ax in [None] + _subsets(len(sh))]
    out += [{"shape": [2, 3], "axes": ax, "dtype": "float64", "must": True} for ax in ([0, -1],)]
    out += [{"shape": [2, 3, 2], "axes": ax, "dtype": "float64"} for ax in ([-1, 0], [-3, 2], [1, -1])]
    return out


def g_SingleAxisHaarTransform(rng):
    return g_SingleAxisFiniteSum(rng)


def g_HaarTransform(rng):
    return g_FiniteSum(rng)


def g_linop_from_function(rng):
    return [
        {"fn": "flip", "shape": [2, 3], "kwargs": {"axis": 1}, "dtype": "float64"},
        {"fn": "roll", "shape": [5], "kwargs": {"shift": 2}, "dtype": "float64"},
        {"fn": "cumsum", "shape": [2, 3], "kwargs": {"axis": 0}, "dtype": "float64"},
        {"fn": "conj_twice", "shape": [3], "kwargs": {}, "dtype": "complex128"},
    ]


GRIDS = {
    "SingleAxisFiniteDifference": g_SingleAxisFiniteDifference,
    "FiniteDifference": g_FiniteDifference,
    "DFT": g_DFT,
    "CircularConvolve": g_CircularConvolve,
    "Convolve": g_Convolve,
    "ConvolveByX": g_ConvolveByX,
    "Pad": g_Pad,
    "Crop": g_Crop,
    "Reshape": g_Reshape,
    "Transpose": g_Transpose,
    "Sum": g_Sum,
    "Slice": g_Slice,
    "Identity": g_Identity,
    "ScaledIdentity": g_ScaledIdentity,
    "Diagonal": g_Diagonal,
    "MatrixOperator": g_MatrixOperator,
    "VerticalStack": g_VerticalStack,
    "DiagonalStack": g_DiagonalStack,
    "DiagonalReplicated": g_DiagonalReplicated,
    "ComposedLinearOperator": g_ComposedLinearOperator,
    "ProjectedGradient": g_ProjectedGradient,
    "PolarGradient": g_PolarGradient,
    "CylindricalGradient": g_CylindricalGradient,
    "SphericalGradient": g_SphericalGradient,
    "XRayTransform2D": g_XRayTransform2D,
    "XRayTransform3D": g_XRayTransform3D,
    "AngularSpectrumPropagator": g_AngularSpectrumPropagator,
    "FresnelPropagator": g_FresnelPropagator,
    "FraunhoferPropagator": g_FraunhoferPropagator,
    "AbelTransform": g_AbelTransform,
    "SingleAxisFiniteSum": g_SingleAxisFiniteSum,
    "FiniteSum": g_FiniteSum,
    "SingleAxisHaarTransform": g_SingleAxisHaarTransform,
    "HaarTransform": g_HaarTransform,
    "linop_from_function": g_linop_from_function,
}
CLASSES = list(GRIDS)


def grid(class_name, rng):
    return GRIDS[class_name](rng)


# --------------------------------------------------------------------------
# construction from a config


def _dt(name):
    return np.dtype(name).type


def _opt_tuple(x):
    return None if x is None else (x if isinstance(x, int) else tuple(x))


def _pad_arg(pw):
    return pw if isinstance(pw, int) else _tl(pw)


def build(name, c):
    """construct the scico operator described by (class name, config)"""
    import jax.numpy as jnp

    import scico.numpy as snp
    from scico import linop

    if name == "SingleAxisFiniteDifference":
        return linop.SingleAxisFiniteDifference(tuple(c["shape"]), input_dtype=_dt(c["dtype"]), axis=c["axis"], prepend=c["prepend"], append=c["append"], circular=c["circular"])
    if name == "FiniteDifference":
        return linop.FiniteDifference(tuple(c["shape"]), input_dtype=_dt(c["dtype"]), axes=_opt_tuple(c["axes"]), prepend=c["prepend"], append=c["append"], circular=c["circular"])
    if name == "DFT":
        return linop.DFT(tuple(c["shape"]), axes=_opt_tuple(c["axes"]), axes_shape=_opt_tuple(c["axes_shape"]), norm=c["norm"])
    if name == "CircularConvolve":
        dt = _dt(c["dtype"])
        if c["route"] == "init":
            h = dec(c["h"])
            if c["h_is_dft"]:
                h = h.astype(np.complex128)
            elif c["dtype"] == "float32":
                h = h.astype(np.float32)
            hc = c["h_center"]
            if isinstance(hc, list):
                hc = tuple(hc)
            return linop.CircularConvolve(jnp.asarray(h), tuple(c["shape"]), ndims=c["ndims"], input_dtype=dt, h_is_dft=c["h_is_dft"], h_center=hc)
        if c["inner"] == "circ":
            H = linop.CircularConvolve(jnp.asarray(dec(c["h"])), tuple(c["shape"]), ndims=c["ndims"], input_dtype=dt)
        else:
            H = linop.SingleAxisFiniteDifference(tuple(c["shape"]), input_dtype=dt, axis=c["axis"], circular=True)
        return linop.CircularConvolve.from_operator(H, ndims=c["ndims"], center=_opt_tuple(c["center"]))
    if name in ("Convolve", "ConvolveByX"):
        dt = _dt(c["dtype"])
        h = dec(c["h"])
        if c["dtype"] == "float32":
            h = h.astype(np.float32)
        cls = getattr(linop, name)
        if c["route"] == "init":
            if name == "Convolve":
                return cls(jnp.asarray(h), tuple(c["shape"]), input_dtype=dt, mode=c["mode"])
            return cls(jnp.asarray(h), tuple(c["shape"]), input_dtype=dt, mode=c["mode"])
        from scico.operator import BiConvolve

        if name == "Convolve":
            B = BiConvolve((tuple(c["shape"]), tuple(h.shape)), input_dtype=dt, mode=c["mode"])
            return B.freeze(1, jnp.asarray(h))
        B = BiConvolve((tuple(h.shape), tuple(c["shape"])), input_dtype=dt, mode=c["mode"])
        return B.freeze(0, jnp.asarray(h))
    if name == "Pad":
        return linop.Pad(tuple(c["shape"]), input_dtype=_dt(c["dtype"]), pad_width=_pad_arg(c["pad_width"]), mode=c["mode"])
    if name == "Crop":
        return linop.Crop(_pad_arg(c["crop_width"]), tuple(c["shape"]), input_dtype=_dt(c["dtype"]))
    if name == "Reshape":
        return linop.Reshape(tuple(c["shape"]), tuple(c["newshape"]), input_dtype=_dt(c["dtype"]))
    if name == "Transpose":
        if c["axes"] is None:
            return linop.Transpose(tuple(c["shape"]), input_dtype=_dt(c["dtype"]))
        return linop.Transpose(tuple(c["shape"]), tuple(c["axes"]), input_dtype=_dt(c["dtype"]))
    if name == "Sum" and "blocks" in c:
        bshape = tuple(tuple(b) for b in c["blocks"])
        if c["axis"] is None:  # nothing passed for the axis: full reduction of the block array
            return linop.Sum(bshape, input_dtype=_dt(c["dtype"]))
        if c["positional"]:
            return linop.Sum(bshape, c["axis"], input_dtype=_dt(c["dtype"]))
        return linop.Sum(bshape, input_dtype=_dt(c["dtype"]), axis=c["axis"])
    if name == "Sum":
        return linop.Sum(tuple(c["shape"]), input_dtype=_dt(c["dtype"]), axis=_opt_tuple(c["axis"]), keepdims=c["keepdims"])
    if name == "Slice":
        idx = _idx_dec(c["idx"])
        if len(idx) == 1:
            idx = idx[0]
        return linop.Slice(idx, tuple(c["shape"]), input_dtype=_dt(c["dtype"]))
    if name == "Identity":
        return linop.Identity(tuple(c["shape"]), input_dtype=_dt(c["dtype"]))
    if name == "ScaledIdentity":
        sc = c["scalar"]
        if isinstance(sc, list):
            sc = complex(sc[0], sc[1])
        return linop.ScaledIdentity(sc, tuple(c["shape"]), input_dtype=_dt(c["dtype"]))
    if name == "Diagonal":
        d = dec(c["diagonal"], _dt(c["dtype"]))
        return linop.Diagonal(jnp.asarray(d), input_shape=_opt_tuple(c["input_shape"]), input_dtype=_dt(c["dtype"]))
    if name == "MatrixOperator":
        return linop.MatrixOperator(jnp.asarray(dec(c["A"])), input_cols=c["input_cols"])
    if name == "VerticalStack":
        return linop.VerticalStack([build(n, cc) for n, cc in c["ops"]], collapse_output=c["collapse_output"])
    if name == "DiagonalStack":
        return linop.DiagonalStack([build(n, cc) for n, cc in c["ops"]], collapse_input=c["collapse_input"], collapse_output=c["collapse_output"])
    if name == "DiagonalReplicated":
        return linop.DiagonalReplicated(build(*c["op"]), c["replicates"], input_axis=c["input_axis"], output_axis=c["output_axis"], map_type="vmap")
    if name == "ComposedLinearOperator":
        B = build(*c["B"])
        osh = tuple(B.output_shape)
        if c["A"] == "fd_last":
            A = linop.SingleAxisFiniteDifference(osh, input_dtype=B.output_dtype, axis=len(osh) - 1, circular=True)
        else:
            A = linop.Diagonal(jnp.arange(1, 1 + int(np.prod(osh)), dtype=B.output_dtype).reshape(osh))
        return A @ B
    if name == "ProjectedGradient":
        coord = None
        if c["coord"] is not None:
            coord = []
            for cc in c["coord"]:
                if "block" in cc:
                    coord.append(snp.blockarray([jnp.asarray(dec(b)) for b in cc["block"]]))
                else:
                    coord.append(jnp.asarray(dec(cc["array"])))
            coord = tuple(coord)
        return linop.ProjectedGradient(tuple(c["shape"]), axes=_opt_tuple(c["axes"]), coord=coord, cdiff=c["cdiff"], input_dtype=_dt(c["dtype"]))
    if name in ("PolarGradient", "CylindricalGradient", "SphericalGradient"):
        flags = {k: c[k] for k in ("angular", "radial", "axial", "azimuthal", "polar") if k in c}
        center = None if c["center"] is None else tuple(c["center"])
        return getattr(linop, name)(tuple(c["shape"]), axes=_opt_tuple(c["axes"]), center=center, cdiff=c["cdiff"], input_dtype=_dt(c["dtype"]), **flags)
    if name == "XRayTransform2D":
        from scico.linop.xray import XRayTransform2D

        dx = c["dx"]
        if isinstance(dx, list):
            dx = np.asarray(dx)
        x0 = None if c["x0"] is None else np.asarray(c["x0"])
        return XRayTransform2D(tuple(c["shape"]), jnp.asarray(np.asarray(c["angles"], dtype=np.float64)), x0=x0, dx=dx, y0=c["y0"], det_count=c["det_count"])
    if name == "XRayTransform3D":
        from scico.linop.xray import XRayTransform3D

        if "matrices" in c:
            return XRayTransform3D(tuple(c["shape"]), jnp.asarray(np.asarray(c["matrices"], dtype=np.float64)), tuple(c["det_shape"]))
        M = XRayTransform3D.matrices_from_euler_angles(
            tuple(c["shape"]), tuple(c["det_shape"]), c["seq"], np.asarray(c["angles"], dtype=np.float64),
            voxel_spacing=None if c["voxel_spacing"] is None else np.asarray(c["voxel_spacing"]),
            det_spacing=None if c["det_spacing"] is None else np.asarray(c["det_spacing"]),
        )
        return XRayTransform3D(tuple(c["shape"]), M, tuple(c["det_shape"]))
    if name in ("AngularSpectrumPropagator", "FresnelPropagator", "FraunhoferPropagator"):
        from scico.linop import optics

        dx = c["dx"]
        if isinstance(dx, list):
            dx = tuple(dx)
        kw = {"pad_factor": c["pad_factor"]} if "pad_factor" in c else {}
        return getattr(optics, name)(tuple(c["shape"]), dx, c["k0"], c["z"], **kw)
    if name == "AbelTransform":
        from scico.linop.abel import AbelTransform

        return AbelTransform(tuple(c["shape"]))
    if name in ("SingleAxisFiniteSum", "SingleAxisHaarTransform"):
        from scico.functional import _tvnorm

        return getattr(_tvnorm, name)(tuple(c["shape"]), input_dtype=_dt(c["dtype"]), axis=c["axis"])
    if name in ("FiniteSum", "HaarTransform"):
        from scico.functional import _tvnorm

        return getattr(_tvnorm, name)(tuple(c["shape"]), input_dtype=_dt(c["dtype"]), axes=_opt_tuple(c["axes"]))
    if name == "linop_from_function":
        fns = {"flip": snp.flip, "roll": snp.roll, "cumsum": snp.cumsum, "conj_twice": lambda x: snp.conj(snp.conj(x))}
        cls = linop.linop_from_function(fns[c["fn"]], "Fn_" + c["fn"], f_name=c["fn"])
        return cls(tuple(c["shape"]), input_dtype=_dt(c["dtype"]), **c["kwargs"])
    raise KeyError(name)


# --------------------------------------------------------------------------
# the enumerator


def iter_configs(rng, thorough, classes=None, per_class=None, on_error="skip"):
    """Yield (class_name, config_dict, constructed_operator) over the configuration grid.

    thorough -> every configuration of every class; otherwise a seeded sample of `per_class`
    (default QUICK_PER_CLASS) configurations per class.  Deterministic for a given rng state."""
    names = CLASSES if classes is None else list(classes)
    k = QUICK_PER_CLASS if per_class is None else per_class
    for name in names:
        cfgs = GRIDS[name](rng)
        if not thorough and len(cfgs) > k:
            # configurations flagged "must" (regression cases: mixed dtypes, multi-slab volumes, ...) are always kept
            must = [c for c in cfgs if c.get("must")]
            rest = [c for c in cfgs if not c.get("must")]
            sel = sorted(rng.choice(len(rest), size=min(k, len(rest)), replace=False).tolist())
            cfgs = must + [rest[i] for i in sel]
        for c in cfgs:
            try:
                op = build(name, c)
            except Exception as e:  # noqa: BLE001
                if on_error == "raise":
                    raise
                if on_error == "yield":
                    yield name, c, e
                continue
            yield name, c, op


# --------------------------------------------------------------------------
# random configurations beyond the enumerated grid (thorough-tier search of C04)


def random_configs(rng, n_per_class=12):
    """yield (class_name, config) with randomly drawn parameters (continuous ones included) for the classes whose
    parameter space the grid can only sample: propagators, X-ray geometries, index expressions, pad widths, circular
    convolution shapes / centres.  Deterministic for a given rng state."""

    def rslice(n):
        def v():
            return None if rng.random() < 0.3 else int(rng.integers(-n - 2, n + 3))

        st = None if rng.random() < 0.4 else int(rng.choice([1, 2, 3, -1, -2, -3]))
        return slice(v(), v(), st)

    for _ in range(n_per_class):
        nd = int(rng.integers(1, 3))
        shape = [int(rng.integers(1, 24)) for _ in range(nd)] if nd == 1 else [int(rng.integers(1, 7)) for _ in range(nd)]
        dx = round(float(rng.uniform(0.05, 3.0)), 2) if rng.random() < 0.5 else [round(float(rng.uniform(0.05, 3.0)), 2) for _ in range(nd)]
        c = {"shape": shape, "dx": dx, "k0": round(float(rng.uniform(0.2, 10.0)), 2), "z": round(float(rng.uniform(0.05, 5.0)), 2)}
        yield "FraunhoferPropagator", dict(c)
        yield str(rng.choice(["AngularSpectrumPropagator", "FresnelPropagator"])), dict(c, pad_factor=1)
    for _ in range(n_per_class):
        shape = [int(rng.integers(1, 6)), int(rng.integers(1, 6))]
        dx = None if rng.random() < 0.3 else (float(rng.choice([1.0, 0.5])) if rng.random() < 0.5 else [round(float(rng.uniform(0.2, 0.7)), 3) for _ in range(2)])
        yield "XRayTransform2D", {
            "shape": shape, "angles": [round(float(rng.uniform(-7, 7)), 3) for _ in range(int(rng.integers(1, 3)))],
            "det_count": None if rng.random() < 0.3 else int(rng.integers(1, 9)), "dx": dx,
            "x0": None if rng.random() < 0.5 else [round(float(rng.uniform(-4, 2)), 3) for _ in range(2)],
            "y0": None if rng.random() < 0.5 else round(float(rng.uniform(-6, 1)), 3),
        }
    for _ in range(n_per_class):
        seq = str(rng.choice(["X", "Y", "Z", "XY", "ZX", "XYZ"]))
        yield "XRayTransform3D", {
            "shape": [int(rng.integers(1, 4)) for _ in range(3)], "det_shape": [int(rng.integers(1, 6)), int(rng.integers(1, 6))], "seq": seq,
            "angles": [[round(float(rng.uniform(-3, 3)), 3) for _ in seq] for _ in range(int(rng.integers(1, 3)))],
            "voxel_spacing": None if rng.random() < 0.5 else [float(rng.choice([0.5, 1.0, 0.75, 0.25])) for _ in range(3)],
            "det_spacing": None if rng.random() < 0.6 else [float(rng.choice([1.0, 2.0, 0.5])) for _ in range(2)],
        }
    for _ in range(2 * n_per_class):
        nd = int(rng.integers(1, 4))
        shape = [int(rng.integers(1, 5)) for _ in range(nd)]
        idx = []
        for a in range(nd):
            r = rng.random()
            idx.append(rslice(shape[a]) if r < 0.6 else (int(rng.integers(-shape[a], shape[a])) if r < 0.8 else slice(None)))
        if rng.random() < 0.3 and nd > 1:
            k = int(rng.integers(0, nd))
            idx = idx[:k] + [Ellipsis] + idx[k + 1 + int(rng.integers(0, nd - k)):]
        if rng.random() < 0.3:
            idx.insert(int(rng.integers(0, len(idx) + 1)), None)
        if np.zeros(shape)[tuple(idx)].size == 0:
            continue
        yield "Slice", {"shape": shape, "idx": _idx_enc(tuple(idx)), "dtype": "float64"}
    for _ in range(n_per_class):
        nd = int(rng.integers(1, 3))
        dims = [int(rng.integers(1, 6)) for _ in range(nd)]
        ks = [int(rng.integers(1, 7)) for _ in range(nd)]
        bx = [] if rng.random() < 0.6 else [int(rng.integers(1, 3))]
        bh = [] if rng.random() < 0.6 else [int(rng.integers(1, 3))]
        if bx and bh and bx[0] != bh[0] and 1 not in (bx[0], bh[0]):
            bh = bx
        cen = None if rng.random() < 0.3 else [float(rng.choice([0, 1, 2, -1, 0.5, 1.25, -0.75, 3])) for _ in range(nd)]
        hc = bool(rng.random() < 0.2)
        yield "CircularConvolve", {
            "route": "init", "shape": bx + dims, "h": enc(_dy(rng, bh + ks, cplx=hc)), "ndims": nd if (bx or bh) else None, "h_center": cen,
            "dtype": "complex128" if rng.random() < 0.2 else "float64", "h_is_dft": False,
        }
    for _ in range(n_per_class):
        sh2 = [int(rng.integers(1, 7)) for _ in range(int(rng.integers(2, 4)))]
        ax2 = None if rng.random() < 0.4 else [int(a) for a in rng.permutation(len(sh2))[:2]]
        cd = bool(rng.random() < 0.5) and all(sh2[a] >= 2 for a in ([0, 1] if ax2 is None else ax2))
        fl = [(True, True), (True, False), (False, True)][int(rng.integers(0, 3))]
        yield "PolarGradient", {"shape": sh2, "axes": ax2, "center": None if rng.random() < 0.3 else [round(float(rng.uniform(-3, 6)), 3) for _ in range(2)],
                                "angular": fl[0], "radial": fl[1], "cdiff": cd, "dtype": "float64"}
        sh3 = [int(rng.integers(1, 5)) for _ in range(3)]
        ax3 = None if rng.random() < 0.5 else [int(a) for a in rng.permutation(3)]
        cd3 = bool(rng.random() < 0.5) and all(v >= 2 for v in sh3)
        cen3 = None if rng.random() < 0.3 else [round(float(rng.uniform(-2, 4)), 3) for _ in range(3)]
        yield "CylindricalGradient", {"shape": sh3, "axes": ax3, "center": cen3, "angular": True, "radial": True, "axial": bool(rng.random() < 0.5), "cdiff": cd3, "dtype": "float64"}
        yield "SphericalGradient", {"shape": sh3, "axes": ax3, "center": cen3, "azimuthal": True, "polar": bool(rng.random() < 0.7), "radial": True, "cdiff": cd3, "dtype": "float64"}
    for _ in range(n_per_class):
        nd = int(rng.integers(1, 3))
        shape = [int(rng.integers(1, 5)) for _ in range(nd)]
        mode = str(rng.choice(["constant", "edge", "wrap", "reflect", "symmetric", "mean"]))
        if mode == "reflect" and min(shape) < 2:
            mode = "symmetric"
        yield "Pad", {"shape": shape, "pad_width": [[int(rng.integers(0, 8)), int(rng.integers(0, 8))] for _ in range(nd)], "mode": mode, "dtype": "float64"}
