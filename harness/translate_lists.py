"""Translator for C13 (DESIGN §5.8, §6.3): wrapped-name tables -> lean/Scico/Generated/WrappedNames.lean

Reads, with `ast` only (nothing is imported or executed),

* scico/numpy/_wrapped_function_lists.py : the literal tuples `unary_ops`, `binary_ops`,
  `creation_routines`, `mathematical_functions`, `reduction_functions`, `testing_functions`;
* scico/scipy/special.py                 : the literal tuple `functions` and its wrapper;
* scico/numpy/_blockarray.py             : `skip_props`, `skip_methods`, the class body of `BlockArray`, the conditions of
  the `da_props` / `da_methods` comprehensions (the members of the jax array type come from jax itself);
* scico/numpy/__init__.py                : the sequence of `_wrappers.wrap_recursively(vars(), <list>, _wrappers.<wrapper>)`
  calls (which list gets which wrapper, in which order).

The generated module contains the data and one `decide` obligation
(`Scico.Block.Lists.check … = true`); the meaning of `check` is proved once in
`Scico/Proofs/BlockLists.lean` (`check_sound`).
"""

from __future__ import annotations

import ast
from pathlib import Path

import common

LISTS = ["unary_ops", "binary_ops", "creation_routines", "mathematical_functions", "reduction_functions", "testing_functions"]
OUT = common.LEAN_DIR / "Scico" / "Generated" / "WrappedNames.lean"


def _literal_tuples(path: Path, names):
    tree = ast.parse(path.read_text())
    out = {}
    for node in tree.body:
        if isinstance(node, ast.Assign) and len(node.targets) == 1 and isinstance(node.targets[0], ast.Name):
            nm = node.targets[0].id
            if nm in names:
                val = ast.literal_eval(node.value)
                if not (isinstance(val, (tuple, list)) and all(isinstance(v, str) for v in val)):
                    raise common.Infra(f"{path}: {nm} is not a literal tuple of strings")
                out[nm] = list(val)
    return out


def _wrap_calls(path: Path):
    """[(list name, wrapper name)] of the wrap_recursively calls at module level, in source order"""
    tree = ast.parse(path.read_text())
    calls = []
    for node in ast.walk(tree):
        if isinstance(node, ast.Call):
            f = node.func
            fname = f.attr if isinstance(f, ast.Attribute) else (f.id if isinstance(f, ast.Name) else None)
            if fname == "wrap_recursively" and len(node.args) == 3:
                lst, wr = node.args[1], node.args[2]
                lname = lst.id if isinstance(lst, ast.Name) else ast.unparse(lst)
                wname = wr.attr if isinstance(wr, ast.Attribute) else (wr.id if isinstance(wr, ast.Name) else ast.unparse(wr))
                calls.append((node.lineno, lname, wname))
    return [(l, w) for _, l, w in sorted(calls)]


def read_tables(repo: Path | None = None):
    repo = Path(repo) if repo else common.REPO
    t = _literal_tuples(repo / "scico/numpy/_wrapped_function_lists.py", set(LISTS))
    for nm in LISTS:
        if nm not in t:
            raise common.Infra(f"_wrapped_function_lists.py: no literal tuple {nm}")
    sp = _literal_tuples(repo / "scico/scipy/special.py", {"functions"})
    if "functions" not in sp:
        raise common.Infra("scipy/special.py: no literal tuple `functions`")
    t["special_functions"] = sp["functions"]
    t["wrap_calls_numpy"] = _wrap_calls(repo / "scico/numpy/__init__.py")
    t["wrap_calls_special"] = _wrap_calls(repo / "scico/scipy/special.py")
    return t


def read_attr_tables(repo: Path | None = None):
    """which attributes of the jax array type `_blockarray.py` lifts onto BlockArray.

    With `ast`: `skip_props`, `skip_methods`, the names defined in the class body of `BlockArray`, the
    conjuncts of the conditions of the `da_props` / `da_methods` list comprehensions.  From jax itself
    (scico is NOT imported): the public members of `type(jnp.array([0]))` with the two flags the code tests."""
    import inspect
    from typing import Callable

    repo = Path(repo) if repo else common.REPO
    path = repo / "scico/numpy/_blockarray.py"
    tree = ast.parse(path.read_text())
    skips = _literal_tuples(path, {"skip_props", "skip_methods"})
    for nm in ("skip_props", "skip_methods"):
        if nm not in skips:
            raise common.Infra(f"_blockarray.py: no literal tuple {nm}")
    own = []
    conds = {}
    for node in tree.body:
        if isinstance(node, ast.ClassDef) and node.name == "BlockArray":
            for b in node.body:
                if isinstance(b, (ast.FunctionDef, ast.AsyncFunctionDef)):
                    own.append(b.name)
                elif isinstance(b, ast.Assign):
                    own += [t.id for t in b.targets if isinstance(t, ast.Name)]
        if isinstance(node, ast.Assign) and len(node.targets) == 1 and isinstance(node.targets[0], ast.Name) and node.targets[0].id in ("da_props", "da_methods"):
            v = node.value
            if not (isinstance(v, ast.ListComp) and len(v.generators) == 1):
                raise common.Infra(f"_blockarray.py: {node.targets[0].id} is not a single list comprehension")
            cs = []
            for c in v.generators[0].ifs:
                cs += [ast.unparse(x) for x in c.values] if (isinstance(c, ast.BoolOp) and isinstance(c.op, ast.And)) else [ast.unparse(c)]
            conds[node.targets[0].id] = cs
            src = ast.unparse(v.generators[0].iter)
            if src != "dict(inspect.getmembers(Array)).items()" or ast.unparse(v.elt) != "k":
                conds[node.targets[0].id] = cs + [f"<over {src} yielding {ast.unparse(v.elt)}>"]
    for nm in ("da_props", "da_methods"):
        if nm not in conds:
            raise common.Infra(f"_blockarray.py: no list comprehension {nm}")
    lists = read_tables(repo)
    own = list(dict.fromkeys(own + lists["unary_ops"] + lists["binary_ops"]))
    import jax.numpy as jnp

    Array = type(jnp.array([0]))
    members = [(k, isinstance(v, property), isinstance(v, Callable)) for k, v in dict(inspect.getmembers(Array)).items() if k[0] != "_"]
    own_public = [k for k in own if k[0] != "_"]
    props = [k for k, p, c in members if p and k not in own_public and k not in skips["skip_props"]]
    methods = [k for k, p, c in members if c and k not in own_public and k not in props and k not in skips["skip_methods"]]
    return {"members": members, "own": own_public, "skip_props": skips["skip_props"], "skip_methods": skips["skip_methods"],
            "prop_conds": conds["da_props"], "method_conds": conds["da_methods"], "props": props, "methods": methods}


def read_namespace():
    """sorted public names of jax.numpy (sub-modules linalg / fft as dotted names), read from jax itself"""
    import types

    import jax.numpy as jnp

    out = []
    for n in dir(jnp):
        if n[0] == "_":
            continue
        v = getattr(jnp, n)
        if isinstance(v, types.ModuleType):
            if n in ("linalg", "fft"):
                out += [f"{n}.{m}" for m in dir(v) if m[0] != "_" and not isinstance(getattr(v, m), types.ModuleType)]
            continue
        out.append(n)
    return sorted(out)


def _lean_str(s: str) -> str:
    return '"' + s.replace("\\", "\\\\").replace('"', '\\"') + '"'


def _lean_list(xs, per_line=6):
    items = [_lean_str(x) for x in xs]
    lines = [", ".join(items[i : i + per_line]) for i in range(0, len(items), per_line)]
    return "[" + ",\n    ".join(lines) + "]"


def _lean_pairs(ps):
    return "[" + ", ".join(f"({_lean_str(a)}, {_lean_str(b)})" for a, b in ps) + "]"


def render_attrs(a) -> str:
    mem = ",\n    ".join(f"⟨{_lean_str(k)}, {'true' if p else 'false'}, {'true' if c else 'false'}⟩" for k, p, c in a["members"])
    return "\n".join([
        "/-- lifted attributes: public members of the jax array type (from jax), names and skip lists of `_blockarray.py` (ast) -/",
        "def attrTables : AttrTables :=",
        f"  {{ members := [\n    {mem}]",
        f"    ownNames := {_lean_list(a['own'])}",
        f"    skipProps := {_lean_list(a['skip_props'])}",
        f"    skipMethods := {_lean_list(a['skip_methods'])}",
        f"    propConds := {_lean_list(a['prop_conds'], 2)}",
        f"    methodConds := {_lean_list(a['method_conds'], 2)}",
        f"    expectedProps := {_lean_list(a['props'])}",
        f"    expectedMethods := {_lean_list(a['methods'])} }}",
        "",
        "/-- the comprehensions of `_blockarray.py` lift exactly the listed attributes; the promised ones are among them",
        "    (meaning: `Scico.Block.Lists.checkAttrs_sound`) -/",
        "theorem attrs_ok : checkAttrs attrTables = true := by decide +kernel",
        "",
    ])


def render_namespace(names) -> str:
    return "\n".join([
        "/-- sorted public names of `jax.numpy` (with `linalg.*`, `fft.*`), read from jax -/",
        f"def jnpNames : List String :=\n  {_lean_list(names)}",
        "",
        "/-- every name of the namespace is wrapped by one of the lists or is in the pinned pass-through list; the wrapped",
        "    names exist (meaning: `Scico.Block.Lists.checkNamespace_sound`) -/",
        "theorem namespace_ok : checkNamespace tables jnpNames = true := by decide +kernel",
        "",
    ])


def render(t, attrs=None, names=None) -> str:
    camel = {
        "unary_ops": "unaryOps",
        "binary_ops": "binaryOps",
        "creation_routines": "creationRoutines",
        "mathematical_functions": "mathematicalFunctions",
        "reduction_functions": "reductionFunctions",
        "testing_functions": "testingFunctions",
        "special_functions": "specialFunctions",
    }
    out = [
        "/- GENERATED by harness/translate_lists.py from scico/numpy/_wrapped_function_lists.py,",
        "   scico/numpy/__init__.py and scico/scipy/special.py — rewritten on every run, do not edit. -/",
        "import Scico.Proofs.BlockLists",
        "",
        "namespace Scico.Generated.WrappedNames",
        "open Scico.Block.Lists",
        "",
    ]
    for k, v in camel.items():
        out.append(f"def {v} : List String :=\n  {_lean_list(t[k])}\n")
    out.append(f"def wrapCallsNumpy : List (String × String) :=\n  {_lean_pairs(t['wrap_calls_numpy'])}\n")
    out.append(f"def wrapCallsSpecial : List (String × String) :=\n  {_lean_pairs(t['wrap_calls_special'])}\n")
    out += [
        "def tables : Tables :=",
        "  { unaryOps := unaryOps, binaryOps := binaryOps, creation := creationRoutines,",
        "    mathematical := mathematicalFunctions, reductions := reductionFunctions,",
        "    testing := testingFunctions, special := specialFunctions,",
        "    wrapCallsNumpy := wrapCallsNumpy, wrapCallsSpecial := wrapCallsSpecial }",
        "",
        "/-- the structural obligations on the current tables (meaning: `Scico.Block.Lists.check_sound`) -/",
        "theorem tables_ok : check tables = true := by decide",
        "",
        "/-- every operator method is lifted or is one of the pinned non-lifted ones; no in-place operator is defined;",
        "    lifted binary operators come with their reflected form (meaning: `Scico.Block.Lists.checkOperators_sound`) -/",
        "theorem operators_ok : checkOperators tables = true := by decide +kernel",
        "",
        render_attrs(attrs) if attrs is not None else "",
        render_namespace(names) if names is not None else "",
        "end Scico.Generated.WrappedNames",
        "",
    ]
    return "\n".join(out)


def generate(repo: Path | None = None):
    t = read_tables(repo)
    attrs = read_attr_tables(repo)
    t["lifted_props"], t["lifted_methods"] = attrs["props"], attrs["methods"]
    names = read_namespace()
    t["jnp_names"] = names
    txt = render(t, attrs, names)
    OUT.parent.mkdir(parents=True, exist_ok=True)
    if not OUT.exists() or OUT.read_text() != txt:
        OUT.write_text(txt)
    return t


if __name__ == "__main__":
    tt = generate()
    print({k: len(v) for k, v in tt.items()})
