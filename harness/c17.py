"""C17 - norm estimates and parameter estimators satisfy their documented inequalities.

* power_iteration / operator_norm on operators with known dense matrices, for budgets 0..N and several keys:
  the Lean model (`powerIteration`, `operatorNorm`) runs the same iteration from the same random start;
* PDHG / ProximalADMM / NonLinearPADMM `.estimate_parameters` against `pdhgEst` / `padmmEst` fed by the model's norm;
* `Diagonal.norm`, `ScaledIdentity.norm`, `MatrixOperator.norm` for every order against `diagNorm`, `scaledIdNorm`,
  `matNorm`.
Property oracles on the implementation: estimate <= numpy's exact 2-norm, monotone in the budget, exact for the zero
operator; tau*sigma*c^2 < 1, sigma = ratio*tau, mu > c_A^2, nu > c_B^2; closed forms == numpy matrix norms of diag(d).
"""

from __future__ import annotations

import json
import math

import numpy as np

import common
import estim_gen as G
import estim_translate
from common import ModelErr, b2f, f2b, fs2b

PROP = "C17"
CLAIMED = True
ENGINE = "Estim"
DESIGN_REF = "DESIGN.md §5.10"
TECHNIQUE = (
    "Lean 4 proof (Cauchy-Schwarz / operator-norm bound in a real inner-product space, induction over the iteration "
    "budget, finite sums for the closed-form norms, field algebra with sqrt for the estimators) + correspondence on "
    "operators with known spectra"
)
LEVEL_TEXT = (
    "Lean theorems about an executable model of power_iteration/operator_norm, the three estimate_parameters and the "
    "closed-form norms: every power-iteration estimate of A^H A is <= ||A||^2 and the estimates are non-decreasing in the "
    "budget; exact 0 for the zero operator; Diagonal/ScaledIdentity formulas equal the matrix norms of diag(d) for fro, nuc, "
    "+-inf, +-1, +-2; tau*sigma*c^2 = 1/factor < 1 and sigma = ratio*tau; mu > c_A^2, nu > c_B^2 for factor > 1. "
    "Convergence under a spectral gap: with the largest eigenvalue lam_1 of A^H A separated (others <= r*lam_1, r < 1) and a start not "
    "orthogonal to the top eigenvector, lam_1(1 - r^(2k) C) <= estimate(k+1) <= lam_1 = ||A||^2, hence operator_norm -> ||A||_2 "
    "(orthonormal eigenbasis, or Mathlib's spectral theorem on a finite-dimensional space); MatrixOperator.norm for ord = inf, 1 is the "
    "induced norm, -inf/-1 the minimal row/column sums, fro/None the Frobenius norm; the estimators at a zero norm estimate return "
    "inf / 0 (negation witnesses over IEEE-extended reals; known finding)."
)
LEVEL_NOTE = (
    "Trusted: Lean kernel + Mathlib; real-number idealisation (rounding not modelled); jax.random, jvp/vjp, the SVD behind "
    "jnp.linalg.norm(ord=2,-2,'nuc') as contracts. Convergence is proved for exact arithmetic (the proved rate is also checked "
    "on the real code for gapped operators). Tie: differential testing on operators of size <= 4x4, budgets <= 200, scales 2^-40..2^40 "
    "(relative comparison), NaN/inf/overflowing operators."
)
PROP_MODULES = ["Scico.Props.C17"]
EXTRA_TARGETS = ["Drv.Estim"]
DRIVER = "Estim"
FILES = ["scico/linop/_util.py", "scico/optimize/_primaldual.py", "scico/optimize/_padmm.py", "scico/linop/_diag.py",
         "scico/linop/_matrix.py"]
RULE = (
    "power/opnorm: (operator, key, budget) with operator in {real/complex Diagonal, real/complex dense MatrixOperator with "
    "dyadic entries, rank-one, zero, ScaledIdentity, Identity, gapped spectrum, Jacobian of x->W sin x (+x^2), NaN/inf entries}, sizes 1-4, "
    "budgets 0..N, keys None/0..3; estimators: the same operators x ratio x factor in {default, None, 1, 1.5, 2} x budgets; "
    "norms: every ord in {None,fro,nuc,inf,-inf,1,-1,2,-2} plus invalid {0,3,-3,'bad'} on Diagonal (plain, broadcast, block, "
    "complex), ScaledIdentity (plain, n-d, nested, complex) and MatrixOperator. Non-trivial: budget >= 1 and the operator is "
    "neither zero nor a multiple of the identity (estimates), ord valid (norms); distinct by the JSON of the case."
)
ASSUMPTIONS = [
    "scico.random.randn(shape, dtype, key) is deterministic for a given key (the model is started from the same vector)",
    "jnp.linalg.norm / SVD and jvp/vjp are correct (contracts; numpy's SVD is the reference for ord = 2, -2, 'nuc')",
]

ORDS_VALID = [None, "fro", "nuc", np.inf, -np.inf, 1, -1, 2, -2]
ORDS_INVALID = [0, 3, -3, "bad"]


def ord_wire(o):
    """the model's `Ord` of a Python `ord` argument.  The code compares with `==` / `in`, so every number equal to an
    integer (1.0, True, np.int64(2), 2+0j) is that integer; a non-integral number is no valid order ("other")"""
    if o is None:
        return "none"
    if isinstance(o, str):
        return o if o in ("fro", "nuc") else "other"
    if o == np.inf:
        return "inf"
    if o == -np.inf:
        return "-inf"
    c = complex(o)
    if c.imag == 0 and float(c.real).is_integer():
        return int(c.real)
    return "other"


def ord_json(o):
    return ord_wire(o)


def ord_from_json(w):
    return {"none": None, "inf": np.inf, "-inf": -np.inf, "other": "bad"}.get(w, w) if isinstance(w, str) else int(w)


def rows(M):
    return [fs2b(r) for r in np.asarray(M, dtype=np.float64)]


def _scalar(x):
    """real scalar of an implementation result, or None when it is not a scalar (e.g. a BlockArray)"""
    from scico.numpy import BlockArray

    if isinstance(x, BlockArray):
        return None
    a = np.asarray(x)
    if a.shape != ():
        return None
    return float(a.real)


def _rel(a, b, k=1, rtol=1e-9):
    """relative closeness (the estimates are scale-equivariant: no absolute floor); inf/nan must match"""
    a, b = float(a), float(b)
    if math.isnan(a) or math.isnan(b):
        return math.isnan(a) and math.isnan(b)
    if math.isinf(a) or math.isinf(b):
        return a == b
    return abs(a - b) <= rtol * max(k, 1) * max(abs(a), abs(b))


def _impl(fn):
    try:
        return ("ok", fn())
    except Exception as e:  # noqa: BLE001
        return ("err", common.err_kind(e), type(e).__name__)


def _model(model, op, **kw):
    try:
        return ("ok", model.call(op, **kw))
    except ModelErr as e:
        return ("err", e.kind)


# --------------------------------------------------------------------------
# property oracles on the implementation


def oracle_opnorm(case):
    """estimate <= exact 2-norm, non-decreasing in the budget, exact for zero, maxiter<1 rejected"""
    from scico.linop import operator_norm

    desc, key = case["desc"], case.get("key")
    A = G.linear_of(desc)
    M = G.dense(desc)
    smax = float(np.linalg.norm(M, 2)) if M.size else 0.0
    prev = None
    base = None
    ests = []
    if desc.get("scale_k") is not None and case.get("base") is not None:
        base = G.linear_of(case["base"])
    for k in sorted(case["budgets"]):
        r = _impl(lambda: operator_norm(A, maxiter=k, key=G.make_key(key)))
        if k < 1:
            if r[0] != "err" or r[1] != "value":
                return {"why": "maxiter < 1 is not rejected with ValueError", "maxiter": k, "got": str(r)}
            continue
        if r[0] == "err":
            return {"why": "operator_norm raised", "maxiter": k, "error": r[2]}
        est = _scalar(r[1])
        if est is None or math.isnan(est):
            return {"why": "estimate is not a number", "maxiter": k, "got": str(r[1])}
        if est > smax * (1 + 1e-9) + 1e-300:
            return {"why": "estimate exceeds the exact induced 2-norm", "maxiter": k, "estimate": est, "exact": smax, "matrix": M.tolist() if not np.iscomplexobj(M) else str(M.tolist())}
        if smax == 0.0 and est != 0.0:
            return {"why": "estimate of the zero operator is not exactly 0", "maxiter": k, "estimate": est}
        if est == 0.0 and smax > 0.0:
            v0 = G.start_vector(A, key)
            if np.linalg.norm(M @ v0.ravel()) > 0:
                return {"why": "estimate is 0 for a non-zero operator (its image of the start vector is non-zero)", "maxiter": k,
                        "exact": smax, "key": key, "desc": desc}
        if base is not None:
            rb = _impl(lambda: operator_norm(base, maxiter=k, key=G.make_key(key)))
            if rb[0] == "ok":
                eb = _scalar(rb[1])
                if not _rel(est, eb * 2.0 ** desc["scale_k"], 8 * k) and not (eb == 0):
                    return {"why": "operator_norm is not scale-equivariant: norm(2^k A) != 2^k norm(A)", "maxiter": k, "k": desc["scale_k"],
                            "estimate_scaled": est, "estimate_base": eb, "desc": desc}
        if prev is not None and est < prev[1] * (1 - 1e-9) - 1e-300:
            return {"why": "estimate decreased when the budget grew", "budgets": [prev[0], k], "estimates": [prev[1], est]}
        prev = (k, est)
        ests.append((k, est))
    if case.get("converged_check") and prev is not None and smax > 0:
        if abs(prev[1] - smax) > 1e-6 * smax:
            return {"why": "estimate did not converge to the separated largest singular value", "estimate": prev[1], "exact": smax, "budget": prev[0]}
    if ests and smax > 0 and np.all(np.isfinite(M)):
        bad = _rate_violation(M, G.start_vector(A, key), ests)
        if bad is not None:
            return bad
    return None


def _rate_violation(M, v0, ests):
    """the proved rate (C17_opnorm_converges), on the real view of the operator: lam = squared singular values, D = the indices of
    the largest one (multiplicity allowed: a complex operator has every value twice), r = (largest other)/lam_1 < 1,
    head = |P_D v0|^2, C = (|v0|^2 - head)/head :   lam_1 (1 - r^(2(k-1)) C) <= estimate(k)^2   for every budget k >= 1"""
    Mr = G.realview_mat(M)
    v0 = G.realview_vec(v0)
    n = Mr.shape[1]
    _, S, Vt = np.linalg.svd(Mr)
    lam = np.zeros(n)
    lam[: len(S)] = S ** 2
    if lam[0] <= 0:
        return None
    top = lam >= lam[0] * (1 - 1e-9)
    rest = lam[~top]
    if rest.size and not rest.max() < lam[0] * (1 - 1e-6):
        return None  # no clear gap: the theorem's hypothesis is not met robustly
    r = float(rest.max() / lam[0]) if rest.size else 0.0
    head = float(sum((Vt[i] @ v0) ** 2 for i in range(n) if top[i]))
    if head <= 1e-12 * float(v0 @ v0):
        return None
    C = max(float(v0 @ v0) - head, 0.0) / head
    for k, est in ests:
        bound = lam[0] * (1.0 - r ** (2 * (k - 1)) * C)
        if est * est < bound - 1e-9 * lam[0]:
            return {"why": "estimate is below the proved geometric lower bound lam_1(1 - r^(2(k-1)) C) (convergence under a spectral gap)",
                    "maxiter": k, "estimate^2": est * est, "lower_bound": float(bound), "lam_1": float(lam[0]), "r": r, "C": C,
                    "multiplicity": int(top.sum())}
    return None


def _vec_rate_violation(M, v0, k, v):
    """C17_power_vector_converges on the real code: the returned vector has unit length and its squared distance from the
    dominant eigenspace is at most r^(2k) C  (same spectral data as `_rate_violation`)"""
    Mr = G.realview_mat(M)
    v0 = G.realview_vec(v0)
    v = G.realview_vec(v)
    n = Mr.shape[1]
    _, S, Vt = np.linalg.svd(Mr)
    lam = np.zeros(n)
    lam[: len(S)] = S ** 2
    if lam[0] <= 0 or not np.all(np.isfinite(v)):
        return None
    top = lam >= lam[0] * (1 - 1e-9)
    rest = lam[~top]
    if rest.size and not rest.max() < lam[0] * (1 - 1e-6):
        return None
    r = float(rest.max() / lam[0]) if rest.size else 0.0
    head0 = float(sum((Vt[i] @ v0) ** 2 for i in range(n) if top[i]))
    if head0 <= 1e-12 * float(v0 @ v0):
        return None
    C = max(float(v0 @ v0) - head0, 0.0) / head0
    nv = float(v @ v)
    if abs(nv - 1.0) > 1e-9:
        return {"why": "returned vector is not a unit vector", "maxiter": k, "|v|^2": nv}
    dist = nv - float(sum((Vt[i] @ v) ** 2 for i in range(n) if top[i]))
    if dist > r ** (2 * k) * C + 1e-9:
        return {"why": "returned vector is farther from the top eigenspace than the proved bound r^(2k) C", "maxiter": k,
                "distance^2": dist, "bound": r ** (2 * k) * C, "r": r, "C": C}
    return None


def _factor_arg(f):
    return {} if f == "default" else {"factor": f}


def oracle_pdhg(case):
    from scico.linop import operator_norm
    from scico.optimize import PDHG
    import scico.numpy as snp

    desc = case["desc"]
    C = G.build_operator(desc)
    kw = dict(ratio=case["ratio"], maxiter=case["maxiter"], key=G.make_key(case.get("key")), **_factor_arg(case["factor"]))
    if desc["kind"] == "jacobian" and not case.get("default_point"):
        kw["x"] = snp.array(np.asarray(desc["u"], dtype=np.float64))
    r = _impl(lambda: PDHG.estimate_parameters(C, **kw))
    if case["maxiter"] < 1:
        return None if (r[0] == "err" and r[1] == "value") else {"why": "maxiter < 1 not rejected", "got": str(r)}
    if r[0] == "err":
        return {"why": "estimate_parameters raised", "error": r[2]}
    tau, sigma = (_scalar(v) for v in r[1])
    c = _scalar(operator_norm(G.linear_of(desc), maxiter=case["maxiter"], key=G.make_key(case.get("key"))))
    if c is None:
        return None
    if c == 0:
        Mz = G.dense(desc)
        if Mz.any() and np.linalg.norm(Mz @ G.start_vector(G.linear_of(desc), case.get("key")).ravel()) > 0:
            return {"why": "norm estimate of a non-zero operator is 0: tau, sigma are not finite", "tau": tau, "sigma": sigma,
                    "exact_norm": float(np.linalg.norm(Mz, 2)), "desc": desc}
        return None  # zero operator: any step sizes are admissible; the estimator returns inf (outside the statement)
    fac = 1.01 if case["factor"] == "default" else (1.0 if case["factor"] is None else case["factor"])
    prod = tau * sigma * c * c
    out = {"tau": tau, "sigma": sigma, "c": c, "tau*sigma*c^2": prod, "ratio": case["ratio"], "factor": case["factor"]}
    if not _rel(sigma, case["ratio"] * tau, 4):
        return {"why": "sigma != ratio * tau", **out}
    if fac > 1.0 and not prod < 1.0:
        return {"why": "tau*sigma*||C||^2 is not < 1 for a safety factor > 1", **out}
    if not common.close(prod, 1.0 / fac, 8, 1e-9):
        return {"why": "tau*sigma*||C||^2 != 1/factor", **out}
    M = G.dense(desc)
    smax = float(np.linalg.norm(M, 2))
    if fac > 1.0 and abs(c - smax) <= 1e-4 * smax and not tau * sigma * smax * smax < 1.0:
        return {"why": "tau*sigma*||C||_2^2 (exact norm, converged estimate) is not < 1", **out, "exact_norm": smax}
    return None


def oracle_padmm(case):
    from scico.linop import operator_norm
    from scico.optimize import ProximalADMM

    A = G.linear_of(case["A"])
    B = None if case["B"] is None else G.linear_of(case["B"])
    kw = dict(maxiter=case["maxiter"], key=G.make_key(case.get("key")), **_factor_arg(case["factor"]))
    r = _impl(lambda: ProximalADMM.estimate_parameters(A, B, **kw))
    if case["maxiter"] < 1:
        return None if (r[0] == "err" and r[1] == "value") else {"why": "maxiter < 1 not rejected", "got": str(r)}
    if r[0] == "err":
        return {"why": "estimate_parameters raised", "error": r[2]}
    mu, nu = (_scalar(v) for v in r[1])
    cA = _scalar(operator_norm(A, maxiter=case["maxiter"], key=G.make_key(case.get("key"))))
    if B is None:
        from scico.linop import Identity

        B = -Identity(A.output_shape, A.output_dtype)
    cB = _scalar(operator_norm(B, maxiter=case["maxiter"], key=G.make_key(case.get("key"))))
    fac = 1.01 if case["factor"] == "default" else case["factor"]
    out = {"mu": mu, "nu": nu, "cA": cA, "cB": cB, "factor": case["factor"]}
    MAz = G.dense(case["A"])
    if mu == 0 and MAz.any() and np.linalg.norm(MAz @ G.start_vector(A, case.get("key")).ravel()) > 0:
        return {"why": "mu = 0 for a non-zero operator A (mu > ||A||^2 violated)", **out, "exact_norm_A": float(np.linalg.norm(MAz, 2))}
    if fac is None:
        if not (_rel(mu, cA * cA, 4) and _rel(nu, cB * cB, 4)):
            return {"why": "factor disabled: the bare squared estimates are not returned", **out}
        return None
    if fac > 1.0 and ((cA > 0 and not mu > cA * cA) or (cB > 0 and not nu > cB * cB)):
        return {"why": "mu > ||A||^2 / nu > ||B||^2 violated for a safety factor > 1", **out}
    if not (_rel(mu, fac * cA * cA, 4) and _rel(nu, fac * cB * cB, 4)):
        return {"why": "mu, nu are not factor * squared estimates", **out}
    return None


def _full_diag(case):
    """the diagonal of the operator's matrix (broadcast to the input shape, blocks concatenated)"""
    if case["form"] == "block":
        return np.concatenate([np.asarray(b, dtype=np.float64).ravel() for b in case["blocks"]])
    d = np.asarray(case["dre"], dtype=np.float64)
    if case.get("dim") is not None:
        d = d + 1j * np.asarray(case["dim"], dtype=np.float64)
    d = d.reshape(case["dshape"])
    if case.get("input_shape") is not None:
        d = np.broadcast_to(d, np.broadcast_shapes(tuple(case["input_shape"]), d.shape))
    return d.ravel()


def _build_diag(case):
    import scico.numpy as snp
    from scico.linop import Diagonal

    if case["form"] == "block":
        return Diagonal(snp.blockarray([snp.array(np.asarray(b, dtype=np.float64)) for b in case["blocks"]]))
    d = np.asarray(case["dre"], dtype=np.float64)
    if case.get("dim") is not None:
        d = d + 1j * np.asarray(case["dim"], dtype=np.float64)
    d = d.reshape(case["dshape"])
    if case.get("input_shape") is not None:
        return Diagonal(snp.array(d), input_shape=tuple(case["input_shape"]), input_dtype=d.dtype)
    return Diagonal(snp.array(d))


def _square(case):
    if case["form"] == "block" or case.get("input_shape") is None:
        return True
    return tuple(np.broadcast_shapes(tuple(case["input_shape"]), tuple(case["dshape"]))) == tuple(case["input_shape"])


def oracle_diagnorm(case):
    """closed form == numpy's matrix norm of the operator's dense (diagonal) matrix, for every valid order"""
    D = _build_diag(case)
    o = ord_from_json(case["ord"])
    r = _impl(lambda: D.norm(o))
    valid = case["ord"] in [ord_wire(v) for v in ORDS_VALID]
    if not valid:
        return None if r[0] == "err" else {"why": "invalid ord accepted", "ord": case["ord"], "got": str(r[1])}
    if not _square(case):
        return None if r[0] == "err" else {"why": "norm of a non-square (input-broadcasting) Diagonal: closed forms do not apply", "ord": case["ord"], "got": str(r[1]),
                                             "numpy": float(np.linalg.norm(_nonsquare_matrix(case), o))}
    if r[0] == "err":
        return {"why": "valid ord rejected", "ord": case["ord"], "error": r[2]}
    got = _scalar(r[1])
    want = float(np.linalg.norm(np.diag(_full_diag(case)), o))
    if got is None:
        return {"why": "norm did not return a scalar", "ord": case["ord"], "got": str(r[1]), "numpy": want}
    if not _rel(got, want, 16, 1e-9):
        return {"why": "closed form differs from the matrix norm of the operator's matrix", "ord": case["ord"], "got": got, "numpy": want,
                "diagonal": case.get("dre") or case.get("blocks"), "input_shape": case.get("input_shape")}
    return None


def _nonsquare_matrix(case):
    d = np.asarray(case["dre"], dtype=np.float64).reshape(case["dshape"])
    ish = tuple(case["input_shape"])
    n = int(np.prod(ish))
    cols = []
    for i in range(n):
        e = np.zeros(n)
        e[i] = 1.0
        cols.append((d * e.reshape(ish)).ravel())
    return np.array(cols).T


def _build_sid(case):
    from scico.linop import ScaledIdentity

    c = case["cre"] + 1j * case["cim"] if case.get("cim") is not None else case["cre"]
    shape = tuple(tuple(s) for s in case["shape"]) if case.get("nested") else tuple(case["shape"])
    return ScaledIdentity(c, shape, input_dtype=np.complex128 if case.get("cim") is not None else np.float64)


def oracle_sidnorm(case):
    S = _build_sid(case)
    o = ord_from_json(case["ord"])
    r = _impl(lambda: S.norm(o))
    valid = case["ord"] in [ord_wire(v) for v in ORDS_VALID]
    if not valid:
        return None if r[0] == "err" else {"why": "invalid ord accepted", "ord": case["ord"], "got": str(r[1])}
    if r[0] == "err":
        return {"why": "valid ord rejected", "ord": case["ord"], "error": r[2]}
    c = case["cre"] + 1j * case["cim"] if case.get("cim") is not None else case["cre"]
    N = S.input_size
    want = float(np.linalg.norm(c * np.eye(N), o))
    got = _scalar(r[1])
    if got is None:
        return {"why": "norm did not return a scalar", "ord": case["ord"], "got": str(r[1]), "numpy": want}
    if not _rel(got, want, 16, 1e-9):
        return {"why": "closed form differs from the matrix norm of c*I", "ord": case["ord"], "got": got, "numpy": want}
    return None


def oracle_power_vector(case):
    from scico.linop import power_iteration

    A = G.linear_of(case["desc"])
    M = G.dense(case["desc"])
    r = _impl(lambda: power_iteration(A.H @ A, maxiter=case["budget"], key=G.make_key(case.get("key"))))
    if r[0] == "err":
        return {"why": "power_iteration raised", "error": r[2]}
    return _vec_rate_violation(M, G.start_vector(A, case.get("key")), case["budget"], np.asarray(r[1][1]))


ORACLES = {"power-vector": oracle_power_vector, "opnorm": oracle_opnorm, "power": oracle_opnorm, "pdhg": oracle_pdhg, "padmm": oracle_padmm,
           "diagnorm": oracle_diagnorm, "sidnorm": oracle_sidnorm}


def oracle(case):
    c = case.get("case", case)
    fn = ORACLES.get(c.get("what"))
    return fn(c) if fn else None


# --------------------------------------------------------------------------
# correspondence


def check_estimates(ctx, model, desc, key, budgets, converged_check=False, base=None):
    from scico.linop import operator_norm, power_iteration

    A = G.linear_of(desc)
    M = G.dense(desc)
    v0 = G.realview_vec(G.start_vector(A, key))
    Mr = G.realview_mat(M)
    Br = G.realview_mat(M.conj().T @ M)
    B = A.H @ A
    trivial = (not M.any()) or desc["kind"] == "scaled-identity"
    case0 = {"what": "opnorm", "desc": desc, "key": key, "budgets": list(budgets), "converged_check": converged_check}
    if base is not None:
        case0["base"] = base
        ctx.count(f"scale:2^{'-' if desc['scale_k'] < 0 else '+'}{min(abs(desc['scale_k']) // 10 * 10, 40)}s")
    ctx.count(f"op:{desc.get('flavour', desc['kind'])}")
    for k in budgets:
        case = {**case0, "budget": k}
        nt = None if (trivial or k < 1) else json.dumps([desc, key, k], sort_keys=True)
        ctx.case({"what": "opnorm", "kind": desc["kind"], "key": key, "budget": k}, nt)
        ctx.count(f"budget:{min(k, 10) if k <= 10 else '>10'}")
        # operator_norm
        r = _impl(lambda: operator_norm(A, maxiter=k, key=G.make_key(key)))
        m = _model(model, "opnorm", A=rows(Mr), v0=fs2b(v0), maxiter=int(k))
        if r[0] == "err" or m[0] == "err":
            ctx.count(f"err:{r[1] if r[0]=='err' else 'none'}")
            if not (r[0] == "err" and m[0] == "err" and r[1] == m[1]):
                ctx.disagree("estim.opnorm.reject", case, list(map(str, r)), list(map(str, m)), oracle=oracle)
            continue
        est, mest = _scalar(r[1]), b2f(m[1])
        if est is None or not _rel(est, mest, 8 * max(1, k)):
            ctx.disagree("estim.opnorm", case, est if est is not None else str(r[1]), mest, oracle=oracle)
            continue
        # power_iteration on the Gram operator: eigenvalue estimate and vector
        r = _impl(lambda: power_iteration(B, maxiter=k, key=G.make_key(key)))
        m = _model(model, "power", B=rows(Br), v0=fs2b(v0), maxiter=int(k))
        if r[0] == "err" or m[0] == "err":
            ctx.disagree("estim.power.reject", case, list(map(str, r)), list(map(str, m)), oracle=oracle)
            continue
        mu, v = r[1]
        mu = complex(np.asarray(mu))
        if abs(mu.imag) > 1e-9 * abs(mu.real):
            ctx.disagree("estim.power.imag", case, str(mu), b2f(m[1]["mu"]), oracle=oracle, note="Rayleigh quotient of a Hermitian operator is not real")
            continue
        ok = _rel(mu.real, b2f(m[1]["mu"]), 8 * max(1, k)) and common.allclose(
            G.realview_vec(v), common.b2fs(m[1]["v"]), 8 * max(1, k), 1e-8)
        if not ok:
            ctx.disagree("estim.power", case, {"mu": mu.real, "v": G.realview_vec(v).tolist()},
                         {"mu": b2f(m[1]["mu"]), "v": common.b2fs(m[1]["v"])}, oracle=oracle)
        if mu.real == 0.0:
            ctx.count("branch:zero-exit")
        elif ok and np.all(np.isfinite(M)):
            badv = _vec_rate_violation(M, G.start_vector(A, key), k, np.asarray(v))
            if badv is not None:
                ctx.disagree("estim.power.vector", {"what": "power-vector", "desc": desc, "key": key, "budget": k}, badv, None, oracle=oracle)
    # property oracle over the whole budget ladder (cheap: the same calls)
    bad = oracle_opnorm(case0)
    if bad is not None:
        ctx.disagree("estim.opnorm.property", case0, bad, None, oracle=oracle)


def check_nilpotent(ctx, model):
    """zero-exit inside the loop: B = [[0,1],[0,0]] (not symmetric; power_iteration accepts any LinearOperator)"""
    import scico.numpy as snp
    from scico.linop import MatrixOperator, power_iteration

    Bm = np.array([[0.0, 1.0], [0.0, 0.0]])
    B = MatrixOperator(snp.array(Bm))
    v0 = G.realview_vec(G.start_vector(B, None))
    for k in (1, 2, 3, 5):
        ctx.case({"what": "power-nilpotent", "budget": k}, f"nilpotent:{k}")
        mu, v = power_iteration(B, maxiter=k, key=None)
        m = model.call("power", B=rows(Bm), v0=fs2b(v0), maxiter=k)
        ctx.count("branch:zero-exit-in-loop" if k >= 2 else "branch:no-exit")
        if not (_rel(float(np.asarray(mu)), b2f(m["mu"]), 8, 1e-9) and common.allclose(np.asarray(v), common.b2fs(m["v"]), 8, 1e-9)):
            ctx.disagree("estim.power", {"what": "power-nilpotent", "budget": k}, {"mu": float(np.asarray(mu)), "v": np.asarray(v).tolist()},
                         {"mu": b2f(m["mu"]), "v": common.b2fs(m["v"])})


NONFINITE = [
    [[float("nan")]],
    [[float("inf")]],
    [[1e200]],                       # A^H A overflows to inf
    [[float("nan"), 0.0], [0.0, 1.0]],
    [[1.0, float("nan")], [2.0, 1.0]],
]


def oracle_nonfinite(case):
    """an operator with a NaN / infinite entry is not the zero operator: the estimate must not be 0
    (the zero exit tests `normAv == 0.0`, which is false for a NaN norm)"""
    import scico.numpy as snp
    from scico.linop import MatrixOperator, operator_norm

    A = MatrixOperator(snp.array(np.asarray(case["A"], dtype=np.float64)))
    for k in case["budgets"]:
        r = _impl(lambda: operator_norm(A, maxiter=k, key=G.make_key(case.get("key"))))
        if r[0] == "err":
            return {"why": "operator_norm raised on an operator with non-finite entries", "maxiter": k, "error": r[2]}
        est = _scalar(r[1])
        if est == 0.0:
            return {"why": "norm estimate is exactly 0 for an operator with NaN/inf entries (a NaN norm taken for the zero operator); "
                           "estimate_parameters would return tau = sigma = inf, mu = nu = 0", "maxiter": k, "A": str(case["A"]), "estimate": est}
    return None


ORACLES["nonfinite"] = oracle_nonfinite


def check_nonfinite(ctx, model):
    """NaN / inf / overflowing operators: every IEEE branch of the loop (NaN norm is *not* the zero exit) at `Float`
    against the real arithmetic; only operators whose dense products are insensitive to the order of evaluation"""
    import scico.numpy as snp
    from scico.linop import MatrixOperator, operator_norm, power_iteration

    for Am in NONFINITE:
        M = np.asarray(Am, dtype=np.float64)
        A = MatrixOperator(snp.array(M))
        v0 = G.realview_vec(G.start_vector(A, 1))
        case0 = {"what": "nonfinite", "A": [[repr(x) for x in row] for row in Am], "key": 1, "budgets": [1, 2, 3, 5]}
        case0["A"] = M.tolist()
        for k in case0["budgets"]:
            ctx.case({"what": "nonfinite", "A": str(Am), "budget": k}, f"nonfinite:{Am}:{k}")
            ctx.count("op:non-finite")
            r = _impl(lambda: operator_norm(A, maxiter=k, key=G.make_key(1)))
            with np.errstate(all="ignore"):
                m = _model(model, "opnorm", A=rows(M), v0=fs2b(v0), maxiter=int(k))
            if r[0] == "err" or m[0] == "err":
                ctx.disagree("estim.opnorm.reject", {**case0, "budget": k}, list(map(str, r)), list(map(str, m)), oracle=oracle)
                continue
            est, mest = _scalar(r[1]), b2f(m[1])
            ctx.count("nonfinite:" + ("nan" if math.isnan(mest) else "inf" if math.isinf(mest) else "finite"))
            if est is None or not _rel(est, mest, 8 * k):
                ctx.disagree("estim.opnorm", {**case0, "budget": k}, est if est is not None else str(r[1]), mest, oracle=oracle)
        bad = oracle_nonfinite(case0)
        if bad is not None:
            ctx.disagree("estim.opnorm.property", case0, bad, None, oracle=oracle)


def oracle_nonsym(case):
    """C17_rayleigh_abs_le_opNorm on the real code: |mu| <= ||B||_2 for any (non-symmetric) real square B, every budget"""
    import scico.numpy as snp
    from scico.linop import MatrixOperator, power_iteration

    Bm = np.asarray(case["B"], dtype=np.float64)
    B = MatrixOperator(snp.array(Bm))
    nB = float(np.linalg.norm(Bm, 2))
    for k in case["budgets"]:
        r = _impl(lambda: power_iteration(B, maxiter=k, key=G.make_key(case.get("key"))))
        if r[0] == "err":
            return {"why": "power_iteration raised", "maxiter": k, "error": r[2]}
        mu = complex(np.asarray(r[1][0]))
        if abs(mu) > nB * (1 + 1e-9) + 1e-300:
            return {"why": "|mu| exceeds the induced 2-norm of the operator", "maxiter": k, "mu": str(mu), "norm": nB, "B": Bm.tolist()}
    return None


ORACLES["nonsym"] = oracle_nonsym


def check_nonsymmetric(ctx, model, n):
    """power_iteration accepts any LinearOperator: random real non-symmetric square matrices (the Rayleigh quotient is real) against
    the model's loop, and the two-sided bound"""
    import scico.numpy as snp
    from scico.linop import MatrixOperator, power_iteration

    rng = ctx.rng
    for _ in range(n):
        d = int(rng.integers(1, 4))
        Bm = common.dyadic(rng, (d, d), bits=2, scale=3.0)
        key = [None, 1, 2][int(rng.integers(0, 3))]
        B = MatrixOperator(snp.array(Bm))
        v0 = G.realview_vec(G.start_vector(B, key))
        case0 = {"what": "nonsym", "B": Bm.tolist(), "key": key, "budgets": [1, 2, 3, 5, 10]}
        ctx.count("op:non-symmetric")
        for k in case0["budgets"]:
            ctx.case({"what": "nonsym", "n": d, "budget": k}, json.dumps([Bm.tolist(), key, k]))
            r = _impl(lambda: power_iteration(B, maxiter=k, key=G.make_key(key)))
            m = _model(model, "power", B=rows(Bm), v0=fs2b(v0), maxiter=int(k))
            if r[0] == "err" or m[0] == "err":
                ctx.disagree("estim.power.reject", {**case0, "budget": k}, list(map(str, r)), list(map(str, m)), oracle=oracle)
                continue
            mu, v = r[1]
            mu = complex(np.asarray(mu))
            if mu.real == 0.0 and b2f(m[1]["mu"]) == 0.0:
                ctx.count("branch:zero-exit")
            okk = abs(mu.imag) == 0 and _rel(mu.real, b2f(m[1]["mu"]), 64 * k) and common.allclose(np.asarray(v), common.b2fs(m[1]["v"]), 64 * k, 1e-8)
            if not okk:
                # the iterate of a non-normal matrix can be ill-conditioned: a near-cancelling Rayleigh quotient ends the comparison
                if abs(mu.real) <= 1e-6 * float(np.linalg.norm(Bm, 2)):
                    ctx.count("nonsym:discarded-near-zero-quotient")
                    break
                ctx.disagree("estim.power", {**case0, "budget": k}, {"mu": str(mu), "v": np.asarray(v).tolist()},
                             {"mu": b2f(m[1]["mu"]), "v": common.b2fs(m[1]["v"])}, oracle=oracle)
                break
        bad = oracle_nonsym(case0)
        if bad is not None:
            ctx.disagree("estim.power.property", case0, bad, None, oracle=oracle)


def oracle_complexpower(case):
    """C17_power_complex on the real code: |mu| <= ||B||_2 for a complex (non-Hermitian) square B; mu real when B is Hermitian"""
    import scico.numpy as snp
    from scico.linop import MatrixOperator, power_iteration

    Bm = np.asarray(case["Bre"], dtype=np.float64) + 1j * np.asarray(case["Bim"], dtype=np.float64)
    B = MatrixOperator(snp.array(Bm))
    nB = float(np.linalg.norm(Bm, 2))
    herm = bool(np.array_equal(Bm, Bm.conj().T))
    for k in case["budgets"]:
        r = _impl(lambda: power_iteration(B, maxiter=k, key=G.make_key(case.get("key"))))
        if k < 1:
            if not (r[0] == "err" and r[1] == "value"):
                return {"why": "maxiter < 1 is not rejected with ValueError", "got": str(r)}
            continue
        if r[0] == "err":
            return {"why": "power_iteration raised", "maxiter": k, "error": r[2]}
        mu = complex(np.asarray(r[1][0]))
        if abs(mu) > nB * (1 + 1e-9) + 1e-300:
            return {"why": "|mu| exceeds the induced 2-norm of the complex operator", "maxiter": k, "mu": str(mu), "norm": nB}
        if herm and abs(mu.imag) > 1e-12 * nB:
            return {"why": "Rayleigh quotient of a Hermitian operator is not real", "maxiter": k, "mu": str(mu)}
    return None


ORACLES["complexpower"] = oracle_complexpower


def check_complexpower(ctx, model, n):
    """power_iteration on complex square matrices, Hermitian or not (complex `mu`), against `powerIterationC` at Float: complex
    value and vector for every budget of the ladder, `maxiter = 0`, and the bound |mu| <= ||B||"""
    import scico.numpy as snp
    from scico.linop import MatrixOperator, power_iteration

    rng = ctx.rng
    fixed = [([[0.0, 1.0], [0.0, 0.0]], [[0.0, 0.0], [0.0, 0.0]]), ([[0.0]], [[1.0]]), ([[1.0, 0.0], [0.0, 2.0]], [[0.0, 1.0], [-1.0, 0.0]]),
             ([[0.0, 0.0], [0.0, 0.0]], [[0.0, 0.0], [0.0, 0.0]])]
    for i in range(n + len(fixed)):
        if i < len(fixed):
            Bre, Bim = (np.asarray(a, dtype=np.float64) for a in fixed[i])
        else:
            d = int(rng.integers(1, 4))
            Bre, Bim = common.dyadic(rng, (d, d), bits=2, scale=3.0), common.dyadic(rng, (d, d), bits=2, scale=3.0)
            if rng.integers(0, 4) == 0:  # Hermitian
                Bre, Bim = (Bre + Bre.T) / 2.0, (Bim - Bim.T) / 2.0
        key = [None, 1, 2][i % 3]
        Bm = Bre + 1j * Bim
        B = MatrixOperator(snp.array(Bm))
        v0 = np.asarray(G.start_vector(B, key))
        case0 = {"what": "complexpower", "Bre": Bre.tolist(), "Bim": Bim.tolist(), "key": key, "budgets": [0, 1, 2, 3, 5, 10]}
        ctx.count("op:complex-hermitian" if np.array_equal(Bm, Bm.conj().T) else "op:complex-non-hermitian")
        for k in case0["budgets"]:
            ctx.case({"what": "complexpower", "n": int(Bre.shape[0]), "budget": k}, None if k < 1 else json.dumps([Bre.tolist(), Bim.tolist(), key, k]))
            r = _impl(lambda: power_iteration(B, maxiter=k, key=G.make_key(key)))
            m = _model(model, "powerc", Bre=rows(Bre), Bim=rows(Bim), vre=fs2b(v0.real), vim=fs2b(v0.imag), maxiter=int(k))
            if r[0] == "err" or m[0] == "err":
                if not (r[0] == "err" and m[0] == "err" and r[1] == m[1]):
                    ctx.disagree("estim.powerc.reject", {**case0, "budget": k}, list(map(str, r)), list(map(str, m)), oracle=oracle)
                continue
            mu, v = r[1]
            mu = complex(np.asarray(mu))
            v = np.asarray(v)
            mmu = complex(*common.b2fs(m[1]["mu"]))
            mv = np.asarray(common.b2fs(m[1]["vre"])) + 1j * np.asarray(common.b2fs(m[1]["vim"]))
            if mu == 0 and mmu == 0:
                ctx.count("branch:zero-exit")
            scale = float(np.linalg.norm(Bm, 2))
            okk = abs(mu - mmu) <= 64e-9 * k * max(scale, 1e-300) and np.allclose(v, mv, rtol=0, atol=64e-8 * k)
            if not okk:
                ctx.disagree("estim.powerc", {**case0, "budget": k}, {"mu": str(mu), "v": str(v.tolist())}, {"mu": str(mmu), "v": str(mv.tolist())}, oracle=oracle)
                break
        bad = oracle_complexpower(case0)
        if bad is not None:
            ctx.disagree("estim.powerc.property", case0, bad, None, oracle=oracle)


# --------------------------------------------------------------------------
# default precision (no jax_enable_x64): float32 / complex64 operators in a worker subprocess


def _f32_worker(items):
    import subprocess
    import sys

    p = subprocess.run([sys.executable, str(common.VERIF / "harness" / "estim_f32_worker.py")],
                       input=json.dumps({"repo": str(common.REPO), "items": items}), capture_output=True, text=True, timeout=900)
    if p.returncode != 0:
        raise common.Infra("estim_f32_worker failed: " + p.stderr[-800:])
    return json.loads(p.stdout.strip().splitlines()[-1])["results"]


_BITS64 = ("float64", "complex128")


def _f32_property(item, rec, base_rec=None):
    """the property clauses on one default-precision record (single-precision tolerances)"""
    desc = item["desc"]
    M = G.dense(desc)
    smax = float(np.linalg.norm(M, 2)) if M.size else 0.0
    if rec.get("construct_raised"):
        return {"why": "default precision (no x64): building the operator raised", "error": rec["construct_raised"]}
    prev = None
    for e in rec["opnorm"]:
        if e.get("raised"):
            return {"why": "default precision: operator_norm raised on a float32/complex64 operator", "maxiter": e["k"], "error": e["raised"]}
        if e["dtype"] in _BITS64 or e["dtype"].startswith("complex"):
            return {"why": "default precision: operator_norm is not a real 32-bit value", "dtype": e["dtype"]}
        est = e["v"]
        if est is None or math.isnan(est):
            return {"why": "default precision: estimate is not a number", "maxiter": e["k"]}
        if est > smax * (1 + 1e-4) + 1e-30:
            return {"why": "default precision: estimate exceeds the exact induced 2-norm", "maxiter": e["k"], "estimate": est, "exact": smax}
        if smax == 0.0 and est != 0.0:
            return {"why": "default precision: estimate of the zero operator is not exactly 0", "estimate": est}
        if prev is not None and est < prev * (1 - 1e-4):
            return {"why": "default precision: estimate decreased when the budget grew", "estimates": [prev, est]}
        prev = est
    if desc.get("flavour") == "gapped" and item["budgets"][-1] >= 60 and abs(prev - smax) > 1e-3 * smax:
        return {"why": "default precision: estimate did not converge to the separated largest singular value", "estimate": prev, "exact": smax}
    pw = rec["power"]
    if pw.get("raised"):
        return {"why": "default precision: power_iteration raised", "error": pw["raised"]}
    if pw["dtype"] in _BITS64 or pw["v_dtype"] in _BITS64:
        return {"why": "default precision: power_iteration returns 64-bit values", "dtypes": [pw["dtype"], pw["v_dtype"]]}
    if smax > 0 and prev > 0 and abs(pw["v_norm"] - 1.0) > 1e-4:
        return {"why": "default precision: returned vector is not a unit vector", "norm": pw["v_norm"]}
    c = prev
    if c > 0:
        pd, pa = rec["pdhg"], rec["padmm"]
        if pd.get("raised") or pa.get("raised"):
            return {"why": "default precision: estimate_parameters raised", "error": pd.get("raised") or pa.get("raised")}
        tau, sigma, mu, nu = pd["tau"]["v"], pd["sigma"]["v"], pa["mu"]["v"], pa["nu"]["v"]
        if any(d in _BITS64 for d in (pd["tau"]["dtype"], pd["sigma"]["dtype"], pa["mu"]["dtype"], pa["nu"]["dtype"])):
            return {"why": "default precision: estimate_parameters returns 64-bit values"}
        if not tau * sigma * c * c < 1.0 or not _rel(tau * sigma * c * c, 1 / 1.01, 1, 1e-4) or not _rel(sigma, tau, 1, 1e-6):
            return {"why": "default precision: PDHG defaults violate tau*sigma*c^2 = 1/1.01 < 1, sigma = tau", "tau": tau, "sigma": sigma, "c": c}
        if not mu > c * c or not _rel(mu, 1.01 * c * c, 1, 1e-4) or not _rel(nu, 1.01, 1, 1e-4):
            return {"why": "default precision: ProximalADMM defaults violate mu = 1.01 c_A^2 > c_A^2, nu = 1.01", "mu": mu, "nu": nu, "c": c}
    for o, e in rec.get("norms", {}).items():
        if e.get("raised"):
            return {"why": "default precision: norm raised for a valid order", "ord": o, "error": e["raised"]}
        oo = None if o == "None" else (o if o in ("fro", "nuc") else float(o))
        oo = int(oo) if isinstance(oo, float) and math.isfinite(oo) else oo
        want = float(np.linalg.norm(M, oo))
        # (orders computed from singular values: tolerance relative to the largest one — a vanishing singular value is 1e-8·smax
        #  at single precision and 1e-16·smax at double precision)
        if e["dtype"] in _BITS64 or not (abs(e["v"] - want) <= 1e-5 * max(smax, abs(want))):
            return {"why": "default precision: closed-form / matrix norm differs from numpy (float32 tolerance) or is 64-bit", "ord": o, "got": e["v"], "numpy": want, "dtype": e["dtype"]}
    if base_rec is not None and not base_rec.get("construct_raised"):
        f = 2.0 ** desc["scale_k"]
        for e, b in zip(rec["opnorm"], base_rec["opnorm"]):
            if b.get("v") and not _rel(e["v"], f * b["v"], 1, 1e-6):
                return {"why": "default precision: operator_norm is not scale-equivariant within the float32 range", "k": desc["scale_k"], "scaled": e["v"], "base": b["v"]}
    return None


def oracle_f32(case):
    items = [case["item"]] + ([case["base_item"]] if case.get("base_item") else [])
    recs = _f32_worker(items)
    return _f32_property(case["item"], recs[0], recs[1] if len(recs) > 1 else None)


ORACLES["f32"] = oracle_f32


def check_default_precision(ctx, n):
    """the library's DEFAULT precision mode (worker subprocess without jax_enable_x64): operators built from float32 / complex64
    arrays (Identity / ScaledIdentity with the dtype omitted), budgets 1, 3, 20, 60, keys None / 1, and the same operators
    times 2^k, |k| <= 12 (inside the float32 range also for the squares of the Gram operator): every property clause at single-precision tolerance"""
    rng = ctx.rng
    kinds = ["diag-real", "diag-complex", "matrix-real", "matrix-complex", "rank-one", "zero", "scaled-identity", "identity", "gapped"]
    items = []
    for i in range(n):
        d = G.gen_operator(rng, kinds[i % len(kinds)])
        items.append({"desc": d, "key": [None, 1][i % 2], "budgets": [1, 3, 20, 60]})
    pairs = []
    for i in range(max(4, n // 3)):
        b = G.gen_operator(rng, ["diag-real", "matrix-real", "matrix-complex", "scaled-identity"][i % 4])
        sc = G.scaled(b, [-12, -6, 6, 12][i % 4])  # (c·2^-30)^4 underflows at float32 (XLA flushes denormals): outside
        pairs.append((len(items), len(items) + 1))
        items.append({"desc": b, "key": 1, "budgets": [1, 3, 20]})
        items.append({"desc": sc, "key": 1, "budgets": [1, 3, 20]})
    recs = _f32_worker(items)
    base_of = {j: i for i, j in pairs}
    for j, (it, rec) in enumerate(zip(items, recs)):
        ctx.case({"what": "f32", "kind": it["desc"].get("flavour", it["desc"]["kind"]), "key": it["key"]}, "f32:" + json.dumps(it, sort_keys=True))
        ctx.count("f32:" + it["desc"].get("flavour", it["desc"]["kind"]))
        base = recs[base_of[j]] if j in base_of else None
        bad = _f32_property(it, rec, base)
        if bad is not None:
            case = {"what": "f32", "item": it, **({"base_item": items[base_of[j]]} if j in base_of else {})}
            ctx.violation({"kind": "failing-input", "case": case, "failing": bad}, True, "estim.f32: property fails on the implementation")


def check_pdhg(ctx, model, case):
    import scico.numpy as snp
    from scico.optimize import PDHG

    desc = case["desc"]
    C = G.build_operator(desc)
    kw = dict(ratio=case["ratio"], maxiter=case["maxiter"], key=G.make_key(case.get("key")), **_factor_arg(case["factor"]))
    if desc["kind"] == "jacobian" and not case.get("default_point"):
        kw["x"] = snp.array(np.asarray(desc["u"], dtype=np.float64))
    elif desc["kind"] == "jacobian":
        ctx.count("pdhg:jacobian-at-default-x")
    r = _impl(lambda: PDHG.estimate_parameters(C, **kw))
    J = G.linear_of(desc)
    M = G.dense(desc)
    v0 = G.realview_vec(G.start_vector(J, case.get("key")))
    mc = _model(model, "opnorm", A=rows(G.realview_mat(M)), v0=fs2b(v0), maxiter=int(case["maxiter"]))
    nt = None if (case["maxiter"] < 1 or not M.any()) else json.dumps(case, sort_keys=True)
    ctx.case({k: case[k] for k in ("what", "ratio", "factor", "maxiter", "key")} | {"kind": desc["kind"]}, nt)
    ctx.count(f"pdhg:factor={case['factor']}")
    if r[0] == "err" or mc[0] == "err":
        if not (r[0] == "err" and mc[0] == "err" and r[1] == mc[1]):
            ctx.disagree("estim.pdhg.reject", case, list(map(str, r)), list(map(str, mc)), oracle=oracle)
        return
    c = b2f(mc[1])
    fac = 1.01 if case["factor"] == "default" else case["factor"]
    m = model.call("pdhg", c=f2b(c), ratio=f2b(case["ratio"]), factor=None if fac is None else f2b(fac))
    tau, sigma = (_scalar(v) for v in r[1])
    mt, ms = b2f(m[0]), b2f(m[1])
    if not (_rel(tau, mt, 64) and _rel(sigma, ms, 64)):
        ctx.disagree("estim.pdhg", case, [tau, sigma], [mt, ms], oracle=oracle)
        return
    bad = oracle_pdhg(case)
    if bad is not None:
        ctx.disagree("estim.pdhg.property", case, bad, None, oracle=oracle)


def check_padmm(ctx, model, case):
    from scico.optimize import ProximalADMM

    A = G.linear_of(case["A"])
    B = None if case["B"] is None else G.linear_of(case["B"])
    kw = dict(maxiter=case["maxiter"], key=G.make_key(case.get("key")), **_factor_arg(case["factor"]))
    r = _impl(lambda: ProximalADMM.estimate_parameters(A, B, **kw))
    MA = G.dense(case["A"])
    MB = -np.eye(MA.shape[0], dtype=MA.dtype) if case["B"] is None else G.dense(case["B"])
    ctx.case({k: case[k] for k in ("what", "factor", "maxiter", "key")} | {"A": case["A"]["kind"], "B": None if case["B"] is None else case["B"]["kind"]},
             None if case["maxiter"] < 1 else json.dumps(case, sort_keys=True))
    ctx.count(f"padmm:factor={case['factor']}")
    ctx.count("padmm:B=None" if case["B"] is None else "padmm:B given")
    cs = []
    for M, op in ((MA, A), (MB, B)):
        if op is None:
            from scico.linop import Identity

            op = -Identity(A.output_shape, A.output_dtype)
        v0 = G.realview_vec(G.start_vector(op, case.get("key")))
        cs.append(_model(model, "opnorm", A=rows(G.realview_mat(M)), v0=fs2b(v0), maxiter=int(case["maxiter"])))
    if r[0] == "err" or any(c[0] == "err" for c in cs):
        if not (r[0] == "err" and all(c[0] == "err" and c[1] == r[1] for c in cs)):
            ctx.disagree("estim.padmm.reject", case, list(map(str, r)), [list(map(str, c)) for c in cs], oracle=oracle)
        return
    fac = 1.01 if case["factor"] == "default" else case["factor"]
    m = model.call("padmm", cA=cs[0][1], cB=cs[1][1], factor=None if fac is None else f2b(fac))
    mu, nu = (_scalar(v) for v in r[1])
    if not (_rel(mu, b2f(m[0]), 64) and _rel(nu, b2f(m[1]), 64)):
        ctx.disagree("estim.padmm", case, [mu, nu], [b2f(m[0]), b2f(m[1])], oracle=oracle)
        return
    bad = oracle_padmm(case)
    if bad is not None:
        ctx.disagree("estim.padmm.property", case, bad, None, oracle=oracle)


def _nl_build(case):
    """H(x,z) = A sin(x) + B (z * w(x)) [+ A (x * z * z)],  w = cos(x) and the last term when `coupled` (needs n == p), else w = 1:
    J_x = A diag(cos x) - B diag(z sin x) + A diag(z^2),  J_z = B diag(cos x) + A diag(2 x z) — both Jacobians depend on both
    arguments, also at x = 0 or z = 0 (so that replacing one supplied argument by zeros is visible).
    `case["x"]`, `case["z"]` are the *documented* evaluation point: the supplied value, zeros for an omitted argument."""
    import scico.numpy as snp
    from scico.function import Function

    A = np.asarray(case["A"], dtype=np.float64)
    B = np.asarray(case["B"], dtype=np.float64)
    x = np.asarray(case["x"], dtype=np.float64)
    z = np.asarray(case["z"], dtype=np.float64)
    m, n = A.shape
    p = B.shape[1]
    As, Bs = snp.array(A), snp.array(B)
    if case["coupled"]:
        fn = lambda x, z: As @ snp.sin(x) + Bs @ (z * snp.cos(x)) + As @ (x * z * z)  # noqa: E731
        Jx = A @ np.diag(np.cos(x)) - B @ np.diag(z * np.sin(x)) + A @ np.diag(z * z)
        Jz = B @ np.diag(np.cos(x)) + A @ np.diag(2.0 * x * z)
    else:
        fn = lambda x, z: As @ snp.sin(x) + Bs @ z  # noqa: E731
        Jx = A @ np.diag(np.cos(x))
        Jz = B
    H = Function(((n,), (p,)), output_shape=(m,), eval_fn=fn, input_dtypes=np.float64, output_dtype=np.float64)
    return H, Jx, Jz, x, z


def _nl_given(case):
    """which of x, z are passed (older replays: `default_point` = neither)"""
    if "give" in case:
        return bool(case["give"][0]), bool(case["give"][1])
    d = not case.get("default_point", False)
    return d, d


def _nl_call(case):
    import scico.numpy as snp
    from scico.optimize import NonLinearPADMM

    H, Jx, Jz, x, z = _nl_build(case)
    kw = dict(maxiter=case["maxiter"], key=G.make_key(case["key"]), **_factor_arg(case["factor"]))
    give_x, give_z = _nl_given(case)
    if give_x:
        kw["x"] = snp.array(x)
    if give_z:
        kw["z"] = snp.array(z)
    return _impl(lambda: NonLinearPADMM.estimate_parameters(H, **kw)), Jx, Jz


def oracle_nlpadmm(case):
    """mu, nu against the norm estimates (by the implementation's own operator_norm, same budget and key) of the
    *documented* Jacobians J_x H(x,z), J_z H(x,z), given as dense matrices"""
    import scico.numpy as snp
    from scico.linop import MatrixOperator, operator_norm

    r, Jx, Jz = _nl_call(case)
    if case["maxiter"] < 1:
        return None if (r[0] == "err" and r[1] == "value") else {"why": "maxiter < 1 not rejected", "got": str(r)}
    if r[0] == "err":
        return {"why": "estimate_parameters raised", "error": r[2]}
    mu, nu = (_scalar(v) for v in r[1])
    cs = [_scalar(operator_norm(MatrixOperator(snp.array(J)), maxiter=case["maxiter"], key=G.make_key(case["key"]))) for J in (Jx, Jz)]
    fac = 1.01 if case["factor"] == "default" else (1.0 if case["factor"] is None else case["factor"])
    out = {"mu": mu, "nu": nu, "norm_estimate_Jx": cs[0], "norm_estimate_Jz": cs[1], "factor": case["factor"], "Jx": Jx.tolist(), "Jz": Jz.tolist()}
    if not (_rel(mu, fac * cs[0] ** 2, 64) and _rel(nu, fac * cs[1] ** 2, 64)):
        return {"why": "mu, nu are not factor * (norm estimate of J_x H(x,z), J_z H(x,z))^2", **out}
    if fac > 1 and ((cs[0] > 0 and not mu > cs[0] ** 2) or (cs[1] > 0 and not nu > cs[1] ** 2)):
        return {"why": "mu > ||J_x||^2 / nu > ||J_z||^2 violated", **out}
    return None


ORACLES["nlpadmm"] = oracle_nlpadmm


def check_nlpadmm(ctx, model, rng, fixed=None):
    """NonLinearPADMM.estimate_parameters on H(x,z) = A sin(x) + B (z*w(x)) [+ A(x z^2)] with known partial Jacobians; each of
    x, z is supplied or omitted independently (the documented point has zeros for an omitted argument only)"""
    import scico.random

    if fixed is not None:
        case = fixed
        A, B = np.asarray(case["A"]), np.asarray(case["B"])
        (m, n), p = A.shape, B.shape[1]
        factor, maxiter, key, coupled = case["factor"], case["maxiter"], case["key"], case["coupled"]
    else:
        m, n = int(rng.integers(1, 4)), int(rng.integers(1, 4))
        coupled = bool(rng.integers(0, 3) > 0)
        p = n if coupled else int(rng.integers(1, 4))
        A = common.dyadic(rng, (m, n), bits=2, scale=3.0)
        B = common.dyadic(rng, (m, p), bits=2, scale=3.0)
        x = common.dyadic(rng, (n,), bits=2, scale=1.5)
        z = common.dyadic(rng, (p,), bits=2, scale=1.5)
        factor = ["default", None, 1.5, 2.0][int(rng.integers(0, 4))]
        maxiter = int([0, 1, 3, 20, 40][int(rng.integers(0, 5))])
        key = [None, 1, 2][int(rng.integers(0, 3))]
        give = [bool(rng.integers(0, 2)), bool(rng.integers(0, 2))]
        if not give[0]:
            x = np.zeros(n)
        if not give[1]:
            z = np.zeros(p)
        case = {"what": "nlpadmm", "A": A.tolist(), "B": B.tolist(), "x": x.tolist(), "z": z.tolist(), "factor": factor,
                "maxiter": maxiter, "key": key, "give": give, "coupled": coupled}
    ctx.case({"what": "nlpadmm", "factor": factor, "maxiter": maxiter, "coupled": coupled, "give": list(_nl_given(case))},
             None if maxiter < 1 else json.dumps(case, sort_keys=True))
    ctx.count(f"nlpadmm:factor={factor}")
    ctx.count("nlpadmm:coupled" if coupled else "nlpadmm:separable")
    ctx.count("nlpadmm:x=%s,z=%s" % tuple("given" if g else "None" for g in _nl_given(case)))
    r, Jx, Jz = _nl_call(case)
    cs = []
    for M, nn in ((Jx, n), (Jz, p)):
        v0 = np.asarray(scico.random.randn(shape=(nn,), key=G.make_key(key), dtype=np.float64)[0])
        cs.append(_model(model, "opnorm", A=rows(M), v0=fs2b(v0), maxiter=maxiter))
    if r[0] == "err" or any(c[0] == "err" for c in cs):
        if not (r[0] == "err" and all(c[0] == "err" and c[1] == r[1] for c in cs)):
            ctx.disagree("estim.nlpadmm.reject", case, list(map(str, r)), [list(map(str, c)) for c in cs], oracle=oracle)
        return
    fac = 1.01 if factor == "default" else factor
    mres = model.call("padmm", cA=cs[0][1], cB=cs[1][1], factor=None if fac is None else f2b(fac))
    mu, nu = (_scalar(v) for v in r[1])
    if not (_rel(mu, b2f(mres[0]), 64) and _rel(nu, b2f(mres[1]), 64)):
        ctx.disagree("estim.nlpadmm", case, [mu, nu], [b2f(mres[0]), b2f(mres[1])], oracle=oracle)
        return
    bad = oracle_nlpadmm(case)
    if bad is not None:
        ctx.disagree("estim.nlpadmm.property", case, bad, None, oracle=oracle)


def check_diagnorm(ctx, model, case):
    D = _build_diag(case)
    o = ord_from_json(case["ord"])
    r = _impl(lambda: D.norm(o))
    full = _full_diag(case)
    if not _square(case):
        m = _model(model, "diagnorm", ord=case["ord"], d=fs2b(np.asarray(case["dre"], dtype=np.float64)), square=False)
    elif np.iscomplexobj(full):
        m = _model(model, "diagnorm", ord=case["ord"], re=fs2b(full.real), im=fs2b(full.imag))
    else:
        m = _model(model, "diagnorm", ord=case["ord"], d=fs2b(full), square=True)
    valid = case["ord"] in [ord_wire(v) for v in ORDS_VALID]
    ctx.case(case, json.dumps(case, sort_keys=True) if valid else None)
    ctx.count(f"diagnorm:{case['form']}:{'valid' if valid else 'invalid'}")
    ctx.count(f"ord:{case['ord']}")
    if r[0] == "err" or m[0] == "err":
        if not (r[0] == "err" and m[0] == "err" and r[1] == m[1]):
            ctx.disagree("estim.diagnorm.reject", case, list(map(str, r)), list(map(str, m)), oracle=oracle)
        return
    got = _scalar(r[1])
    if got is None or not _rel(got, b2f(m[1]), 16, 1e-9):
        ctx.disagree("estim.diagnorm", case, got if got is not None else str(r[1]), b2f(m[1]), oracle=oracle)
        return
    if case["ord"] in (2, -2, "nuc"):
        # the closed form against `svNorm` on the singular values |d| of the diagonal matrix
        ms = model.call("svnorm", ord=case["ord"], s=fs2b(np.abs(full)))
        ctx.count("diagnorm:vs-singular-values")
        if ms is None or not _rel(got, b2f(ms), 16, 1e-9):
            ctx.disagree("estim.diagnorm.sv", case, got, None if ms is None else b2f(ms), oracle=oracle)


def check_sidnorm(ctx, model, case):
    S = _build_sid(case)
    o = ord_from_json(case["ord"])
    r = _impl(lambda: S.norm(o))
    c = case["cre"] + 1j * case["cim"] if case.get("cim") is not None else case["cre"]
    m = _model(model, "sidnorm", ord=case["ord"], ac=f2b(abs(c)), N=int(S.input_size))
    valid = case["ord"] in [ord_wire(v) for v in ORDS_VALID]
    ctx.case(case, json.dumps(case, sort_keys=True) if valid else None)
    ctx.count(f"sidnorm:{'nested' if case.get('nested') else 'plain'}:{'valid' if valid else 'invalid'}")
    if r[0] == "err" or m[0] == "err":
        if not (r[0] == "err" and m[0] == "err" and r[1] == m[1]):
            ctx.disagree("estim.sidnorm.reject", case, list(map(str, r)), list(map(str, m)), oracle=oracle)
        return
    got = _scalar(r[1])
    if got is None or not _rel(got, b2f(m[1]), 16, 1e-9):
        ctx.disagree("estim.sidnorm", case, got if got is not None else str(r[1]), b2f(m[1]), oracle=oracle)


def check_matnorm(ctx, model, M):
    """MatrixOperator.norm(ord): the entrywise orders against the model (= spec of the closed forms), all orders against numpy"""
    import scico.numpy as snp
    from scico.linop import MatrixOperator

    A = MatrixOperator(snp.array(M))
    for o in ORDS_VALID:
        case = {"what": "matnorm", "M": np.asarray(M).tolist() if not np.iscomplexobj(M) else [np.asarray(M).real.tolist(), np.asarray(M).imag.tolist()], "ord": ord_wire(o)}
        ctx.case({"what": "matnorm", "shape": list(M.shape), "ord": ord_wire(o)}, json.dumps(case, sort_keys=True))
        ctx.count(f"matnorm:ord={ord_wire(o)}")
        got = _scalar(A.norm(o))
        want = float(np.linalg.norm(M, o))
        if not _rel(got, want, 16, 1e-9):
            ctx.violation({"kind": "failing-input", "case": case, "failing": {"why": "MatrixOperator.norm differs from numpy's matrix norm", "got": got, "numpy": want}}, True,
                          "estim.matnorm: property fails on the implementation")
            continue
        mm = model.call("matnorm", ord=ord_wire(o), rows=rows(np.abs(M)))
        if mm is not None and not _rel(got, b2f(mm), 16, 1e-9):
            ctx.disagree("estim.matnorm", case, got, b2f(mm))
        if mm is None:
            # orders computed from the singular values: the SVD itself is the contract (numpy), `svNorm` the model
            sv = np.linalg.svd(np.asarray(M), compute_uv=False)
            ms = model.call("svnorm", ord=ord_wire(o), s=fs2b(sv))
            ctx.count("matnorm:svd-orders(model on numpy's singular values)")
            if ms is None or not _rel(got, b2f(ms), 16, 1e-9):
                ctx.disagree("estim.matnorm.sv", {**case, "singular_values": sv.tolist()}, got, None if ms is None else b2f(ms))
    # vector norms along an axis / keepdims are forwarded unchanged (numpy is the reference)
    for axis in (0, 1):
        for o in (None, 1, 2, np.inf):
            for keep in (False, True):
                got = np.asarray(A.norm(o, axis=axis, keepdims=keep))
                want = np.linalg.norm(M, o, axis=axis, keepdims=keep)
                ctx.case({"what": "matnorm-axis", "shape": list(M.shape), "ord": ord_wire(o), "axis": axis, "keepdims": keep}, None)
                ctx.count("matnorm:axis")
                if got.shape != want.shape or not common.allclose(got, want, 16, 1e-9):
                    ctx.violation({"kind": "failing-input", "case": {"what": "matnorm-axis", "M": str(np.asarray(M).tolist()), "ord": ord_wire(o), "axis": axis, "keepdims": keep},
                                   "failing": {"why": "MatrixOperator.norm(axis=...) differs from numpy", "got": got.tolist(), "numpy": want.tolist()}}, True,
                                  "estim.matnorm: property fails on the implementation")


ORD_VARIANTS = [(1.0, 1), (2.0, 2), (-1.0, -1), (-2.0, -2), (True, 1), (np.int64(2), 2), (np.float32(1.0), 1), (2 + 0j, 2),
                (float("inf"), np.inf), (np.float64(-np.inf), -np.inf), (1.5, None), (0.0, None), (False, None)]


def check_ord_variants(ctx, model):
    """`ord` given as a float / bool / numpy scalar / complex equal to a valid order: the code compares with `==`, so the result
    must be that of the integer order (Diagonal, ScaledIdentity, MatrixOperator); non-integral or zero values are rejected by
    Diagonal and ScaledIdentity (`ValueError`; MatrixOperator forwards to jnp.linalg.norm)"""
    import scico.numpy as snp
    from scico.linop import Diagonal, MatrixOperator, ScaledIdentity

    d = np.array([1.0, -3.0, 2.0])
    Mm = np.array([[1.0, 2.0], [3.0, -4.0], [0.0, 1.0]])
    ops = [("diag", Diagonal(snp.array(d)), lambda w: _model(model, "diagnorm", ord=w, d=fs2b(d), square=True)),
           ("sid", ScaledIdentity(-2.0, (3,), input_dtype=np.float64), lambda w: _model(model, "sidnorm", ord=w, ac=f2b(2.0), N=3)),
           ("mat", MatrixOperator(snp.array(Mm)), None)]
    for o, canon in ORD_VARIANTS:
        w = ord_wire(o)
        for name, op, mfn in ops:
            case = {"what": "ord-variant", "op": name, "ord": repr(o), "canonical": None if canon is None else ord_wire(canon)}
            ctx.case(case, f"ordvariant:{name}:{o!r}")
            ctx.count(f"ord-variant:{'valid' if canon is not None else 'invalid'}")
            r = _impl(lambda: op.norm(o))
            if canon is None:
                if name != "mat" and not (r[0] == "err" and r[1] == "value"):
                    ctx.violation({"kind": "failing-input", "case": case, "failing": {"why": "a number that equals no valid order is accepted", "got": str(r)}}, True,
                                  "estim.ordvariant: property fails on the implementation")
                continue
            rc = _impl(lambda: op.norm(canon))
            if r[0] != "ok" or rc[0] != "ok" or _scalar(r[1]) != _scalar(rc[1]):
                ctx.violation({"kind": "failing-input", "case": case, "failing": {"why": "ord equal (==) to a valid order gives a different result", "got": str(r), "canonical": str(rc)}}, True,
                              "estim.ordvariant: property fails on the implementation")
                continue
            if mfn is not None:
                m = mfn(w)
                if m[0] != "ok" or not _rel(_scalar(r[1]), b2f(m[1]), 16, 1e-9):
                    ctx.disagree("estim.ordvariant", case, _scalar(r[1]), str(m))


def diag_cases(rng, n_random):
    out = []
    ords = [ord_wire(o) for o in ORDS_VALID] + [ord_wire(o) if not isinstance(o, str) else "other" for o in ORDS_INVALID]
    base = []
    base.append({"form": "plain", "dre": [1.0, -3.0, 2.0], "dshape": [3]})
    base.append({"form": "plain", "dre": [0.0, 0.5], "dshape": [2]})
    base.append({"form": "plain", "dre": [-2.0], "dshape": [1]})
    base.append({"form": "plain", "dre": [1.0, 2.0, -3.0, 4.0, 0.5, -6.0], "dshape": [2, 3]})
    base.append({"form": "plain", "dre": [3.0, 0.0], "dim": [4.0, -1.0], "dshape": [2]})
    base.append({"form": "broadcast", "dre": [1.0, -3.0, 2.0], "dshape": [3], "input_shape": [2, 3]})
    base.append({"form": "broadcast", "dre": [2.0], "dshape": [1], "input_shape": [4]})
    base.append({"form": "broadcast", "dre": [1.0, 2.0, 3.0, 4.0, 5.0, 6.0], "dshape": [2, 3], "input_shape": [3]})
    base.append({"form": "block", "blocks": [[1.0, -3.0], [[2.0, 0.5], [1.0, 1.0]]]})
    for _ in range(n_random):
        n = int(rng.integers(1, 6))
        c = {"form": "plain", "dre": common.dyadic(rng, (n,), bits=2, scale=4.0).tolist(), "dshape": [n]}
        if rng.integers(0, 3) == 0:
            c["dim"] = common.dyadic(rng, (n,), bits=2, scale=4.0).tolist()
        elif rng.integers(0, 3) == 0:
            c = {**c, "form": "broadcast", "input_shape": [int(rng.integers(2, 4)), n]}
        base.append(c)
    # the closed forms are scale-equivariant: the same diagonals times 2^-40 / 2^40 (compared relatively)
    for b in list(base[:6]) + list(base[9:12]):
        for k in (-40, 40):
            sb = dict(b)
            sb["dre"] = (np.asarray(b["dre"]) * 2.0 ** k).tolist()
            if b.get("dim") is not None:
                sb["dim"] = (np.asarray(b["dim"]) * 2.0 ** k).tolist()
            sb["scale_k"] = k
            base.append(sb)
    for b in base:
        for o in ords:
            out.append({"what": "diagnorm", **b, "ord": o})
    return out


def sid_cases(rng, n_random):
    out = []
    ords = [ord_wire(o) for o in ORDS_VALID] + [ord_wire(o) if not isinstance(o, str) else "other" for o in ORDS_INVALID]
    base = [
        {"cre": -2.0, "shape": [2, 3]},
        {"cre": 0.0, "shape": [3]},
        {"cre": 1.0, "cim": 2.0, "shape": [3]},
        {"cre": 2.0, "shape": [[2], [3]], "nested": True},
    ]
    for _ in range(n_random):
        base.append({"cre": float(common.dyadic(rng, (), bits=2, scale=4.0)), "shape": [int(rng.integers(1, 6))]})
    base.append({"cre": -3.0 * 2.0 ** -40, "shape": [3], "scale_k": -40})
    base.append({"cre": 1.5 * 2.0 ** 40, "cim": -2.0 * 2.0 ** 40, "shape": [2, 2], "scale_k": 40})
    for b in base:
        for o in ords:
            out.append({"what": "sidnorm", **b, "ord": o})
    return out


def _corpus():
    d = common.CORPUS_DIR / PROP
    out = []
    if d.exists():
        for p in sorted(d.glob("*.json")):
            out.append((p.name, json.loads(p.read_text())))
    return out


def run_case(ctx, model, case):
    w = case["what"]
    if w in ("opnorm", "power"):
        check_estimates(ctx, model, case["desc"], case.get("key"), case["budgets"], case.get("converged_check", False), case.get("base"))
    elif w == "pdhg":
        check_pdhg(ctx, model, case)
    elif w == "padmm":
        check_padmm(ctx, model, case)
    elif w == "nlpadmm":
        r = oracle_nlpadmm(case)
        if r is not None:
            ctx.disagree("estim.nlpadmm.property", case, r, None, oracle=oracle)
    elif w == "power-vector":
        r = oracle_power_vector(case)
        if r is not None:
            ctx.disagree("estim.power.vector", case, r, None, oracle=oracle)
    elif w == "f32":
        r = oracle_f32(case)
        if r is not None:
            ctx.violation({"kind": "failing-input", "case": case, "failing": r}, True, "estim.f32: property fails on the implementation")
    elif w == "complexpower":
        r = oracle_complexpower(case)
        if r is not None:
            ctx.disagree("estim.powerc.property", case, r, None, oracle=oracle)
    elif w == "nonsym":
        r = oracle_nonsym(case)
        if r is not None:
            ctx.disagree("estim.power.property", case, r, None, oracle=oracle)
    elif w == "nonfinite":
        r = oracle_nonfinite(case)
        if r is not None:
            ctx.disagree("estim.opnorm.property", case, r, None, oracle=oracle)
    elif w == "diagnorm":
        check_diagnorm(ctx, model, case)
    elif w == "sidnorm":
        check_sidnorm(ctx, model, case)
    else:
        raise common.Infra(f"unknown case kind {w}")


def correspond(ctx, model):
    common.setup_scico()
    rng = ctx.rng
    for name, c in _corpus():
        ctx.count("corpus")
        run_case(ctx, model, c.get("case", c))
    # -- estimates: budget ladders ------------------------------------------------
    ladder = [0, 1, 2, 3, 4, 6, 10, 20] + ([40] if ctx.thorough else [])
    fixed = [
        {"kind": "matrix-real", "A": [[0.0, 0.0], [0.0, 0.0]], "flavour": "zero"},
        {"kind": "matrix-real", "A": [[1.0, 2.0], [3.0, 4.0], [0.0, 1.0]]},
        {"kind": "diag-real", "d": [3.0, -1.0, 0.5]},
        {"kind": "scaled-identity", "c": -2.0, "n": 3},
        {"kind": "matrix-real", "A": [[2.0, 0.0], [0.0, 2.0]], "flavour": "degenerate"},
    ]
    for desc in fixed:
        check_estimates(ctx, model, desc, None, ladder)
    # separated largest singular value (ratio 1/4, 1/2 and 3/4): the estimate must have converged at budget 60/200
    for A_, top in (([[4.0, 0.0, 0.0], [0.0, 1.0, 0.0], [0.0, 0.0, 0.5]], 60), ([[0.0, -2.0], [1.0, 0.0]], 60),
                    ([[3.0, 0.0], [0.0, 4.0], [0.0, 0.0]], 200)):
        for key in (None, 1):
            check_estimates(ctx, model, {"kind": "matrix-real", "A": A_, "flavour": "gapped"}, key, ladder + [top], converged_check=True)
    check_nilpotent(ctx, model)
    check_nonfinite(ctx, model)
    check_nonsymmetric(ctx, model, ctx.n(16, 120))
    check_complexpower(ctx, model, ctx.n(16, 120))
    check_default_precision(ctx, ctx.n(27, 150))
    for i in range(ctx.n(60, 250)):
        desc = G.gen_operator(rng)
        key = [None, 0, 1, 2, 3][int(rng.integers(0, 5))]
        conv = desc.get("flavour") == "gapped"
        check_estimates(ctx, model, desc, key, ladder + ([60] if conv else []), converged_check=conv)
    # -- scale stream: the same operators times 2^k, k down to -40 and up to +40 (zero stays zero) ---------
    scale_ks = [-40, -30, -20, -15, -12, -8, -4, 8, 20, 40]
    short = [0, 1, 2, 5, 20]
    bases = [
        {"kind": "diag-real", "d": [2.0, 1.0, 0.5]},
        {"kind": "scaled-identity", "c": 3.0, "n": 3},
        {"kind": "matrix-real", "A": [[1.0, 2.0], [3.0, 4.0], [0.0, 1.0]]},
        {"kind": "matrix-real", "A": [[0.0, 0.0], [0.0, 0.0]], "flavour": "zero"},
    ]
    for b in bases:
        for k in scale_ks:
            check_estimates(ctx, model, G.scaled(b, k), None, short, base=b)
    for i in range(ctx.n(12, 80)):
        b = G.gen_operator(rng)
        k = int(scale_ks[int(rng.integers(0, len(scale_ks)))] if rng.integers(0, 2) else rng.integers(-40, 41))
        d = G.scaled(b, k)
        if d.get("unscaled_sq_dropped"):
            b = {**b, "sq": False}
        check_estimates(ctx, model, d, [None, 1, 2][int(rng.integers(0, 3))], short, base=b)
    for i in range(ctx.n(24, 120)):
        b = G.gen_operator(rng, ["diag-real", "matrix-real", "scaled-identity", "gapped", "matrix-complex", "jacobian"][int(rng.integers(0, 6))])
        d = G.scaled(b, int(rng.integers(-40, 41)))
        fac = ["default", None, 2.0][int(rng.integers(0, 3))]
        mi = int([1, 3, 20][int(rng.integers(0, 3))])
        ctx.count("scale:estimators")
        check_pdhg(ctx, model, {"what": "pdhg", "desc": d, "ratio": float([1.0, 4.0][int(rng.integers(0, 2))]), "factor": fac, "maxiter": mi, "key": None})
        if d["kind"] != "jacobian":
            check_padmm(ctx, model, {"what": "padmm", "A": d, "B": None, "factor": fac, "maxiter": mi, "key": None})
    # -- estimators ---------------------------------------------------------------------
    for i in range(ctx.n(90, 500)):
        desc = G.gen_operator(rng)
        dflt = False
        if desc["kind"] == "jacobian" and rng.integers(0, 3) == 0:
            # x=None: the Jacobian is documented to be taken at an array of zeros
            desc = {**desc, "u": [0.0] * len(desc["u"])}
            dflt = True
        case = {"what": "pdhg", "desc": desc, "default_point": dflt, "ratio": float([1.0, 0.5, 2.0, 4.0, 0.125][int(rng.integers(0, 5))]),
                "factor": ["default", "default", None, 1.0, 1.5, 2.0][int(rng.integers(0, 6))],
                "maxiter": int([0, 1, 2, 5, 20, 40][int(rng.integers(0, 6))]), "key": [None, 1, 2][int(rng.integers(0, 3))]}
        check_pdhg(ctx, model, case)
    for i in range(ctx.n(60, 400)):
        dA = G.gen_operator(rng, ["matrix-real", "diag-real", "rank-one", "gapped", "matrix-complex"][int(rng.integers(0, 5))])
        MA = G.dense(dA)
        if rng.integers(0, 2):
            dB = None
        else:
            p = int(rng.integers(1, 4))
            Bm = common.dyadic(rng, (MA.shape[0], p), bits=2, scale=3.0)
            dB = {"kind": "matrix-real", "A": Bm.tolist()} if not np.iscomplexobj(MA) else {"kind": "matrix-complex", "Are": Bm.tolist(), "Aim": (0 * Bm).tolist()}
        case = {"what": "padmm", "A": dA, "B": dB, "factor": ["default", None, 1.5, 2.0][int(rng.integers(0, 4))],
                "maxiter": int([0, 1, 2, 5, 20, 40][int(rng.integers(0, 6))]), "key": [None, 1, 2][int(rng.integers(0, 3))]}
        check_padmm(ctx, model, case)
    # the four combinations x given/None × z given/None on a fixed coupled H (Jacobians depend on both arguments)
    for give in ([True, True], [True, False], [False, True], [False, False]):
        for key in (None, 1):
            check_nlpadmm(ctx, model, rng, fixed={
                "what": "nlpadmm", "A": [[1.0, -2.0], [0.5, 1.5]], "B": [[2.0, 0.25], [-1.0, 1.0]],
                "x": [0.75, -1.25] if give[0] else [0.0, 0.0], "z": [1.5, -0.5] if give[1] else [0.0, 0.0],
                "factor": "default", "maxiter": 20, "key": key, "give": give, "coupled": True})
    for i in range(ctx.n(40, 200)):
        check_nlpadmm(ctx, model, rng)
    # -- closed-form norms: every order ------------------------------------------------------
    for case in diag_cases(rng, ctx.n(6, 60)):
        check_diagnorm(ctx, model, case)
    for case in sid_cases(rng, ctx.n(4, 40)):
        check_sidnorm(ctx, model, case)
    for i in range(ctx.n(8, 80)):
        m, n = int(rng.integers(1, 5)), int(rng.integers(1, 5))
        M = common.dyadic(rng, (m, n), bits=2, scale=3.0)
        if rng.integers(0, 3) == 0:
            M = M + 1j * common.dyadic(rng, (m, n), bits=2, scale=3.0)
        check_matnorm(ctx, model, M)
    check_matnorm(ctx, model, np.diag([1.0, -3.0, 2.0]))
    check_matnorm(ctx, model, np.array([[3.0, 4.0]]))  # wide: one singular value, ord=-2 is 5 (not the 0 of A^H A)
    check_ord_variants(ctx, model)


def generate(ctx):
    """translator: signatures/defaults of power_iteration, operator_norm and the three estimate_parameters, the literal replacing
    factor=None, the smallest budget, the ord tables of Diagonal/ScaledIdentity.norm and the statement skeletons of the eight
    transcribed functions, read from the working tree with `ast`, against the model's tables"""
    estim_translate.generate()
    return [("Scico.Generated.EstimTables",
             "defaults (maxiter, key, ratio, factor, x, z, B), factor=None replacement, budget check, ordfunc keys / remapping of "
             "Diagonal.norm, branches of ScaledIdentity.norm, and the normalised statements of power_iteration, operator_norm, the three "
             "estimate_parameters and the three norm methods equal the model's tables (Model/EstimSource.lean)")]


def witness_zero_operator():
    """known finding `estimators-zero-operator`: for the zero operator the estimators silently return values that
    violate the documented strict inequalities (tau = sigma = inf, tau*sigma*||C||^2 = NaN; mu = 0, not > ||A||^2 = 0)"""
    import scico.numpy as snp
    from scico.linop import MatrixOperator
    from scico.optimize import PDHG, ProximalADMM

    Z = MatrixOperator(snp.zeros((2, 3), dtype=np.float64))
    r1 = _impl(lambda: PDHG.estimate_parameters(Z, maxiter=5, key=G.make_key(1)))
    r2 = _impl(lambda: ProximalADMM.estimate_parameters(Z, maxiter=5, key=G.make_key(1)))
    if r1[0] != "ok" or r2[0] != "ok":
        return False, f"now rejected: {r1[1:] if r1[0] == 'err' else ''} {r2[1:] if r2[0] == 'err' else ''}"
    tau, sigma = (_scalar(v) for v in r1[1])
    mu, nu = (_scalar(v) for v in r2[1])
    bad_pdhg = not (math.isfinite(tau) and math.isfinite(sigma)) or not (tau * sigma * 0.0 < 1.0)
    bad_padmm = not mu > 0.0
    return bool(bad_pdhg and bad_padmm), f"tau={tau} sigma={sigma} mu={mu} nu={nu}"


def findings(ctx, model):
    """the defects found earlier (PDHG factor, maxiter=0, Diagonal.norm broadcast / block) were repaired - `fixed:` lines
    of known_findings.txt, witnesses are regression cases in corpus/C17.  Recorded: `estimators-zero-operator`."""
    common.setup_scico()
    still, detail = witness_zero_operator()
    ctx.known_finding("estimators-zero-operator", still, detail)
    return None


def search(ctx, model, why):
    """failing-input search on the implementation alone: the property oracles on fresh operators"""
    common.setup_scico()
    rng = ctx.rng
    if why is not None:
        # a generated obligation no longer checks: find WHICH rows of the source tables differ from the model's and exercise
        # exactly those functions with the property oracles (any tier)
        changed = estim_translate.changed_keys()
        ctx.extra["changed_source_rows"] = changed
        print("search: source rows that differ from the model's tables:", changed, flush=True)
        txt = " ".join(changed)
        allp = not changed
        descs = [{"kind": "matrix-real", "A": [[1.0, 2.0], [3.0, 4.0], [0.0, 1.0]]}, {"kind": "diag-real", "d": [3.0, -1.0, 0.5]},
                 {"kind": "matrix-real", "A": [[4.0, 0.0, 0.0], [0.0, 1.0, 0.0], [0.0, 0.0, 0.5]], "flavour": "gapped"},
                 {"kind": "matrix-complex", "Are": [[1.0, 0.5], [0.0, 2.0]], "Aim": [[0.5, -1.0], [1.0, 0.0]]},
                 {"kind": "matrix-real", "A": [[0.0, 0.0], [0.0, 0.0]], "flavour": "zero"},
                 {"kind": "jacobian", "W": [[1.0, -2.0], [0.5, 1.5]], "u": [0.5, -0.75], "sq": True}]

        def out(case, r):
            return {"case": case, "failing": r, "changed_rows": changed}

        if allp or "Diagonal" in txt or "diag" in txt:
            for case in diag_cases(rng, 4):
                r = oracle(case)
                if r is not None:
                    return out(case, r)
        if allp or "ScaledIdentity" in txt or "sid" in txt:
            for case in sid_cases(rng, 4):
                r = oracle(case)
                if r is not None:
                    return out(case, r)
        if allp or "power_iteration" in txt or "operator_norm" in txt or "powerMinBudget" in txt:
            for desc in descs:
                for key in (None, 1, 2):
                    case = {"what": "opnorm", "desc": desc, "key": key, "budgets": [0, 1, 2, 3, 5, 8, 20, 60], "converged_check": desc.get("flavour") == "gapped"}
                    r = oracle_opnorm(case)
                    if r is not None:
                        return out(case, r)
                    if np.any(G.dense(desc)):
                        for k in (1, 3, 8):
                            case = {"what": "power-vector", "desc": desc, "key": key, "budget": k}
                            r = oracle_power_vector(case)
                            if r is not None:
                                return out(case, r)
            for Am in NONFINITE:
                case = {"what": "nonfinite", "A": Am, "key": 1, "budgets": [1, 2, 3, 5]}
                r = oracle_nonfinite(case)
                if r is not None:
                    return out(case, r)
            for Bre, Bim in (([[0.0, 1.0], [0.0, 0.0]], [[0.0, 0.0], [0.0, 0.0]]), ([[1.0, 0.0], [0.0, 2.0]], [[0.0, 1.0], [-1.0, 0.0]]),
                             ([[1.0, 2.0], [0.5, -1.0]], [[0.5, 0.0], [1.0, 2.0]])):
                case = {"what": "complexpower", "Bre": Bre, "Bim": Bim, "key": 1, "budgets": [0, 1, 2, 3, 5, 10]}
                r = oracle_complexpower(case)
                if r is not None:
                    return out(case, r)
            for Bm in ([[0.0, 1.0], [0.0, 0.0]], [[1.0, 2.0], [-3.0, 0.5]], [[0.0, -2.0], [1.0, 0.0]]):
                case = {"what": "nonsym", "B": Bm, "key": 1, "budgets": [1, 2, 3, 5, 10]}
                r = oracle_nonsym(case)
                if r is not None:
                    return out(case, r)
        if allp or "PDHG" in txt or "pdhgFactorNone" in txt or "power_iteration" in txt or "operator_norm" in txt:
            for desc in descs:
                for ratio, factor in ((1.0, "default"), (4.0, None), (0.5, 2.0), (2.0, 1.0)):
                    for dflt in ([False, True] if desc["kind"] == "jacobian" else [False]):
                        d2 = {**desc, "u": [0.0] * len(desc["u"])} if dflt else desc
                        case = {"what": "pdhg", "desc": d2, "default_point": dflt, "ratio": ratio, "factor": factor, "maxiter": 20, "key": 1}
                        r = oracle_pdhg(case)
                        if r is not None:
                            return out(case, r)
        if allp or "ProximalADMM" in txt or "power_iteration" in txt or "operator_norm" in txt:
            for desc in descs[:4]:
                for B in (None, {"kind": "matrix-real", "A": (2.0 * np.eye(G.dense(desc).shape[0], 2)).tolist()}):
                    if B is not None and np.iscomplexobj(G.dense(desc)):
                        continue
                    for factor in ("default", None, 2.0):
                        case = {"what": "padmm", "A": desc, "B": B, "factor": factor, "maxiter": 20, "key": 1}
                        r = oracle_padmm(case)
                        if r is not None:
                            return out(case, r)
        if allp or "NonLinearPADMM" in txt or "power_iteration" in txt or "operator_norm" in txt:
            for give in ([True, True], [True, False], [False, True], [False, False]):
                for factor in ("default", None):
                    case = {"what": "nlpadmm", "A": [[1.0, -2.0], [0.5, 1.5]], "B": [[2.0, 0.25], [-1.0, 1.0]],
                            "x": [0.75, -1.25] if give[0] else [0.0, 0.0], "z": [1.5, -0.5] if give[1] else [0.0, 0.0],
                            "factor": factor, "maxiter": 20, "key": 1, "give": give, "coupled": True}
                    r = oracle_nlpadmm(case)
                    if r is not None:
                        return out(case, r)
        if allp or "MatrixOperator" in txt:
            import scico.numpy as snp
            from scico.linop import MatrixOperator

            for M in (np.array([[1.0, 2.0], [3.0, -4.0], [0.0, 1.0]]), np.array([[3.0, 4.0]]), np.diag([1.0, -3.0, 2.0])):
                for o in ORDS_VALID:
                    got = _impl(lambda: MatrixOperator(snp.array(M)).norm(o))
                    want = float(np.linalg.norm(M, o))
                    if got[0] != "ok" or not _rel(_scalar(got[1]), want, 16, 1e-9):
                        return out({"what": "matnorm", "M": M.tolist(), "ord": ord_wire(o)},
                                   {"why": "MatrixOperator.norm differs from numpy's matrix norm", "got": str(got), "numpy": want})
    for _ in range(ctx.n(0, 120) if why is None else 40):
        desc = G.gen_operator(rng)
        case = {"what": "opnorm", "desc": desc, "key": int(rng.integers(0, 50)), "budgets": [0, 1, 2, 3, 5, 8, 13, 21, 34]}
        ctx.count("search:opnorm-ladders")
        r = oracle_opnorm(case)
        if r is not None:
            return {"case": case, "failing": r}
        case = {"what": "pdhg", "desc": desc, "ratio": float(rng.integers(1, 17)) / 4.0, "factor": ["default", 1.5, None][int(rng.integers(0, 3))],
                "maxiter": int(rng.integers(1, 30)), "key": int(rng.integers(0, 50))}
        r = oracle_pdhg(case)
        if r is not None:
            return {"case": case, "failing": r}
    return None


def replay(ctx, model, case):
    common.setup_scico()
    c = case.get("case", case)
    r = oracle(c)
    print("replay:", "property FAILS on implementation:" if r else "no failure at this input", r)
    if r:
        ctx.violation({"kind": "failing-input", "case": c, "failing": r}, True, "replay")
    elif model is not None and c.get("what") in ("opnorm", "power", "pdhg", "padmm", "nlpadmm", "diagnorm", "sidnorm"):
        run_case(ctx, model, c)
