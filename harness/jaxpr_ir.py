"""jaxpr -> IR of `lean/Scico/Model/Jaxpr.lean`  (DESIGN §5.6, property C06).

* `trace(fn, leaves)`      : `jax.make_jaxpr` on a function of a tuple of input leaves
* `translate(closed_jaxpr)`: inline call-like primitives (pjit, custom_jvp/vjp, closed_call, remat, pmap), fold every
                             input-independent sub-term numerically (its value decides `isZero` of the `lit` equation that
                             replaces it), map each remaining primitive to its class; unknown primitives and control flow
                             on input-dependent values raise `NotTranslatable` naming the primitive (never skipped)
* `check(prog)`            : Python mirror of `Scico.Jaxpr.check` (used to choose the expected tag that is emitted and for
                             diagnostics; the obligation itself is decided by Lean)
* `lean_prog(prog)`        : the program as a Lean term

The per-primitive class table below is the *trusted table* of C06: it is what the hypotheses `Interp.Sound` of
`C06_check_sound` say about JAX's primitives.
"""

from __future__ import annotations

import numpy as np

# ---------------------------------------------------------------------------------------------------------------
# the trusted primitive table
#   class, indices of parameter operands (must be input-independent), indices of data operands (None = all others)

LINALL = "linAll"
BIL = "bilinear"
DIV = "divLike"
REAL = "realPart"
CONJ = "conj"
NONLIN = "nonlin"

# jointly linear in all data operands
_LIN_ALL_DATA = [
    "add", "add_any", "sub", "neg", "concatenate", "pad", "slice", "squeeze", "reshape", "broadcast_in_dim",
    "transpose", "rev", "reduce_sum", "cumsum", "fft", "copy", "copy_p", "expand_dims", "complex", "split",
    "zeros_like", "psum", "all_gather",
]
# linear in the data operands once the listed operands are fixed (they must be input-independent)
_LIN_WITH_PARAMS = {
    "select_n": [0],  # predicate
    "gather": [1],  # indices
    "scatter-add": [1],
    "scatter_add": [1],
    "scatter": [1],  # x.at[idx].set(y): jointly linear in (x, y) for fixed indices
    "dynamic_slice": "tail1",  # operand, *start_indices
    "dynamic_update_slice": "tail2",  # operand, update, *start_indices
}
_BILINEAR = ["mul", "dot_general", "conv_general_dilated"]
_DIV = ["div"]
_REAL = ["real", "imag"]
_CONJ = ["conj"]
_NONLIN = [
    "abs", "max", "min", "sign", "floor", "ceil", "round", "exp", "exp2", "log", "log1p", "expm1", "sqrt", "rsqrt", "cbrt",
    "pow", "integer_pow", "square", "sin", "cos", "tan", "asin", "acos", "atan", "atan2", "sinh", "cosh", "tanh", "asinh",
    "acosh", "atanh", "logistic", "erf", "erfc", "erf_inv", "lgamma", "digamma", "is_finite", "nextafter", "rem", "clamp",
    "lt", "le", "gt", "ge", "eq", "ne", "and", "or", "not", "xor", "shift_left", "shift_right_logical",
    "shift_right_arithmetic", "population_count", "reduce_max", "reduce_min", "reduce_prod", "reduce_and", "reduce_or",
    "reduce_xor", "argmax", "argmin", "sort", "cumprod", "cummax", "cummin", "cumlogsumexp", "top_k", "stop_gradient",
    "scatter-mul", "scatter_mul", "scatter-min", "scatter_min", "scatter-max", "scatter_max", "select_and_scatter_add",
    "random_bits", "random_wrap", "random_unwrap", "random_seed", "threefry2x32", "erf_inv", "polygamma", "igamma",
    "cholesky", "lu", "qr", "svd", "eigh", "eig", "triangular_solve", "custom_linear_solve", "iota",
    "bessel_i0e", "bessel_i1e", "regularized_incomplete_beta", "convert_element_type_to_int",
]
_CALL_LIKE = {
    # primitive name -> name of the params entry holding the sub-jaxpr
    "pjit": "jaxpr",
    "jit": "jaxpr",
    "closed_call": "call_jaxpr",
    "core_call": "call_jaxpr",
    "remat": "jaxpr",
    "checkpoint": "jaxpr",
    "custom_jvp_call": "call_jaxpr",
    "custom_vjp_call": "call_jaxpr",
    "custom_vjp_call_jaxpr": "fun_jaxpr",
    "xla_pmap": "call_jaxpr",
    "custom_lin": None,
}
_CONTROL = ["while", "scan", "cond", "switch"]

# stable numbering of primitives (index = `prim` field of the emitted equations); new names are appended at run time
PRIM_NAMES = (
    ["lit"] + _LIN_ALL_DATA + list(_LIN_WITH_PARAMS) + _BILINEAR + _DIV + _REAL + _CONJ
    + ["convert_element_type", "convert_element_type[c->r]", "fft[irfft]"] + _NONLIN
)
_PRIM_INDEX = {}
for _n in PRIM_NAMES:
    _PRIM_INDEX.setdefault(_n, len(_PRIM_INDEX))


def prim_index(name: str) -> int:
    base = name.split("#")[0]
    if base not in _PRIM_INDEX:
        _PRIM_INDEX[base] = len(_PRIM_INDEX)
    # outputs of a multi-output primitive are distinct primitives `name#k`: encode k in the id
    if "#" in name:
        k = int(name.split("#")[1])
        return _PRIM_INDEX[base] + 1000 * (k + 1)
    return _PRIM_INDEX[base]


def prim_table():
    return dict(_PRIM_INDEX)


class NotTranslatable(Exception):
    def __init__(self, prim, why):
        super().__init__(f"{prim}: {why}")
        self.prim = prim
        self.why = why


def classify(eqn, dep_mask):
    """-> (cls, param_positions, data_positions) for a primitive applied with some input-dependent operands.
    `dep_mask[i]` says whether operand i is input-dependent."""
    name = eqn.primitive.name
    n = len(eqn.invars)
    allpos = list(range(n))
    if name in _CONTROL:
        raise NotTranslatable(name, "control-flow primitive on an input-dependent value")
    if name == "convert_element_type":
        src = eqn.invars[0].aval.dtype
        dst = eqn.params["new_dtype"]
        if np.issubdtype(src, np.complexfloating) and not np.issubdtype(dst, np.complexfloating):
            return REAL, [], allpos, "convert_element_type[c->r]"
        if not (np.issubdtype(dst, np.floating) or np.issubdtype(dst, np.complexfloating)):
            return NONLIN, [], allpos, "convert_element_type_to_int"
        return LINALL, [], allpos, name
    if name == "fft" and "IRFFT" in str(eqn.params.get("fft_type", "")):
        # complex (Hermitian-symmetric) -> real: like `real`, linear over the reals only
        return REAL, [], allpos, "fft[irfft]"
    if name in _LIN_ALL_DATA:
        return LINALL, [], allpos, name
    if name in _LIN_WITH_PARAMS:
        spec = _LIN_WITH_PARAMS[name]
        if spec == "tail1":
            ps = allpos[1:]
        elif spec == "tail2":
            ps = allpos[2:]
        else:
            ps = list(spec)
        return LINALL, ps, [i for i in allpos if i not in ps], name
    if name in _BILINEAR:
        return BIL, [], allpos, name
    if name in _DIV:
        return DIV, [], allpos, name
    if name in _REAL:
        return REAL, [], allpos, name
    if name in _CONJ:
        return CONJ, [], allpos, name
    if name in _NONLIN:
        return NONLIN, [], allpos, name
    raise NotTranslatable(name, "primitive not in the class table")


# ---------------------------------------------------------------------------------------------------------------
# IR


class Prog:
    def __init__(self, nin):
        self.nin = nin
        self.eqns = []  # (cls, primname, params, args)   cls = "lit0"/"lit1" for literals (zero / non-zero)
        self.outs = []
        self.folded = 0  # number of input-independent equations evaluated numerically
        self.inlined = 0
        self.prims = {}  # histogram of emitted primitive names

    def emit(self, cls, prim, params, args):
        self.eqns.append((cls, prim, list(params), list(args)))
        self.prims[prim] = self.prims.get(prim, 0) + 1
        return self.nin + len(self.eqns) - 1

    def key(self):
        return (self.nin, tuple((c, p, tuple(a), tuple(b)) for c, p, a, b in self.eqns), tuple(self.outs))


class _Const:
    __slots__ = ("val", "vid")

    def __init__(self, val):
        self.val = val
        self.vid = None


class _Dep:
    __slots__ = ("vid",)

    def __init__(self, vid):
        self.vid = vid


def _is_zero(val) -> bool:
    try:
        a = np.asarray(val)
        if a.dtype == object:
            return False
        return bool(np.all(a == 0))
    except Exception:  # noqa: BLE001  (opaque values such as PRNG keys are simply "non-zero constants")
        return False


def translate(closed) -> Prog:
    import jax
    from jax._src import core as jcore

    jaxpr = closed.jaxpr
    prog = Prog(len(jaxpr.invars))

    def lit_id(c: _Const) -> int:
        if c.vid is None:
            c.vid = prog.emit("lit1" if _is_zero(c.val) else "lit0", "lit", [], [])
        return c.vid

    def run(jaxpr, consts, ins):
        env = {}

        def read(v):
            if isinstance(v, jcore.Literal):
                return _Const(v.val)
            return env[v]

        for v, c in zip(jaxpr.constvars, consts):
            env[v] = c
        for v, a in zip(jaxpr.invars, ins):
            env[v] = a
        for eqn in jaxpr.eqns:
            name = eqn.primitive.name
            vals = [read(v) for v in eqn.invars]
            dep = [isinstance(a, _Dep) for a in vals]
            if name in _CALL_LIKE and any(dep):
                key = _CALL_LIKE[name]
                sub = eqn.params.get(key) if key else None
                if sub is None:
                    for k in ("jaxpr", "call_jaxpr", "fun_jaxpr"):
                        if k in eqn.params:
                            sub = eqn.params[k]
                            break
                if sub is None:
                    raise NotTranslatable(name, "call-like primitive without a sub-jaxpr")
                if hasattr(sub, "jaxpr"):
                    sj, sc = sub.jaxpr, [_Const(c) for c in sub.consts]
                else:
                    sj, sc = sub, []
                if name == "custom_vjp_call_jaxpr" or name == "custom_vjp_call":
                    pass
                nconst = len(vals) - len(sj.invars)
                if nconst < 0:
                    raise NotTranslatable(name, "operand count does not match the sub-jaxpr")
                prog.inlined += 1
                outs = run(sj, sc, vals[nconst:] if nconst else vals)
                for v, o in zip(eqn.outvars, outs):
                    env[v] = o
                continue
            if not any(dep):
                # input-independent: evaluate numerically
                with jax.ensure_compile_time_eval():
                    res = eqn.primitive.bind(*[a.val for a in vals], **eqn.params)
                if not eqn.primitive.multiple_results:
                    res = [res]
                prog.folded += 1
                for v, r in zip(eqn.outvars, res):
                    env[v] = _Const(r)
                continue
            cls, ppos, dpos, pname = classify(eqn, dep)
            pids = []
            for i in ppos:
                a = vals[i]
                pids.append(a.vid if isinstance(a, _Dep) else lit_id(a))
            dids = []
            for i in dpos:
                a = vals[i]
                dids.append(a.vid if isinstance(a, _Dep) else lit_id(a))
            if len(eqn.outvars) == 1:
                env[eqn.outvars[0]] = _Dep(prog.emit(cls, pname, pids, dids))
            else:
                for k, v in enumerate(eqn.outvars):
                    env[v] = _Dep(prog.emit(cls, f"{pname}#{k}", pids, dids))
        return [read(v) for v in jaxpr.outvars]

    ins = [_Dep(i) for i in range(prog.nin)]
    outs = run(jaxpr, [_Const(c) for c in closed.consts], ins)
    for o in outs:
        prog.outs.append(o.vid if isinstance(o, _Dep) else lit_id(o))
    return prog


def trace(fn, leaves):
    """make_jaxpr of `fn(*leaves)`; the leaves are the program inputs"""
    import jax

    return jax.make_jaxpr(fn)(*leaves)


# ---------------------------------------------------------------------------------------------------------------
# mirror of Scico.Jaxpr.check     tags: ("const", z) | "linC" | "antiC" | "linR" | "bad"

BADT = "bad"


def _is_const(t):
    return isinstance(t, tuple)


def join(a, b):
    if a == BADT or b == BADT:
        return BADT
    if _is_const(a) and _is_const(b):
        return ("const", a[1] and b[1])
    if a == ("const", True):
        return b
    if b == ("const", True):
        return a
    if _is_const(a) or _is_const(b):
        return BADT
    if a == b and a in ("linC", "antiC"):
        return a
    return "linR"


def join_all(ts):
    r = ("const", True)
    for t in reversed(ts):
        r = join(t, r)
    return r


def bil(a, b):
    if _is_const(a) and _is_const(b):
        return ("const", a[1] or b[1])
    if _is_const(a) and b in ("linC", "antiC", "linR"):
        return b
    if _is_const(b) and a in ("linC", "antiC", "linR"):
        return a
    return BADT


def div(a, b):
    if _is_const(b) and (_is_const(a) or a in ("linC", "antiC", "linR")):
        return a
    return BADT


def re(a):
    if _is_const(a) or a == BADT:
        return a
    return "linR"


def cj(a):
    return {"linC": "antiC", "antiC": "linC"}.get(a, a)


def step_tag(tags, eqn):
    cls, _prim, params, args = eqn

    def tag_of(i):
        return tags[i] if 0 <= i < len(tags) else BADT

    if not all(_is_const(tag_of(i)) for i in params):
        return BADT
    ts = [tag_of(i) for i in args]
    if cls in ("lit0", "lit1"):
        return ("const", cls == "lit1") if not ts else BADT
    if cls == LINALL:
        return join_all(ts)
    if cls == BIL:
        return bil(*ts) if len(ts) == 2 else BADT
    if cls == DIV:
        return div(*ts) if len(ts) == 2 else BADT
    if cls == REAL:
        return re(ts[0]) if len(ts) == 1 else BADT
    if cls == CONJ:
        return cj(ts[0]) if len(ts) == 1 else BADT
    if cls == NONLIN:
        return ("const", False) if all(_is_const(t) for t in ts) else BADT
    return BADT


def prog_tags(prog: Prog):
    tags = ["linC"] * prog.nin
    for e in prog.eqns:
        tags.append(step_tag(tags, e))
    return tags


def check(prog: Prog):
    tags = prog_tags(prog)
    return join_all([tags[i] if 0 <= i < len(tags) else BADT for i in prog.outs])


def first_bad(prog: Prog):
    """the first equation tagged bad (diagnostic): (index, cls, prim, operand tags)"""
    tags = ["linC"] * prog.nin
    for k, e in enumerate(prog.eqns):
        t = step_tag(tags, e)
        if t == BADT:
            return {"eqn": k, "class": e[0], "prim": e[1], "param_tags": [str(tags[i]) for i in e[2]],
                    "arg_tags": [str(tags[i]) for i in e[3]]}
        tags.append(t)
    return None


def tag_lean(t) -> str:
    if _is_const(t):
        return f".const {'true' if t[1] else 'false'}"
    return "." + t


def tag_str(t) -> str:
    if _is_const(t):
        return f"const({'zero' if t[1] else 'nonzero'})"
    return t


# ---------------------------------------------------------------------------------------------------------------
# Lean / JSON rendering


def _cls_lean(cls):
    if cls == "lit0":
        return ".lit false"
    if cls == "lit1":
        return ".lit true"
    return "." + cls


def lean_prog(prog: Prog) -> str:
    eq = ",\n    ".join(
        f"⟨{_cls_lean(c)}, {prim_index(p)}, {list(a)}, {list(b)}⟩" for c, p, a, b in prog.eqns
    )
    return f"⟨{prog.nin}, [\n    {eq}],\n  {list(prog.outs)}⟩" if prog.eqns else f"⟨{prog.nin}, [], {list(prog.outs)}⟩"


def json_prog(prog: Prog):
    """wire form for Drv/Jaxpr.lean"""
    return {
        "nin": prog.nin,
        "eqns": [[c, prim_index(p), list(a), list(b)] for c, p, a, b in prog.eqns],
        "outs": list(prog.outs),
    }
