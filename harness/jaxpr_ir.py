"""jaxpr -> IR of `lean/Scico/Model/Jaxpr.lean`  (DESIGN §5.6, property C06).

* `trace(fn, leaves)`      : `jax.make_jaxpr` on a function of a tuple of input leaves
* `translate(closed_jaxpr)`: inline call-like primitives (pjit, custom_jvp/vjp, closed_call, remat, pmap), fold every
                             input-independent sub-term numerically (its value decides `isZero` of the `lit` equation that
                             replaces it), map each remaining primitive to its class; unknown primitives and control flow
                             on input-dependent values raise `NotTranslatable` naming the primitive (never skipped)
* `check(prog)`            : Python mirror of `Scico.Jaxpr.check` (used to choose the expected tag that is emitted and for
                             diagnostics; the obligation itself is decided by Lean)
* `lean_prog(prog)`        : the program as a Lean term

The per-primitive class table below is the *trusted table* of C06: it is what the hypotheses `Interp.Sound` of
`C06_check_sound` say about JAX's primitives.
"""

from __future__ import annotations

import numpy as np

# ---------------------------------------------------------------------------------------------------------------
# the trusted primitive table
#   class, indices of parameter operands (must be input-independent), indices of data operands (None = all others)

LINALL = "linAll"
BIL = "bilinear"
DIV = "divLike"
REAL = "realPart"
CONJ = "conj"
NONLIN = "nonlin"

# jointly linear in all data operands
_LIN_ALL_DATA = [
    "add", "add_any", "sub", "neg", "concatenate", "pad", "slice", "squeeze", "reshape", "broadcast_in_dim",
    "transpose", "rev", "reduce_sum", "cumsum", "fft", "copy", "copy_p", "expand_dims", "complex", "split",
    "zeros_like", "psum", "all_gather", "device_put",
]
# linear in the data operands once the listed operands are fixed (they must be input-independent)
_LIN_WITH_PARAMS = {
    "select_n": [0],  # predicate
    "gather": [1],  # indices
    "scatter-add": [1],
    "scatter_add": [1],
    "scatter": [1],  # x.at[idx].set(y): jointly linear in (x, y) for fixed indices
    "dynamic_slice": "tail1",  # operand, *start_indices
    "dynamic_update_slice": "tail2",  # operand, update, *start_indices
}
_BILINEAR = ["mul", "dot_general", "conv_general_dilated"]
_DIV = ["div"]
_REAL = ["real", "imag"]
_CONJ = ["conj"]
_NONLIN = [
    "abs", "max", "min", "sign", "floor", "ceil", "round", "exp", "exp2", "log", "log1p", "expm1", "sqrt", "rsqrt", "cbrt",
    "pow", "integer_pow", "square", "sin", "cos", "tan", "asin", "acos", "atan", "atan2", "sinh", "cosh", "tanh", "asinh",
    "acosh", "atanh", "logistic", "erf", "erfc", "erf_inv", "lgamma", "digamma", "is_finite", "nextafter", "rem", "clamp",
    "lt", "le", "gt", "ge", "eq", "ne", "and", "or", "not", "xor", "shift_left", "shift_right_logical",
    "shift_right_arithmetic", "population_count", "reduce_max", "reduce_min", "reduce_prod", "reduce_and", "reduce_or",
    "reduce_xor", "argmax", "argmin", "sort", "cumprod", "cummax", "cummin", "cumlogsumexp", "top_k", "stop_gradient",
    "scatter-mul", "scatter_mul", "scatter-min", "scatter_min", "scatter-max", "scatter_max", "select_and_scatter_add",
    "random_bits", "random_wrap", "random_unwrap", "random_seed", "threefry2x32", "erf_inv", "polygamma", "igamma",
    "cholesky", "lu", "qr", "svd", "eigh", "eig", "triangular_solve", "custom_linear_solve", "iota",
    "bessel_i0e", "bessel_i1e", "regularized_incomplete_beta", "convert_element_type_to_int",
]
_CALL_LIKE = {
    # primitive name -> name of the params entry holding the sub-jaxpr
    "pjit": "jaxpr",
    "jit": "jaxpr",
    "closed_call": "call_jaxpr",
    "core_call": "call_jaxpr",
    "remat": "jaxpr",
    "checkpoint": "jaxpr",
    "custom_jvp_call": "call_jaxpr",
    "custom_vjp_call": "call_jaxpr",
    "custom_vjp_call_jaxpr": "fun_jaxpr",
    "xla_pmap": "call_jaxpr",
    "custom_lin": None,
}
_CONTROL = ["while", "scan", "cond", "switch"]

# stable numbering of primitives (index = `prim` field of the emitted equations); new names are appended at run time
PRIM_NAMES = (
    ["lit"] + _LIN_ALL_DATA + list(_LIN_WITH_PARAMS) + _BILINEAR + _DIV + _REAL + _CONJ
    + ["convert_element_type", "convert_element_type[c->r]", "fft[irfft]"] + _NONLIN
    + ["gather[fill]", "scan[xs-index]", "scan[ys-stack]", "pmap[in-slice]", "pmap[out-stack]"]
)
_PRIM_INDEX = {}
for _n in PRIM_NAMES:
    _PRIM_INDEX.setdefault(_n, len(_PRIM_INDEX))


def prim_index(name: str) -> int:
    base = name.split("#")[0]
    if base not in _PRIM_INDEX:
        _PRIM_INDEX[base] = len(_PRIM_INDEX)
    # outputs of a multi-output primitive are distinct primitives `name#k`: encode k in the id
    if "#" in name:
        k = int(name.split("#")[1])
        return _PRIM_INDEX[base] + 1000 * (k + 1)
    return _PRIM_INDEX[base]


def prim_table():
    return dict(_PRIM_INDEX)


class NotTranslatable(Exception):
    def __init__(self, prim, why):
        super().__init__(f"{prim}: {why}")
        self.prim = prim
        self.why = why


def classify(eqn, dep_mask):
    """-> (cls, param_positions, data_positions) for a primitive applied with some input-dependent operands.
    `dep_mask[i]` says whether operand i is input-dependent."""
    name = eqn.primitive.name
    n = len(eqn.invars)
    allpos = list(range(n))
    if name in _CONTROL:
        raise NotTranslatable(name, "control-flow primitive on an input-dependent value")
    if name == "axis_index":
        raise NotTranslatable(name, "axis_index outside a single-device pmap")
    if name == "convert_element_type":
        src = eqn.invars[0].aval.dtype
        dst = eqn.params["new_dtype"]
        if np.issubdtype(src, np.complexfloating) and not np.issubdtype(dst, np.complexfloating):
            return REAL, [], allpos, "convert_element_type[c->r]"
        if not (np.issubdtype(dst, np.floating) or np.issubdtype(dst, np.complexfloating)):
            return NONLIN, [], allpos, "convert_element_type_to_int"
        return LINALL, [], allpos, name
    if name == "fft" and "IRFFT" in str(eqn.params.get("fft_type", "")):
        # complex (Hermitian-symmetric) -> real: like `real`, linear over the reals only
        return REAL, [], allpos, "fft[irfft]"
    if name in _LIN_ALL_DATA:
        return LINALL, [], allpos, name
    if name in _LIN_WITH_PARAMS:
        spec = _LIN_WITH_PARAMS[name]
        if spec == "tail1":
            ps = allpos[1:]
        elif spec == "tail2":
            ps = allpos[2:]
        else:
            ps = list(spec)
        return LINALL, ps, [i for i in allpos if i not in ps], name
    if name in _BILINEAR:
        return BIL, [], allpos, name
    if name in _DIV:
        return DIV, [], allpos, name
    if name in _REAL:
        return REAL, [], allpos, name
    if name in _CONJ:
        return CONJ, [], allpos, name
    if name in _NONLIN:
        return NONLIN, [], allpos, name
    raise NotTranslatable(name, "primitive not in the class table")


# ---------------------------------------------------------------------------------------------------------------
# IR


class Prog:
    def __init__(self, nin):
        self.nin = nin
        self.eqns = []  # (cls, primname, params, args)   cls = "lit0"/"lit1" for literals (zero / non-zero)
        self.outs = []
        self.folded = 0  # number of input-independent equations evaluated numerically
        self.inlined = 0
        self.unrolled = 0  # control-flow primitives (scan / while / cond) unrolled or resolved on constants
        self.exec = None  # with translate(..., keep=True): per equation ("lit", value) | ("inst", instance, output number)
        self.prims = {}  # histogram of emitted primitive names

    def emit(self, cls, prim, params, args):
        self.eqns.append((cls, prim, list(params), list(args)))
        self.prims[prim] = self.prims.get(prim, 0) + 1
        return self.nin + len(self.eqns) - 1

    def key(self):
        return (self.nin, tuple((c, p, tuple(a), tuple(b)) for c, p, a, b in self.eqns), tuple(self.outs))


class _Const:
    __slots__ = ("val", "vid")

    def __init__(self, val):
        self.val = val
        self.vid = None


class _Dep:
    __slots__ = ("vid",)

    def __init__(self, vid):
        self.vid = vid


def _is_zero(val) -> bool:
    try:
        a = np.asarray(val)
        if a.dtype == object:
            return False
        return bool(np.all(a == 0))
    except Exception:  # noqa: BLE001  (opaque values such as PRNG keys are simply "non-zero constants")
        return False


def _all_finite(val) -> bool:
    try:
        a = np.asarray(val)
        if a.dtype.kind not in "fc":
            return a.dtype.kind in "iub"
        return bool(np.all(np.isfinite(a)))
    except Exception:  # noqa: BLE001
        return False


def _kind(dt) -> str:
    try:
        return np.dtype(dt).kind
    except Exception:  # noqa: BLE001  (extended dtypes: PRNG keys)
        return "?"


MAX_UNROLL_ITERS = 1000  # while loops: iterations evaluated before giving up
MAX_PROG_EQNS = 6000  # emitted equations (unrolled control flow included) before giving up

# pseudo-primitives emitted when `scan` is unrolled (per-iteration slice of a scanned operand, stacking of the
# per-iteration results): both jointly linear; validated like every other table entry (harness/jaxpr_table.py)
SCAN_INDEX = "scan[xs-index]"
SCAN_STACK = "scan[ys-stack]"
# single-device pmap boundaries: the mapped axis (size 1) is removed on entry and restored on exit
PMAP_IN = "pmap[in-slice]"
PMAP_OUT = "pmap[out-stack]"


def translate(closed, record=None, keep=False) -> Prog:
    """jaxpr -> IR.  `record` (a list) receives one *instance* per classified equation: the primitive with its static
    parameters, operand shapes/dtypes, class, parameter/data positions and the constant values of the parameter
    operands - what harness/jaxpr_table.py validates numerically.  `keep=True` additionally attaches to every emitted
    equation what is needed to execute it (`prog.exec`), so that the translated program can be run and compared with
    the function it was translated from (`jaxpr_table.ir_eval`: fidelity of inlining, folding, unrolling)."""
    import jax
    import jax.numpy as jnp
    from jax._src import core as jcore

    jaxpr = closed.jaxpr
    prog = Prog(len(jaxpr.invars))
    pmap_depth = [0]
    if keep:
        prog.exec = []
        if record is None:
            record = []

    def lit_id(c: _Const) -> int:
        if c.vid is None:
            c.vid = prog.emit("lit1" if _is_zero(c.val) else "lit0", "lit", [], [])
            if keep:
                prog.exec.append(("lit", c.val))
        return c.vid

    def vid(a):
        return a.vid if isinstance(a, _Dep) else lit_id(a)

    def emit(cls, pname, pids, dids, inst=None, k=0):
        if len(prog.eqns) >= MAX_PROG_EQNS:
            raise NotTranslatable(pname, f"program longer than {MAX_PROG_EQNS} equations after unrolling")
        if keep:
            prog.exec.append(("inst", inst, k))
        return prog.emit(cls, pname, pids, dids)

    def pseudo(pname, fn, data, avals, nout=1, tag=""):
        """emit a jointly linear pseudo-primitive (scan unrolling) over `data` (list of _Const/_Dep)"""
        inst = {"prim": None, "fn": fn, "name": pname, "params": {}, "static": pname + ":" + str(tag), "cls": LINALL, "ppos": [], "dpos": list(range(len(data))),
                "avals": avals, "pvals": {}, "nout": nout, "baked": {}, "offset": False}
        if record is not None:
            record.append(inst)
        ids = [vid(a) for a in data]  # (literals first: they are equations of their own)
        return _Dep(emit(LINALL, pname, [], ids, inst, 0))

    def aval_of(v):
        return (tuple(v.aval.shape), v.aval.dtype)

    def sub_of(eqn, name):
        key = _CALL_LIKE[name]
        sub = eqn.params.get(key) if key else None
        if sub is None:
            for k in ("jaxpr", "call_jaxpr", "fun_jaxpr"):
                if k in eqn.params:
                    sub = eqn.params[k]
                    break
        if sub is None:
            raise NotTranslatable(name, "call-like primitive without a sub-jaxpr")
        if hasattr(sub, "jaxpr"):
            return sub.jaxpr, [_Const(c) for c in sub.consts]
        return sub, []

    def closed_parts(cj):
        return (cj.jaxpr, [_Const(c) for c in cj.consts]) if hasattr(cj, "jaxpr") else (cj, [])

    def do_scan(eqn, vals):
        p = eqn.params
        n, nc, ncar, rev = int(p["length"]), int(p["num_consts"]), int(p["num_carry"]), bool(p["reverse"])
        sj, sc = closed_parts(p["jaxpr"])
        consts, carry, xs = vals[:nc], list(vals[nc:nc + ncar]), vals[nc + ncar:]
        xs_avals = [aval_of(v) for v in eqn.invars[nc + ncar:]]
        nys = len(eqn.outvars) - ncar
        ys = [[None] * n for _ in range(nys)]
        for i in (range(n - 1, -1, -1) if rev else range(n)):
            xi = []
            for a, av in zip(xs, xs_avals):
                if isinstance(a, _Const):
                    xi.append(_Const(np.asarray(a.val)[i]))
                else:
                    xi.append(pseudo(SCAN_INDEX, (lambda x, _i=i: x[_i]), [a], [av], tag=i))
            outs = run(sj, sc, list(consts) + carry + xi)
            carry = list(outs[:ncar])
            for k in range(nys):
                ys[k][i] = outs[ncar + k]
        res = list(carry)
        for k in range(nys):
            ov = eqn.outvars[ncar + k]
            shp, dt = aval_of(ov)
            if n == 0 or all(isinstance(y, _Const) for y in ys[k]):
                res.append(_Const(np.stack([np.asarray(y.val) for y in ys[k]]).astype(dt) if n else np.zeros(shp, dt)))
            else:
                res.append(pseudo(SCAN_STACK, (lambda *t: jnp.stack(t)), ys[k], [(tuple(shp[1:]), dt)] * n, tag=n))
        return res

    def do_while(eqn, vals):
        p = eqn.params
        cn, bn = int(p["cond_nconsts"]), int(p["body_nconsts"])
        cj, cc = closed_parts(p["cond_jaxpr"])
        bj, bc = closed_parts(p["body_jaxpr"])
        cconst, bconst, carry = vals[:cn], vals[cn:cn + bn], list(vals[cn + bn:])
        for _ in range(MAX_UNROLL_ITERS):
            (c,) = run(cj, cc, list(cconst) + carry)
            if not isinstance(c, _Const):
                raise NotTranslatable("while", "the loop condition depends on the input")
            if not bool(np.all(np.asarray(c.val))):
                return carry
            carry = list(run(bj, bc, list(bconst) + carry))
        raise NotTranslatable("while", f"more than {MAX_UNROLL_ITERS} iterations")

    def do_cond(eqn, vals):
        if not isinstance(vals[0], _Const):
            raise NotTranslatable("cond", "the branch index depends on the input")
        br = eqn.params["branches"]
        k = min(max(int(np.asarray(vals[0].val)), 0), len(br) - 1)
        bj, bc = closed_parts(br[k])
        return run(bj, bc, vals[1:])

    def run(jaxpr, consts, ins):
        env = {}

        def read(v):
            if isinstance(v, jcore.Literal):
                return _Const(v.val)
            return env[v]

        if len(jaxpr.constvars) != len(consts) or len(jaxpr.invars) != len(ins):
            raise NotTranslatable("call", "operand count does not match the sub-jaxpr")
        for v, c in zip(jaxpr.constvars, consts):
            env[v] = c
        for v, a in zip(jaxpr.invars, ins):
            env[v] = a
        for eqn in jaxpr.eqns:
            name = eqn.primitive.name
            vals = [read(v) for v in eqn.invars]
            dep = [isinstance(a, _Dep) for a in vals]
            if name == "axis_index" and pmap_depth[0] > 0:
                env[eqn.outvars[0]] = _Const(np.zeros((), eqn.outvars[0].aval.dtype))  # the only device of a size-1 pmap
                continue
            if name in _CALL_LIKE and any(dep):
                sj, sc = sub_of(eqn, name)
                if len(vals) != len(sj.invars):
                    raise NotTranslatable(name, "operand count does not match the sub-jaxpr")
                prog.inlined += 1
                if name == "xla_pmap":
                    # the body runs on one slice per device; only a single-device map is inlined (then the slice is the
                    # whole operand with the mapped axis removed; input-independent operands are sliced numerically)
                    if int(eqn.params.get("axis_size", 0)) != 1:
                        raise NotTranslatable(name, "pmap over more than one device")
                    ia = eqn.params.get("in_axes", (None,) * len(vals))
                    sliced = []
                    for a, ax, v in zip(vals, ia, eqn.invars):
                        if ax is None:
                            sliced.append(a)
                        elif isinstance(a, _Const):
                            sliced.append(_Const(np.take(np.asarray(a.val), 0, axis=ax)))
                        else:
                            sliced.append(pseudo(PMAP_IN, (lambda x, _ax=ax: jnp.take(x, 0, axis=_ax)), [a], [aval_of(v)], tag=ax))
                    vals = sliced
                    pmap_depth[0] += 1
                    try:
                        outs = run(sj, sc, vals)
                    finally:
                        pmap_depth[0] -= 1
                    # a constant result gets its mapped axis back
                    oa = eqn.params.get("out_axes", (0,) * len(outs))
                    stacked = []
                    for o, ax, v in zip(outs, oa, eqn.outvars):
                        if ax is None:
                            stacked.append(o)
                        elif isinstance(o, _Const):
                            stacked.append(_Const(np.expand_dims(np.asarray(o.val), ax)))
                        else:
                            shp, dt = aval_of(v)
                            stacked.append(pseudo(PMAP_OUT, (lambda x, _ax=ax: jnp.expand_dims(x, _ax)), [o], [(tuple(d for i, d in enumerate(shp) if i != ax), dt)], tag=ax))
                    outs = stacked
                else:
                    outs = run(sj, sc, vals)
                for v, o in zip(eqn.outvars, outs):
                    env[v] = o
                continue
            if name in _CONTROL and any(dep):
                if name == "scan":
                    outs = do_scan(eqn, vals)
                elif name == "while":
                    outs = do_while(eqn, vals)
                else:
                    outs = do_cond(eqn, vals)
                prog.unrolled += 1
                for v, o in zip(eqn.outvars, outs):
                    env[v] = o
                continue
            if not any(dep):
                # input-independent: evaluate numerically
                with jax.ensure_compile_time_eval():
                    res = eqn.primitive.bind(*[a.val for a in vals], **eqn.params)
                if not eqn.primitive.multiple_results:
                    res = [res]
                prog.folded += 1
                for v, r in zip(eqn.outvars, res):
                    env[v] = _Const(r)
                continue
            cls, ppos, dpos, pname = classify(eqn, dep)
            extra = []  # additional data operands (affine offset of a primitive instance)
            baked = {}  # operands fixed at their constant value and made part of the instance
            in_kinds = {_kind(v.aval.dtype) for v, d in zip(eqn.invars, dep) if d}
            out_kinds = {_kind(v.aval.dtype) for v in eqn.outvars}
            if cls in (LINALL, BIL, DIV, CONJ) and "c" in in_kinds and "c" not in out_kinds:
                cls, pname = NONLIN, pname + "[complex->real outside realPart]"
            if name in ("div", "rem") and (in_kinds & set("iub")):
                cls, pname = NONLIN, name + "[integer]"
            if cls == BIL and not all(_all_finite(a.val) for a in vals if isinstance(a, _Const)):
                cls, pname = NONLIN, name + "[non-finite constant factor]"  # inf * 0 = NaN: A(0) != 0
            if cls == DIV and isinstance(vals[1], _Const):
                d = np.asarray(vals[1].val)
                if np.any(d == 0) or np.any(np.isnan(d)):
                    cls, pname = NONLIN, name + "[zero or NaN constant denominator]"  # 0 / 0 = NaN: A(0) != 0
            if name == "gather" and "FILL" in str(eqn.params.get("mode", "")) and not _is_zero(eqn.params.get("fill_value") if eqn.params.get("fill_value") is not None else np.nan):
                # out-of-bounds slices are replaced by `fill_value` (NaN by default for jnp.take / take_along_axis):
                # affine unless no slice is out of bounds.  The offset is the gather of zeros with the actual indices.
                if isinstance(vals[1], _Const):
                    with jax.ensure_compile_time_eval():
                        off = eqn.primitive.bind(jnp.zeros(eqn.invars[0].aval.shape, eqn.invars[0].aval.dtype), vals[1].val, **eqn.params)
                    # the indices are baked into this instance (it is linear in the operand for *these* indices only)
                    baked = {1: vals[1].val}
                    ppos, dpos = [], [0]
                    pname = "gather[fill]"
                    if not _is_zero(off):
                        extra = [_Const(off)]
            inst = {"prim": eqn.primitive, "fn": None, "name": pname, "params": dict(eqn.params), "static": str(eqn.params)[:2000], "cls": cls,
                    "ppos": list(ppos), "dpos": list(dpos), "avals": [aval_of(v) for v in eqn.invars],
                    "pvals": {i: vals[i].val for i in ppos if isinstance(vals[i], _Const)}, "nout": len(eqn.outvars),
                    "offset": bool(extra), "baked": baked}
            if record is not None:
                record.append(inst)
            pids = [vid(vals[i]) for i in ppos]
            dids = [vid(vals[i]) for i in dpos] + [vid(a) for a in extra]
            if len(eqn.outvars) == 1:
                env[eqn.outvars[0]] = _Dep(emit(cls, pname, pids, dids, inst, 0))
            else:
                for k, v in enumerate(eqn.outvars):
                    env[v] = _Dep(emit(cls, f"{pname}#{k}", pids, dids, inst, k))
        return [read(v) for v in jaxpr.outvars]

    ins = [_Dep(i) for i in range(prog.nin)]
    outs = run(jaxpr, [_Const(c) for c in closed.consts], ins)
    for o in outs:
        prog.outs.append(o.vid if isinstance(o, _Dep) else lit_id(o))
    return prog


def trace(fn, leaves):
    """make_jaxpr of `fn(*leaves)`; the leaves are the program inputs"""
    import jax

    return jax.make_jaxpr(fn)(*leaves)


# ---------------------------------------------------------------------------------------------------------------
# mirror of Scico.Jaxpr.check     tags: ("const", z) | "linC" | "antiC" | "linR" | "bad"

BADT = "bad"


def _is_const(t):
    return isinstance(t, tuple)


def join(a, b):
    if a == BADT or b == BADT:
        return BADT
    if _is_const(a) and _is_const(b):
        return ("const", a[1] and b[1])
    if a == ("const", True):
        return b
    if b == ("const", True):
        return a
    if _is_const(a) or _is_const(b):
        return BADT
    if a == b and a in ("linC", "antiC"):
        return a
    return "linR"


def join_all(ts):
    r = ("const", True)
    for t in reversed(ts):
        r = join(t, r)
    return r


def bil(a, b):
    if _is_const(a) and _is_const(b):
        return ("const", a[1] or b[1])
    if _is_const(a) and b in ("linC", "antiC", "linR"):
        return b
    if _is_const(b) and a in ("linC", "antiC", "linR"):
        return a
    return BADT


def div(a, b):
    if _is_const(b) and (_is_const(a) or a in ("linC", "antiC", "linR")):
        return a
    return BADT


def re(a):
    if _is_const(a) or a == BADT:
        return a
    return "linR"


def cj(a):
    return {"linC": "antiC", "antiC": "linC"}.get(a, a)


def step_tag(tags, eqn):
    cls, _prim, params, args = eqn

    def tag_of(i):
        return tags[i] if 0 <= i < len(tags) else BADT

    if not all(_is_const(tag_of(i)) for i in params):
        return BADT
    ts = [tag_of(i) for i in args]
    if cls in ("lit0", "lit1"):
        return ("const", cls == "lit1") if not ts else BADT
    if cls == LINALL:
        return join_all(ts)
    if cls == BIL:
        return bil(*ts) if len(ts) == 2 else BADT
    if cls == DIV:
        return div(*ts) if len(ts) == 2 else BADT
    if cls == REAL:
        return re(ts[0]) if len(ts) == 1 else BADT
    if cls == CONJ:
        return cj(ts[0]) if len(ts) == 1 else BADT
    if cls == NONLIN:
        return ("const", False) if all(_is_const(t) for t in ts) else BADT
    return BADT


def prog_tags(prog: Prog):
    tags = ["linC"] * prog.nin
    for e in prog.eqns:
        tags.append(step_tag(tags, e))
    return tags


def check(prog: Prog):
    tags = prog_tags(prog)
    return join_all([tags[i] if 0 <= i < len(tags) else BADT for i in prog.outs])


def first_bad(prog: Prog):
    """the first equation tagged bad (diagnostic): (index, cls, prim, operand tags)"""
    tags = ["linC"] * prog.nin
    for k, e in enumerate(prog.eqns):
        t = step_tag(tags, e)
        if t == BADT:
            return {"eqn": k, "class": e[0], "prim": e[1], "param_tags": [str(tags[i]) for i in e[2]],
                    "arg_tags": [str(tags[i]) for i in e[3]]}
        tags.append(t)
    return None


def tag_lean(t) -> str:
    if _is_const(t):
        return f".const {'true' if t[1] else 'false'}"
    return "." + t


def tag_str(t) -> str:
    if _is_const(t):
        return f"const({'zero' if t[1] else 'nonzero'})"
    return t


# ---------------------------------------------------------------------------------------------------------------
# Lean / JSON rendering


def _cls_lean(cls):
    if cls == "lit0":
        return ".lit false"
    if cls == "lit1":
        return ".lit true"
    return "." + cls


def lean_prog(prog: Prog) -> str:
    eq = ",\n    ".join(
        f"⟨{_cls_lean(c)}, {prim_index(p)}, {list(a)}, {list(b)}⟩" for c, p, a, b in prog.eqns
    )
    return f"⟨{prog.nin}, [\n    {eq}],\n  {list(prog.outs)}⟩" if prog.eqns else f"⟨{prog.nin}, [], {list(prog.outs)}⟩"


def json_prog(prog: Prog):
    """wire form for Drv/Jaxpr.lean"""
    return {
        "nin": prog.nin,
        "eqns": [[c, prim_index(p), list(a), list(b)] for c, p, a, b in prog.eqns],
        "outs": list(prog.outs),
    }
