"""Worker of the Adjoint engine (C01) for the library's DEFAULT precision mode: started as a subprocess WITHOUT
jax_enable_x64 (float32 / complex64 throughout).  Reads a JSON list of grid configurations on stdin, writes one JSON line per
configuration:

   {"i": k, "ok": true}  |  {"i": k, "skip": "..."}  |  {"i": k, "fail": {...failing input / exception...}}

Per configuration, on the real code: construction; `A(x)` and `A.adj(y)` for conforming x, y must not raise and must return the
declared dtype and shape ("applying the adjoint never fails for a conforming input"); `A.adj(A(x))` must not raise; the adjoint
identity Re<Ax,y> = Re<x,A^H y> (complex identity when both spaces are complex) on random dyadic vectors with a float32
tolerance; everything evaluated TWICE (buffer donation / caching defects show on re-use).
"""

from __future__ import annotations

import json
import os
import sys
import warnings

os.environ.pop("JAX_ENABLE_X64", None)
os.environ.setdefault("JAX_PLATFORMS", "cpu")
os.environ.setdefault("XLA_FLAGS", "--xla_cpu_multi_thread_eigen=false intra_op_parallelism_threads=2")
os.environ.setdefault("SCICO_VERIF", "1")
REPO = os.environ.get("SCICO_REPO", "/repo")
sys.path.insert(0, REPO)
sys.path.insert(0, os.path.dirname(os.path.abspath(__file__)))

import numpy as np  # noqa: E402

TOL = 5e-4


def main():
    import jax

    if jax.config.jax_enable_x64:
        print(json.dumps({"infra": "x64 is enabled in the worker"}), flush=True)
        return 2
    import scico  # noqa: F401

    if not os.path.realpath(scico.__file__).startswith(os.path.realpath(REPO)):
        print(json.dumps({"infra": f"scico imported from {scico.__file__}"}), flush=True)
        return 2
    import adjoint_dense as D
    import adjoint_grid as G
    import adjoint_trees  # noqa: F401  (registers GenericN)

    cfgs = json.loads(sys.stdin.read())
    for i, cfg in enumerate(cfgs):
        out = {"i": i}
        with warnings.catch_warnings():
            warnings.simplefilter("ignore")
            try:
                A = G.build(cfg)
            except Exception as e:  # noqa: BLE001
                out["skip"] = "construction: " + repr(e)[:160]
                print(json.dumps(out), flush=True)
                continue
            out.update(check(A, D, np.random.Generator(np.random.PCG64(1000 + i))))
        print(json.dumps(out), flush=True)
        if i % 60 == 59:
            jax.clear_caches()
    return 0


def check(A, D, rng):
    in_shape, out_shape = D.norm_shape(A.input_shape), D.norm_shape(A.output_shape)
    in_dt, out_dt = np.dtype(A.input_dtype), np.dtype(A.output_dtype)
    if D.flat_size(in_shape) == 0 or D.flat_size(out_shape) == 0:
        return {"ok": True, "empty": True}
    meta = {"class": type(A).__name__, "in": [str(in_dt), str(in_shape)], "out": [str(out_dt), str(out_shape)]}
    for rep in range(2):
        xv, yv = D.random_vec(rng, in_shape, in_dt), D.random_vec(rng, out_shape, out_dt)
        x, y = D.unflatten(xv, in_shape, in_dt), D.unflatten(yv, out_shape, out_dt)
        try:
            Ax = A(x)
        except Exception as e:  # noqa: BLE001
            return {"fail": dict(meta, what="eval raised", rep=rep, x=D._js(xv), exc=repr(e)[:300])}
        try:
            By = A.adj(y)
        except Exception as e:  # noqa: BLE001
            return {"fail": dict(meta, what="adj raised for a conforming y", rep=rep, y=D._js(yv), exc=repr(e)[:300])}
        try:
            A.adj(Ax)
        except Exception as e:  # noqa: BLE001
            return {"fail": dict(meta, what="adj(A(x)) raised", rep=rep, x=D._js(xv), exc=repr(e)[:300])}
        dA, dB = D.dtype_of(Ax), D.dtype_of(By)
        if isinstance(dA, tuple) or np.dtype(dA) != out_dt or D.norm_shape(D.shape_of(Ax)) != out_shape:
            return {"fail": dict(meta, what="eval does not return the declared dtype/shape", got=[str(dA), str(D.shape_of(Ax))])}
        if isinstance(dB, tuple) or np.dtype(dB) != in_dt or D.norm_shape(D.shape_of(By)) != in_shape:
            return {"fail": dict(meta, what="adj does not return the declared dtype/shape", got=[str(dB), str(D.shape_of(By))])}
        Af, Bf = D.flatten(Ax).astype(np.complex128), D.flatten(By).astype(np.complex128)
        lhs, rhs = np.sum(Af * np.conj(yv)), np.sum(xv * np.conj(Bf))
        scale = 1 + abs(lhs) + abs(rhs) + float(np.sum(np.abs(Af) * np.abs(yv)))
        err = abs(lhs - rhs) if (in_dt.kind == "c" and out_dt.kind == "c") else abs(lhs.real - rhs.real)
        if err > TOL * max(xv.size, yv.size) * scale:
            return {"fail": dict(meta, what="adjoint identity", x=D._js(xv), y=D._js(yv), lhs=[lhs.real, lhs.imag], rhs=[rhs.real, rhs.imag])}
    return {"ok": True}


if __name__ == "__main__":
    sys.exit(main())
