"""C16 - PGM step-size policies return the documented, usable step sizes.

Real `PGM` / `AcceleratedPGM` objects are driven step by step on crafted smooth losses
(`stepsize_gen.py`); every `step_size.update` call is observed (argument, inner products, the
`f(z)` / `f_quad_approx` values of every line-search trial, the returned `L`, the new iterate) and

* fed tie  : the Lean scalar rules (`bbRule`, `abbRule`, `searchLoop`) are given exactly the numbers the
             real call saw and must return the same `L`, memory, number of trials  (exact decisions);
* run tie  : the Lean model of the whole solver step (`pgmStep` / `apgmStep` on an `Env`) is run on the
             same problem and every `L`, iterate, extrapolation point, `t`, trial count is compared.
"""

from __future__ import annotations

import hashlib
import json
import math

import numpy as np

import common
import stepsize_gen as G
import stepsize_translate
from common import ModelErr, b2f, f2b

PROP = "C16"
CLAIMED = True
ENGINE = "StepSize"
DESIGN_REF = "DESIGN.md §5.10"
TECHNIQUE = (
    "Lean 4 proof over IEEE-extended scalars (case analysis on fin/inf/nan, induction over the call history and over the "
    "line-search fuel) + step-by-step correspondence on real PGM/AcceleratedPGM objects"
)
LEVEL_TEXT = (
    "Lean theorems about an executable model of _pgmaux.py/_pgm.py: BB returns the documented ratio when it is a finite "
    "positive number and the previous L otherwise; adaptive BB follows the documented kappa rule on the most recent usable "
    "ratios; every policy keeps L finite and > 0 along every history; the line searches return L0*gamma_u^k for the least "
    "accepted k < maxiter (last value tried otherwise) together with the candidate computed with that L; which point each "
    "policy is evaluated at in accelerated PGM; on complex data the BB ratio is sum|dg|^2 / Re sum conj(dx) dg; the adaptive-BB memory "
    "after any call history of the policy object; the robust search's auxiliary sequences satisfy L t^2 = T_k + t along every run; "
    "under the quadratic upper bound with constant Lf every L >= Lf is accepted, so the line search returns at most max(L, gamma_u Lf). "
    "The model is tied to the code on every update() call of real solver runs."
)
LEVEL_NOTE = (
    "Trusted: Lean kernel + Mathlib; real-number idealisation (rounding/overflow not modelled; division by exact zero, "
    "inf/NaN propagation and NaN-false comparisons are); jax.grad, jit, prox of the regularisers as contracts; the tie is "
    "differential testing on quadratics of size <= 4 (real and complex), <= 10 steps per run, losses scaled by 2^k (|k| <= 40, "
    "relative comparison), and exhaustively every acceptance pattern of both line-search classes for budgets <= 5 on a stub solver."
)
PROP_MODULES = ["Scico.Props.C16"]
EXTRA_TARGETS = ["Drv.StepSize"]
DRIVER = "StepSize"
FILES = ["scico/optimize/_pgmaux.py", "scico/optimize/_pgm.py"]
RULE = (
    "case = one step_size.update() call inside a real PGM/AcceleratedPGM run on f(x)=1/2 x'Qx+b'x+c (Q diagonal/dense, "
    "definite/indefinite/zero, real or Hermitian complex, dyadic entries), g in {0, w*l1, nonneg, w*sql2}, policy and "
    "parameters random (kappa, gamma_u, gamma_d, maxiter incl. 0); crafted stream: orthogonal differences, stationary "
    "start, negative curvature, exhausted budget, exact ties, complex; scale stream: the same problems times 2^k; stub streams: BB "
    "histories with 0/inf/NaN/overflow, line-search objects under every acceptance pattern (maxiter 0..5). Non-trivial: policy is not "
    "the base class and the call is not the first (storing) call of a BB policy; distinct by (problem digest, step)."
)
ASSUMPTIONS = [
    "jax.grad of the quadratic loss returns Qx+b (checked by the run tie on every trajectory)",
    "IEEE binary64 division/multiplication are correctly rounded in both JAX (CPU) and Lean's Float",
    "rounding and overflow are outside the model; comparisons are exact on decisions fed from the real run",
]

TOL = 1e-9


def _digest(case):
    return hashlib.sha1(json.dumps(case, sort_keys=True).encode()).hexdigest()[:10]


def _optb(x):
    return None if x is None else f2b(x)


def _rel(a, b, k=1, rtol=1e-9):
    """relative closeness without an absolute floor: `L`, the remembered ratios and `T_k` are scale-equivariant
    (f -> s*f gives L -> s*L), so 1e-12 versus 0 is a disagreement; inf/nan must match"""
    a, b = float(a), float(b)
    if math.isnan(a) or math.isnan(b):
        return math.isnan(a) and math.isnan(b)
    if math.isinf(a) or math.isinf(b):
        return a == b
    return abs(a - b) <= rtol * max(k, 1) * max(abs(a), abs(b))


def _vec_close(a, b, rtol=1e-8):
    """vectors agree up to rounding relative to their largest component (on a diverging run the small components carry the
    cancellation error of the large ones: a component-wise floor of 1e-8 raised a false alarm at |x|_inf = 2.7e8)"""
    a = np.asarray(a, dtype=np.float64).ravel()
    b = np.asarray(b, dtype=np.float64).ravel()
    if a.shape != b.shape:
        return False
    fin = np.isfinite(a) & np.isfinite(b)
    if not np.array_equal(np.isnan(a), np.isnan(b)) or not np.array_equal(a[~fin & ~np.isnan(a)], b[~fin & ~np.isnan(b)]):
        return False
    if not fin.any():
        return True
    scale = 1.0 + float(max(np.abs(a[fin]).max(), np.abs(b[fin]).max()))
    return bool(np.all(np.abs(a[fin] - b[fin]) <= rtol * a.size * scale))


def _same(a, b, rtol=1e-13):
    return _rel(a, b, 1, rtol)


def _scale(case):
    """2^k for a case of the scale stream (the loss, L0 and the weight of g multiplied by 2^k), else 1"""
    return float(2.0 ** case.get("scale_k", 0))


def _policy_wire(pol):
    out = {"kind": pol["kind"]}
    for k in ("kappa", "gu", "gd"):
        if k in pol:
            out[k] = f2b(pol[k])
    if "maxiter" in pol:
        out["maxiter"] = max(0, int(pol["maxiter"]))  # `while it < maxiter` never runs for maxiter <= 0
    return out


def _light(case):
    out = {k: case[k] for k in ("Q", "b", "c", "complex", "g", "gw", "x0", "L0", "policy", "accel", "steps")} | {
        "flavour": case.get("flavour", "")
    }
    if case.get("scale_k"):
        out["scale_k"] = case["scale_k"]
    if case.get("barrier"):
        out["barrier"] = case["barrier"]
    if case.get("realview_loss"):
        out["realview_loss"] = True
    return out


# --------------------------------------------------------------------------
# property oracle on the implementation (independent of the Lean model)


def oracle(case):
    """Evaluate the property itself on the real code along the run of `case`; dict = failing step."""
    case = {k: v for k, v in case.items() if k != "at_step"}
    recs = G.run_real(case)
    f, grad, prox = G.np_problem(case)
    fmag = G.np_magnitude(case)
    pol = case["policy"]
    kind = pol["kind"]
    last1 = last2 = None  # adaptive BB: most recent usable ratios
    doc1 = doc2 = None    # the same, from the differences of successive iterates (accelerated PGM)
    doc_broken = False
    # curvature of the quadratic (real view, symmetric): f(y) <= f(x) + <grad f(x), y-x> + lmax/2 |y-x|^2 for all x, y
    Qs = np.asarray(case["Q"], dtype=np.float64)
    eigs = np.linalg.eigvalsh((Qs + Qs.T) / 2.0) if Qs.size else np.zeros(1)
    lmin, lmax = float(eigs[0]), float(eigs[-1])
    if case.get("barrier"):
        lmin, lmax = -math.inf, math.inf  # the barrier has unbounded curvature: the spectrum oracles do not apply
    for i, r in enumerate(recs):
        where = {"step": i, "policy": pol, "accel": case["accel"]}
        if r["raised"]:
            if kind == "rls" and pol["maxiter"] <= 0:
                continue
            return {**where, "why": "update/step raised", "error": r.get("raised_type")}
        L, Lprev = r["L"], r["Lprev"]
        if not G.finite_pos(L) and G.finite_pos(Lprev):
            return {**where, "why": "returned L is not a finite positive number", "L": L, "Lprev": Lprev, "inner_products": r["ips"]}
        if kind in ("bb", "abb") and case["accel"] and i >= 1 and not recs[i - 1]["raised"]:
            # the *documented* differences are those of successive iterates x_k (accelerated PGM: not of the extrapolations
            # v_k): recomputed from the iterates and the numpy gradient, loose tolerance, skipped at rounding level
            xd = r["x_before"] - recs[i - 1]["x_before"]
            if np.all(np.isfinite(xd)) and float(np.linalg.norm(xd)) > 1e-6 * (1.0 + float(np.linalg.norm(r["x_before"]))):
                with np.errstate(all="ignore"):
                    gd = grad(r["x_before"]) - grad(recs[i - 1]["x_before"])
                    xxd, xgd, ggd = float(xd @ xd), float(xd @ gd), float(gd @ gd)
                    r2d = ggd / xgd if xgd != 0 else math.nan
                    r1d = xgd / xxd
                clear = abs(xgd) > 1e-6 * math.sqrt(xxd * ggd) if xxd * ggd > 0 else (xgd == 0)
                if clear and np.isfinite(ggd):
                    if G.finite_pos(r1d):
                        doc1 = r1d
                    if G.finite_pos(r2d):
                        doc2 = r2d
                    if kind == "bb":
                        wantd = r2d if G.finite_pos(r2d) else Lprev
                    elif doc1 is None or doc2 is None:
                        wantd = Lprev
                    else:
                        wantd = doc2 if doc1 / doc2 < pol["kappa"] else doc1
                        if abs(doc1 / doc2 - pol["kappa"]) <= 1e-6:
                            wantd = None
                    if wantd is not None and not doc_broken and not _rel(L, wantd, 1, 1e-6):
                        return {**where, "why": "accelerated PGM: L is not the Barzilai-Borwein value of the differences of successive "
                                                "iterates x_k, x_(k-1) (the policy was evaluated at another point)",
                                "L": L, "documented": wantd, "x_k": r["x_before"].tolist(), "x_k-1": recs[i - 1]["x_before"].tolist()}
                else:
                    doc_broken = True  # a near-tie decision: the remembered ratios can no longer be followed
            else:
                doc_broken = doc_broken or kind == "abb"
        if kind in ("bb", "abb") and not r["first"] and r["ips"] is not None:
            dx, dg = r["dx"], r["dg"]
            xx, xg, gg = float(dx @ dx), float(dx @ dg), float(dg @ dg)
            near = 0 < abs(xg) <= 1e-9 * math.sqrt(xx * gg) if xx * gg > 0 else False
            if near:
                break
            with np.errstate(all="ignore"):
                r2 = np.float64(gg) / np.float64(xg)
                r1 = np.float64(xg) / np.float64(xx)
            if kind == "bb":
                want = float(r2) if G.finite_pos(float(r2)) else Lprev
                if not _rel(L, want, 8, TOL):
                    return {**where, "why": "BB: L is neither the documented ratio nor the previous value",
                            "L": L, "Lprev": Lprev, "documented_ratio": float(r2), "dx": dx.tolist(), "dg": dg.tolist()}
                # C16_bb_between: positive definite curvature, dx != 0: no fall-back and lmin <= L <= lmax
                # (exact-arithmetic statement: skipped once the step is at rounding level of the iterate)
                if lmin > 0 and xx > 1e-12 * (1.0 + float(r["x"] @ r["x"])) and not (lmin * (1 - 1e-6) <= L <= lmax * (1 + 1e-6)):
                    return {**where, "why": "BB: L is outside [lambda_min(Q), lambda_max(Q)] for a positive definite quadratic",
                            "L": L, "lambda_min": lmin, "lambda_max": lmax, "dx": dx.tolist(), "dg": dg.tolist()}
            else:
                if G.finite_pos(float(r1)):
                    last1 = float(r1)
                if G.finite_pos(float(r2)):
                    last2 = float(r2)
                if last1 is None or last2 is None:
                    want = Lprev
                else:
                    want = last2 if last1 / last2 < pol["kappa"] else last1
                    d = last1 / last2 - pol["kappa"]
                    if d != 0 and abs(d) <= 1e-9:  # within rounding of the threshold (an exact tie is decisive)
                        break
                if not _rel(L, want, 8, TOL):
                    return {**where, "why": "adaptive BB: L does not follow the documented kappa rule on the latest usable ratios",
                            "L": L, "want": want, "Lbb1": last1, "Lbb2": last2, "kappa": pol["kappa"]}
        if kind in ("ls", "rls"):
            tests = r["tests"]
            if pol["maxiter"] <= 0:
                continue
            start = Lprev if kind == "ls" else Lprev * pol["gd"]
            if not tests:
                return {**where, "why": "line search evaluated no candidate", "L": L}
            Lj = start
            noisy = False  # some rejection is within rounding of the boundary: the exact-arithmetic bounds do not apply
            for j, t in enumerate(tests):
                if not _same(t["L"], Lj):
                    return {**where, "why": "trial values are not L0*gamma_u^k", "trial": j, "tried": t["L"], "expected": Lj}
                # recompute f(z) and the quadratic model independently
                z, y = t["z"], t["y"]
                fz = f(z)
                fq = f(y) + grad(y) @ (z - y) + 0.5 * t["L"] * float((z - y) @ (z - y))
                # tolerance relative to the size of the terms (f-values scale with the loss; they may cancel)
                mag = fmag(z) + fmag(y) + float(np.abs(grad(y)) @ np.abs(z - y)) + 0.5 * abs(t["L"]) * float((z - y) @ (z - y))
                def _fsame(a_, b_):
                    if math.isnan(a_) or math.isnan(b_):
                        return math.isnan(a_) and math.isnan(b_)
                    if math.isinf(a_) or math.isinf(b_):
                        return a_ == b_
                    return abs(a_ - b_) <= 16e-8 * mag

                if not (_fsame(fz, t["fz"]) and _fsame(fq, t["fq"])):
                    return {**where, "why": "f / f_quad_approx differ from the documented formulas", "trial": j,
                            "fz": [t["fz"], fz], "fq": [t["fq"], fq]}
                acc = t["fz"] <= t["fq"]
                if j < len(tests) - 1 and acc:
                    return {**where, "why": "search continued after an accepted candidate", "trial": j}
                # C16_linesearch_bounded: every M >= lambda_max(Q) satisfies the acceptance inequality
                if not acc and not t["fz"] - t["fq"] > 16e-8 * mag:
                    noisy = True
                if not acc and math.isfinite(lmax) and t["L"] >= lmax * (1 + 1e-9) and t["fz"] - t["fq"] > 16e-8 * mag:
                    return {**where, "why": "candidate rejected although L is at least the curvature of f (quadratic upper bound holds)",
                            "trial": j, "L": t["L"], "lambda_max": lmax, "fz": t["fz"], "fq": t["fq"]}
                Lj = Lj * pol["gu"]
            lastt = tests[-1]
            accepted = lastt["fz"] <= lastt["fq"]
            if not accepted and len(tests) < pol["maxiter"]:
                return {**where, "why": "search stopped on a rejected candidate before the budget ran out", "trials": len(tests)}
            if not noisy and math.isfinite(lmax) and L > max(start, pol["gu"] * lmax) * (1 + 1e-9) and pol["gu"] >= 1.0:
                return {**where, "why": "returned L exceeds max(L_start, gamma_u * lambda_max(Q))", "L": L, "start": start, "lambda_max": lmax}
            if not _same(L, lastt["L"]):
                return {**where, "why": "returned L was never tried (not the first accepted / last tried value)",
                        "L": L, "tried": [t["L"] for t in tests], "accepted_last": accepted, "maxiter": pol["maxiter"]}
            if kind == "rls":
                if not common.allclose(r["Z"], lastt["z"], None, TOL):
                    return {**where, "why": "candidate handed back (Z) is not the one computed with the returned L",
                            "Z": r["Z"].tolist(), "z_of_L": lastt["z"].tolist()}
                if case["accel"] and not common.allclose(r["x"], r["Z"], None, TOL):
                    return {**where, "why": "accelerated PGM did not take the handed-back candidate"}
                if not case["accel"]:
                    # C16_pgm_robust: plain PGM ignores Z; its iterate is x_step(x, L) with the L tested at the auxiliary point
                    xb = r["x_before"]
                    with np.errstate(all="ignore"):
                        xs = prox(xb - grad(xb) / L, 1.0 / L)
                    if np.all(np.isfinite(xs)) and not _vec_close(r["x"], xs, 1e-8):
                        return {**where, "why": "plain PGM with the robust policy: the iterate is not x_step(x, L returned)",
                                "x": r["x"].tolist(), "x_step(x,L)": xs.tolist(), "L": L}
            else:
                if not common.allclose(r["x"], lastt["z"], None, 1e-8):
                    return {**where, "why": "new iterate is not the candidate computed with the returned L",
                            "x": r["x"].tolist(), "z_of_L": lastt["z"].tolist(), "L": L}
    return None


def oracle_memory(case):
    """Is the memory of a BB policy stale after call `at_step`?  Observable form of the property: probe the policy
    object with one more call at v' = v + d along a direction of positive curvature and compare with the documented
    ratio <dg,dg>/<dx,dg> of (v, v') (adaptive BB: the stored Lbb1 = <dx,dg>/<dx,dx>)."""
    import scico.numpy as snp

    at = case.get("at_step")
    if at is None or case["policy"]["kind"] not in ("bb", "abb") or case.get("barrier"):
        return oracle({k: v for k, v in case.items() if k != "at_step"})
    c = {k: v for k, v in case.items() if k != "at_step"}
    c["steps"] = at + 1

    def advance():
        s, pol = G.make_solver(c)
        args = []
        orig = pol.update

        def wrap(v):
            args.append(v)
            return orig(v)

        pol.update = wrap
        for _ in range(at + 1):
            s.step()
        pol.update = orig
        return pol, args[-1]

    Q = np.asarray(case["Q"], dtype=np.float64)
    n2 = Q.shape[0]
    cands = [np.ones(n2), np.arange(1, n2 + 1, dtype=np.float64)] + [np.eye(n2)[i] for i in range(n2)]
    for d in cands:
        curv = float(d @ Q @ d)
        if curv <= 1e-9:
            continue
        try:
            pol, v = advance()  # a fresh replay of the history for every probing direction
        except Exception:  # noqa: BLE001
            return None
        dd = d[: n2 // 2] + 1j * d[n2 // 2:] if case["complex"] else d
        vp = v + snp.array(dd)
        L = float(np.asarray(pol.update(vp)))
        Qd = Q @ d
        want = float(Qd @ Qd) / curv
        if case["policy"]["kind"] == "bb":
            if not _rel(L, want, 16, 1e-9):
                return {"why": "BB: a probing call after this step does not return the documented ratio of (v, v+d): memory is stale",
                        "after_step": at, "d": d.tolist(), "L": L, "documented_ratio": want}
        else:
            l1 = float(np.asarray(pol.Lbb1prev)) if pol.Lbb1prev is not None else None
            want1 = curv / float(d @ d)
            if l1 is None or not _rel(l1, want1, 16, 1e-9):
                return {"why": "adaptive BB: a probing call after this step does not store the documented Lbb1 of (v, v+d): memory is stale",
                        "after_step": at, "d": d.tolist(), "Lbb1": l1, "documented": want1}
            l2 = float(np.asarray(pol.Lbb2prev)) if pol.Lbb2prev is not None else None
            if l2 is None or not _rel(l2, want, 16, 1e-9):
                return {"why": "adaptive BB: a probing call after this step does not store the documented Lbb2 = <dg,dg>/<dx,dg> of (v, v+d)",
                        "after_step": at, "d": d.tolist(), "Lbb2": l2, "documented": want, "Lbb1": l1}
            wantL = want if want1 / want < case["policy"]["kappa"] else want1
            if abs(want1 / want - case["policy"]["kappa"]) > 1e-9 and not _rel(L, wantL, 16, 1e-9):
                return {"why": "adaptive BB: a probing call after this step does not return the kappa rule on the ratios of (v, v+d)",
                        "after_step": at, "d": d.tolist(), "L": L, "documented": wantL}
    return oracle({k: v for k, v in case.items() if k != "at_step"})


# --------------------------------------------------------------------------
# correspondence on one trajectory


def check_case(ctx, model, case, origin="gen"):
    """returns number of disagreements recorded"""
    pol = case["policy"]
    kind = pol["kind"]
    cid = _digest(_light(case))
    recs = G.run_real(case)
    nbad = 0
    polluted_at = None
    light = _light(case)
    ctx.count(f"policy:{kind}")
    ctx.count("accel" if case["accel"] else "plain")
    ctx.count(f"flavour:{case.get('flavour','')}")
    ctx.count("complex" if case["complex"] else "real")

    def bad(op, i, impl, mod, known=None, note=""):
        nonlocal nbad
        nbad += 1
        ctx.disagree(op, {**light, "at_step": i}, impl, mod, oracle=oracle_memory if op in ("stepsize.memory", "stepsize.abb") else oracle,
                     known_id=known, note=note)

    # ---- fed tie --------------------------------------------------------------
    carried = (None, None)
    fallbacks = []
    for i, r in enumerate(recs):
        nt = None if (kind == "base" or r.get("first")) else f"{cid}:{i}"
        ctx.case({"case": cid, "step": i, "policy": pol, "accel": case["accel"], "flavour": case.get("flavour")}, nt)
        if r["raised"]:
            ctx.count(f"raised:{r['raised']}")
            try:
                model.call("search", gu=f2b(pol.get("gu", 2.0)), maxiter=max(0, int(pol.get("maxiter", 1))), L=f2b(r["Lprev"]), tests=[])
                mraised = None
            except ModelErr as e:
                mraised = e.kind
            if not (kind == "rls" and mraised == r["raised"]):
                bad("stepsize.raise", i, r["raised"], mraised)
            break
        Lprev, L = r["Lprev"], r["L"]
        # which point the policy was evaluated at
        want_pt = model.call("point", policy=_policy_wire(pol), accel=bool(case["accel"]))
        if r["point"] not in (want_pt, "x=v"):
            bad("stepsize.point", i, r["point"], want_pt)
        ctx.count(f"point:{r['point']}")
        if kind == "base":
            if not _same(L, Lprev):
                bad("stepsize.base", i, L, Lprev)
        elif kind in ("bb", "abb"):
            if not r.get("stored_ok", True):
                bad("stepsize.memory", i, "policy does not remember (v, grad f(v)) of this call", "prev := (v, grad v)")
            if r["first"]:
                ctx.count("branch:first-call")
                if not _same(L, Lprev):
                    bad("stepsize.first", i, L, Lprev)
                continue
            xx, xg, gg = r["ips"]
            if kind == "bb":
                m = b2f(model.call("bb", Lprev=f2b(Lprev), xg=f2b(xg), gg=f2b(gg)))
                took = _same(m, gg / xg) if xg != 0 else False
                ctx.count("branch:bb-ratio" if took else "branch:bb-fallback")
                if not took:
                    fallbacks.append(i)
                if xg == 0:
                    ctx.count("exact:xg=0,gg>0" if gg > 0 else "exact:xg=0,gg=0")
                if not _same(L, m):
                    bad("stepsize.bb", i, {"L": L, "ips": r["ips"], "Lprev": Lprev}, {"L": m})
            else:
                m1, m2 = carried  # the model's own memory from the previous call (not the policy's attributes)
                out = model.call("abb", kappa=f2b(pol["kappa"]), Lprev=f2b(Lprev), m1=_optb(m1), m2=_optb(m2),
                                 xx=f2b(xx), xg=f2b(xg), gg=f2b(gg))
                mL = b2f(out["L"])
                mm = (None if out["m1"] is None else b2f(out["m1"]), None if out["m2"] is None else b2f(out["m2"]))
                ia = r["mem_after"]
                carried = mm
                ctx.count("branch:abb-mem-" + ("".join("s" if v is not None else "n" for v in (m1, m2))))
                memok = all((a is None and b is None) or (a is not None and b is not None and _same(a, b)) for a, b in zip(ia, mm))
                if not _same(L, mL) or not memok:
                    bad("stepsize.abb", i, {"L": L, "mem_after": ia, "ips": r["ips"], "mem": r["mem"], "Lprev": Lprev},
                        {"L": mL, "mem_after": mm})
        else:
            start = Lprev if kind == "ls" else Lprev * pol["gd"]
            tests = [[f2b(t["fz"]), f2b(t["fq"])] for t in r["tests"]]
            try:
                out = model.call("search", gu=f2b(pol["gu"]), maxiter=max(0, int(pol["maxiter"])), L=f2b(start), tests=tests)
                mL, mtried = b2f(out["L"]), out["tried"]
            except ModelErr:
                mL, mtried = Lprev, 0  # maxiter = 0: plain line search returns pgm.L without a trial
                if kind == "rls":
                    bad("stepsize.raise", i, None, "other")
                    break
            ctx.count(f"trials:{min(len(r['tests']), 9)}")
            if kind == "rls" and not case["accel"] and r["tests"]:
                ctx.count("pgm-robust:Z==x" if _vec_close(r["Z"], r["x"], 1e-12) else "pgm-robust:Z!=x (Z ignored)")
            if r["tests"]:
                t = r["tests"][-1]
                ctx.count("branch:search-accepted" if t["fz"] <= t["fq"] else "branch:search-exhausted")
                if t["fz"] == t["fq"]:
                    ctx.count("exact:fz=fq")
                if any(math.isnan(tt["fz"]) for tt in r["tests"]):
                    ctx.count("nan:candidate-outside-domain")
                if all(math.isnan(tt["fq"]) for tt in r["tests"]):
                    ctx.count("nan:point-outside-domain")
            impl = {"L": L, "trials": len(r["tests"]), "tried": [t["L"] for t in r["tests"]]}
            if not _same(L, mL) or mtried != len(r["tests"]):
                bad("stepsize.search", i, impl, {"L": mL, "trials": mtried})
            else:
                # the candidate handed back is the one computed with the returned L
                if r["tests"]:
                    z = r["tests"][-1]["z"]
                    got = r["Z"] if kind == "rls" else r["x"]
                    if not common.allclose(got, z, None, 1e-8):
                        bad("stepsize.candidate", i, got.tolist(), z.tolist())
        if kind == "abb" and not r.get("first") and r.get("ips") is not None:
            xx_, xg_, gg_ = r["ips"]
            if not (xg_ > 0 and xx_ > 0 and gg_ > 0):
                fallbacks.append(i)
        if nbad and polluted_at is None:
            polluted_at = i
    for i in fallbacks:
        ctx.count("fallback:followed-by>=2-steps" if len(recs) - 1 - i >= 2 else "fallback:near-end")
    # ---- run tie --------------------------------------------------------------
    if nbad:
        return nbad
    if case.get("barrier"):
        ctx.count("run:non-quadratic loss (log barrier)")
    try:
        out = model.call(
            "run", Q=[common.fs2b(row) for row in case["Q"]], b=common.fs2b(case["b"]), c=f2b(case["c"]), g=case["g"],
            gw=f2b(case["gw"]), x0=common.fs2b(case["x0"]), L0=f2b(case["L0"]), policy=_policy_wire(pol),
            accel=bool(case["accel"]), steps=int(case["steps"]), **({"barrier": f2b(case["barrier"])} if case.get("barrier") else {}),
        )
    except ModelErr as e:
        raise common.Infra(f"model run rejected a case: {e.kind}")
    states = out["states"]
    for i, r in enumerate(recs):
        if r["raised"]:
            if not (out["raised"] and len(states) == i):
                bad("stepsize.run.raise", i, r["raised"], {"raised": out["raised"], "steps_done": len(states)})
            break
        if i >= len(states):
            bad("stepsize.run.raise", i, None, {"raised": out["raised"], "steps_done": len(states)})
            break
        st = states[i]
        mL, mx = b2f(st["L"]), common.b2fs(st["x"])
        okL = _rel(r["L"], mL, 8, TOL)
        if not okL and kind in ("bb", "abb") and r.get("ips") is not None and r["ips"][0] > 0:
            # the BB values are difference quotients: their rounding error is eps*|x|/|dx| (cancellation in dx, dg), which near
            # convergence exceeds the fixed tolerance although both sides are right (seed 31: |dx| ~ 1e-8, L differs by 1e-8)
            cond = math.sqrt((1.0 + float(r["x_before"] @ r["x_before"])) / r["ips"][0])
            okL = cond * 1e-13 < 1e-3 and _rel(r["L"], mL, 1, max(8 * TOL, cond * 1e-13))
            if okL:
                ctx.count("run:L-within-conditioning-of-difference-quotient")
        ok = okL and _vec_close(r["x"], mx, 1e-8)
        if ok and kind in ("ls", "rls"):
            ok = st["tried"] == len(r["tests"])
        if ok and case["accel"] and kind != "rls":
            ok = _vec_close(r["v"], common.b2fs(st["v"]), 1e-8) and common.close(r["t"], b2f(st["t"]), 4, TOL)
        if ok and kind == "rls":
            ok = _rel(r["Tk"], b2f(st["Tk"]), 8, 1e-8)
        if not ok:
            if _near_tie(kind, r, pol, _scale(case)):
                ctx.count("run:discarded-near-tie")
                break
            bad("stepsize.run", i, {"L": r["L"], "x": r["x"].tolist(), "trials": len(r["tests"]), "t": r.get("t")},
                {"L": mL, "x": mx, "trials": st["tried"], "t": b2f(st["t"])})
            break
        ctx.count("run:steps-compared")
    return nbad


def _near_tie(kind, r, pol, sc=1.0):
    """a decision of this step is within rounding of its boundary (the run tie cannot follow it); `sc` = scale of the loss"""
    if kind in ("bb", "abb") and r["ips"] is not None:
        xx, xg, gg = r["ips"]
        if abs(xg) <= 1e-9 * (math.sqrt(abs(xx * gg)) + 1e-300) or xx <= 1e-18 or gg <= 1e-18 * sc * sc:
            return True
        if kind == "abb":
            m1, m2 = r.get("mem_after", (None, None))
            if m1 is not None and m2 is not None and m2 != 0 and abs(m1 / m2 - pol["kappa"]) <= 1e-9:
                return True
    for t in r["tests"]:
        if abs(t["fz"] - t["fq"]) <= 1e-9 * (sc + abs(t["fz"]) + abs(t["fq"])):
            return True
    return False


# --------------------------------------------------------------------------
# policy objects driven directly (stub solver): arbitrary histories incl. inf / NaN / overflow


class _StubF:
    def __init__(self):
        self.next_grad = None

    def grad(self, v):
        return self.next_grad


class _StubPGM:
    def __init__(self, L):
        self.L = L
        self.f = _StubF()


_SPECIAL = [0.0, 0.0, 1.0, -1.0, 0.5, 2.0, -3.0, 1e200, -1e200, 1e-200, float("inf"), float("-inf"), float("nan")]


def check_stub_histories(ctx, model, n_hist):
    """BB / adaptive BB `update` called on a stub `pgm` with prescribed iterates and gradients, so that the
    inner products take every kind of value (zero, negative, huge -> overflow to inf, inf, NaN): the Lean rules at
    `Float` must agree with the real arithmetic on every call of the history, L fed back as the solver does."""
    import scico.numpy as snp
    from scico.optimize.pgm import AdaptiveBBStepSize, BBStepSize

    rng = ctx.rng
    for h in range(n_hist):
        kind = "bb" if h % 2 == 0 else "abb"
        kappa = float([0.25, 0.5, 0.75, float("nan")][int(rng.integers(0, 4))])
        pol = BBStepSize() if kind == "bb" else AdaptiveBBStepSize(kappa=kappa)
        pgm = _StubPGM(float([1.0, 0.5, 4.0][int(rng.integers(0, 3))]))
        pol.internal_init(pgm)
        steps = int(rng.integers(4, 10))
        special = rng.integers(0, 3) == 0
        hist = []
        shadow = None
        carried = (None, None)
        for i in range(steps):
            def vec():
                if special:
                    return np.array([_SPECIAL[int(rng.integers(0, len(_SPECIAL)))] for _ in range(2)], dtype=np.float64)
                return common.dyadic(rng, (2,), bits=2, scale=3.0) * (0.0 if rng.integers(0, 5) == 0 else 1.0)

            v, g = vec(), vec()
            first = shadow is None  # the harness' own copy of the documented memory (previous call), not the policy's
            if not first:
                with np.errstate(all="ignore"):
                    dx = snp.array(v) - snp.array(shadow[0])
                    dg = snp.array(g) - snp.array(shadow[1])
                    xx = float(snp.real(snp.sum(dx.conj() * dx)))
                    xg = float(snp.real(snp.sum(dx.conj() * dg)))
                    gg = float(snp.real(snp.sum(dg.conj() * dg)))
            mem = carried  # the model's memory carried by the harness
            pgm.f.next_grad = snp.array(g)
            Lprev = float(pgm.L)
            L = float(pol.update(snp.array(v)))
            case = {"what": "stub-history", "kind": kind, "kappa": kappa, "step": i, "v": v.tolist(), "g": g.tolist(), "Lprev": Lprev, "history": hist[-6:]}
            hist.append([v.tolist(), g.tolist()])
            ctx.case({"what": "stub", "kind": kind, "step": i}, None if first else f"stub:{ctx.seed}:{h}:{i}")
            if first:
                if not _same(L, Lprev):
                    ctx.disagree("stepsize.stub.first", case, L, Lprev)
            elif kind == "bb":
                m = b2f(model.call("bb", Lprev=f2b(Lprev), xg=f2b(xg), gg=f2b(gg)))
                ctx.count("stub:bb:" + ("nan" if math.isnan(gg / xg if xg != 0 else (float("nan") if gg == 0 or math.isnan(gg) else math.copysign(float("inf"), gg))) else "num"))
                if not _same(L, m):
                    ctx.disagree("stepsize.stub.bb", {**case, "ips": [xx, xg, gg]}, L, m, oracle=_oracle_stub)
            else:
                out = model.call("abb", kappa=f2b(kappa), Lprev=f2b(Lprev), m1=_optb(mem[0]), m2=_optb(mem[1]), xx=f2b(xx), xg=f2b(xg), gg=f2b(gg))
                mm = (None if out["m1"] is None else b2f(out["m1"]), None if out["m2"] is None else b2f(out["m2"]))
                ia = (None if pol.Lbb1prev is None else float(pol.Lbb1prev), None if pol.Lbb2prev is None else float(pol.Lbb2prev))
                memok = all((a is None and b is None) or (a is not None and b is not None and _same(a, b)) for a, b in zip(ia, mm))
                carried = mm
                ctx.count("stub:abb-mem-" + "".join("s" if x is not None else "n" for x in ia))
                if not _same(L, b2f(out["L"])) or not memok:
                    ctx.disagree("stepsize.stub.abb", {**case, "ips": [xx, xg, gg], "mem": mem}, {"L": L, "mem": ia}, {"L": b2f(out["L"]), "mem": mm}, oracle=_oracle_stub)
            if not first and not (math.isfinite(L) and L > 0) and (math.isfinite(Lprev) and Lprev > 0):
                ctx.violation({"kind": "failing-input", "case": {**case, "ips": [xx, xg, gg]}, "failing": {"why": "returned L is not a finite positive number", "L": L}}, True,
                              "stepsize.stub: property fails on the implementation")
            stored = pol.xprev is not None and np.array_equal(np.asarray(pol.xprev), v, equal_nan=True) and np.array_equal(np.asarray(pol.gradprev), g, equal_nan=True)
            if not stored:
                ctx.disagree("stepsize.stub.memory", case, "policy does not remember (v, grad) of this call", "prev := (v, grad v)", oracle=_oracle_stub_next)
            shadow = (v, g)
            pgm.L = L  # as PGM.step does


def _oracle_stub(case):
    """property on the implementation for one stub call, recomputed from the recorded history alone:
    BB returns the documented ratio when it is finite positive, the previous L otherwise"""
    if case.get("kind") != "bb":
        return None
    xx, xg, gg = case["ips"]
    with np.errstate(all="ignore"):
        r = float(np.float64(gg) / np.float64(xg))
    want = r if G.finite_pos(r) else case["Lprev"]
    import scico.numpy as snp
    from scico.optimize.pgm import BBStepSize

    pol = BBStepSize()
    pgm = _StubPGM(case["Lprev"])
    pol.internal_init(pgm)
    L = None
    for v, g in case["history"][-1:] + [[case["v"], case["g"]]]:
        pgm.f.next_grad = snp.array(np.asarray(g, dtype=np.float64))
        L = float(pol.update(snp.array(np.asarray(v, dtype=np.float64))))
    if not _same(L, want):
        return {"why": "BB: L is neither the documented ratio nor the previous value", "L": L, "documented_ratio": r, "Lprev": case["Lprev"],
                "previous (v, grad)": case["history"][-1:], "current (v, grad)": [case["v"], case["g"]]}
    return None


def _oracle_stub_next(case):
    """stale memory shows as a wrong ratio on the next call: replay the recorded history plus one probing call"""
    if case.get("kind") != "bb":
        return None
    import scico.numpy as snp
    from scico.optimize.pgm import BBStepSize

    pol = BBStepSize()
    pgm = _StubPGM(1.0)
    pol.internal_init(pgm)
    seq = case["history"] + [[case["v"], case["g"]]]
    # probing call: previous + (1, 0) with gradient difference (2, 0)  ->  documented ratio 2
    pv = np.asarray(seq[-1][0], dtype=np.float64)
    pg = np.asarray(seq[-1][1], dtype=np.float64)
    if not (np.all(np.isfinite(pv)) and np.all(np.isfinite(pg))):
        return None
    seq = seq + [[(pv + np.array([1.0, 0.0])).tolist(), (pg + np.array([2.0, 0.0])).tolist()]]
    L = None
    for v, g in seq:
        pgm.f.next_grad = snp.array(np.asarray(g, dtype=np.float64))
        L = float(pol.update(snp.array(np.asarray(v, dtype=np.float64))))
        pgm.L = L
    if not _same(L, 2.0, 1e-9):
        return {"why": "BB: after this history a step dx=(1,0), dg=(2,0) does not give the documented ratio 2 (stale memory)", "L": L, "calls (v, grad)": seq}
    return None


# --------------------------------------------------------------------------
# line-search objects driven directly (stub solver): every acceptance pattern, exhaustively


class _StubG:
    def prox(self, v, lam):
        return v


class _StubSearchPGM:
    """stub solver for the two line-search classes: f = 0, grad = 0, prox = id, and the outcome of the acceptance test of
    trial i is prescribed (f_quad_approx returns +1: accepted, -1: rejected); records every L a candidate is computed for"""

    def __init__(self, L, accepts, x):
        self.L = L
        self.accepts = accepts
        self.tried = []
        self.g = _StubG()
        self.x = x
        self.f = self

    def grad(self, v):
        return 0.0 * v

    def __call__(self, z):
        return 0.0

    def f_quad_approx(self, z, y, L):
        i = len(self.tried)
        self.tried.append(float(L))
        a = self.accepts[i] if i < len(self.accepts) else False
        return float("nan") if a is None else (1.0 if a else -1.0)

    def x_step(self, y, L):
        return y


def _stub_search_call(case):
    import scico.numpy as snp
    from scico.optimize.pgm import LineSearchStepSize, RobustLineSearchStepSize

    pgm = _StubSearchPGM(case["L"], list(case["accepts"]), snp.array(np.array([1.0, -2.0])))
    if case["kind"] == "ls":
        pol = LineSearchStepSize(gamma_u=case["gu"], maxiter=case["maxiter"])
    else:
        pol = RobustLineSearchStepSize(gamma_d=case["gd"], gamma_u=case["gu"], maxiter=case["maxiter"])
    pol.internal_init(pgm)
    try:
        L = float(pol.update(pgm.x))
        return {"L": L, "tried": pgm.tried, "raised": None, "Tk": float(pol.Tk) if case["kind"] == "rls" else None}
    except Exception as e:  # noqa: BLE001
        return {"L": None, "tried": pgm.tried, "raised": common.err_kind(e), "raised_type": type(e).__name__}


def _oracle_stub_search(case, r=None):
    """the property on the implementation for one prescribed acceptance pattern: L0*gamma_u^k for the least accepted
    k < maxiter, the last value tried otherwise, exactly k+1 candidates evaluated, geometric trial values"""
    if r is None:
        r = _stub_search_call(case)
    acc, mx, gu = case["accepts"], case["maxiter"], case["gu"]
    start = case["L"] if case["kind"] == "ls" else case["L"] * case["gd"]
    if mx == 0:
        if case["kind"] == "ls":
            return None if (r["L"] == case["L"] and not r["tried"]) else {"why": "maxiter = 0: L must be returned unchanged without a trial", **r}
        return None  # robust search with maxiter = 0 raises (modelled as it is)
    if r["raised"]:
        return {"why": "line search raised", **r, "case": case}
    k = next((i for i, a in enumerate(acc) if a), mx - 1)  # a NaN model value (None) never satisfies f(z) <= f_quad
    want = [start * gu ** j for j in range(k + 1)]
    if r["tried"] != want or r["L"] != want[-1]:
        return {"why": "line search does not return the first accepted value of L0*gamma_u^k (last tried if none), after k+1 trials",
                "accept_pattern": acc, "maxiter": mx, "tried": r["tried"], "returned": r["L"], "expected_trials": want}
    if case["kind"] == "rls" and not _rel(r["Tk"], 1.0 / r["L"], 4, 1e-15):
        return {"why": "robust search: T_1 != t(L returned) = 1/L", "Tk": r["Tk"], "L": r["L"]}
    return None


def check_stub_search(ctx, model):
    """exhaustive small scope: both line-search classes on a stub solver for every pattern of outcomes of the acceptance
    test (accepted / rejected / NaN quadratic model, which is never accepted) for every budget 0..4 (3^0+…+3^4 = 121
    patterns each, budget 5 with the two-valued patterns) against the Lean `searchLoop`, two parameter sets"""
    import itertools

    n = 0
    for (L0, gu, gd) in ((3.0, 2.0, 0.5), (0.75, 1.5, 0.25)):
        for maxiter in range(0, 6):
            for accepts in itertools.product([False, True, None] if maxiter <= 4 else [False, True], repeat=maxiter):
                for kind in ("ls", "rls"):
                    case = {"what": "stub-search", "kind": kind, "L": L0, "gu": gu, "gd": gd, "maxiter": maxiter, "accepts": list(accepts)}
                    r = _stub_search_call(case)
                    n += 1
                    ctx.case({"what": "stub-search", "kind": kind, "maxiter": maxiter, "accepts": list(accepts)},
                             None if maxiter == 0 else f"stubsearch:{kind}:{L0}:{maxiter}:{accepts}")
                    ctx.count(f"stub-search:{kind}")
                    start = L0 if kind == "ls" else L0 * gd
                    tests = [[f2b(0.0), f2b(float("nan") if a is None else (1.0 if a else -1.0))] for a in accepts]
                    try:
                        out = model.call("search", gu=f2b(gu), maxiter=int(maxiter), L=f2b(start), tests=tests)
                        m = {"L": b2f(out["L"]), "tried": out["tried"], "raised": None}
                    except ModelErr as e:
                        m = {"L": L0 if kind == "ls" else None, "tried": 0, "raised": None if kind == "ls" else e.kind}
                    same = (r["raised"] == m["raised"]) and (r["raised"] is not None or (r["L"] == m["L"] and len(r["tried"]) == m["tried"]))
                    if not same:
                        ctx.disagree("stepsize.stub.search", case, r, m, oracle=_oracle_stub_search)
                        continue
                    bad = _oracle_stub_search(case, r)
                    if bad is not None:
                        ctx.disagree("stepsize.stub.search.property", case, bad, None, oracle=_oracle_stub_search)
    ctx.extra["exhaustive"] = f"line-search control flow: all accept/reject/NaN patterns for maxiter <= 4 and accept/reject for maxiter = 5, both classes, 2 parameter sets ({n} calls)"


# --------------------------------------------------------------------------
# block arrays: the same separable quadratic on a BlockArray variable and on its concatenation


def _block_runs(case):
    """L and x trajectories of the real solver on f(x) = 1/2 sum(q*x*x) + sum(b*x) with x a BlockArray of shapes
    (n1,), (r, c) and with x the flat concatenation"""
    import scico.numpy as snp
    from scico import functional
    from scico.optimize import PGM, AcceleratedPGM

    n1, r, c = case["shapes"]
    q = np.asarray(case["q"], dtype=np.float64)
    b = np.asarray(case["b"], dtype=np.float64)
    x0 = np.asarray(case["x0"], dtype=np.float64)

    def split(a):
        return snp.blockarray([snp.array(a[:n1]), snp.array(a[n1:].reshape(r, c))])

    class Quad(functional.Functional):
        has_eval = True
        has_prox = False

        def __init__(self, qq, bb):
            self.qq, self.bb = qq, bb
            super().__init__()

        def __call__(self, x):
            return 0.5 * snp.sum(self.qq * x * x) + snp.sum(self.bb * x)

    out = []
    for blocked in (True, False):
        f = Quad(split(q), split(b)) if blocked else Quad(snp.array(q), snp.array(b))
        cls = AcceleratedPGM if case["accel"] else PGM
        s = cls(f=f, g=functional.ZeroFunctional(), L0=case["L0"], x0=split(x0) if blocked else snp.array(x0),
                step_size=G.make_policy(case["policy"]), maxiter=case["steps"])
        Ls, xs = [], []
        try:
            for _ in range(case["steps"]):
                s.step()
                Ls.append(float(np.asarray(s.L)))
                xs.append(np.concatenate([np.asarray(blk).ravel() for blk in s.x]) if blocked else np.asarray(s.x))
            out.append(("ok", Ls, xs))
        except Exception as e:  # noqa: BLE001
            out.append(("err", common.err_kind(e), type(e).__name__, Ls, xs))
    return out


def oracle_block(case):
    """the policies must not depend on how the variable is partitioned into blocks: same L at every step"""
    blk, flat = _block_runs(case)
    if blk[0] != flat[0]:
        return {"why": "a step-size policy behaves differently on a BlockArray variable than on the concatenated array",
                "blockarray": str(blk[:3]), "flat": str(flat[:3])}
    if blk[0] == "err":
        return None
    # decision margins of the flat run (the same problem through the instrumented runner): a step whose decision is within
    # rounding of its boundary (e.g. a converged coordinate: dx = 0 exactly in one run, 1 ulp in the other) ends the comparison
    flatcase = {**G.pack_problem(np.diag(np.asarray(case["q"], dtype=np.float64)), case["b"], 0.0, "zero", 1.0, case["x0"], case["L0"], False, "block"),
                "policy": case["policy"], "accel": case["accel"], "steps": case["steps"]}
    recs = G.run_real(flatcase)
    for i, (a, b_) in enumerate(zip(blk[1], flat[1])):
        if i < len(recs) and not recs[i]["raised"] and _near_tie(case["policy"]["kind"], recs[i], case["policy"]):
            return None
        if not _rel(a, b_, 8, 1e-10):
            return {"why": "L differs between a BlockArray variable and the concatenated array", "step": i, "L_block": a, "L_flat": b_,
                    "policy": case["policy"]}
        if not _vec_close(blk[2][i], flat[2][i], 1e-8):
            return {"why": "iterates differ between a BlockArray variable and the concatenated array", "step": i}
    return None


def check_blocks(ctx, n):
    rng = ctx.rng
    for _ in range(n):
        n1, r, c = int(rng.integers(1, 3)), int(rng.integers(1, 3)), int(rng.integers(1, 3))
        N = n1 + r * c
        pol = G.gen_policy(rng, ["bb", "abb", "ls", "rls"][int(rng.integers(0, 4))])
        case = {"what": "block", "shapes": [n1, r, c], "q": (rng.integers(-2, 9, size=N) / 2.0).tolist(),
                "b": common.dyadic(rng, (N,), bits=3, scale=3.0).tolist(), "x0": common.dyadic(rng, (N,), bits=3, scale=2.0).tolist(),
                "L0": float([0.5, 1.0, 2.0, 4.0][int(rng.integers(0, 4))]), "policy": pol, "accel": bool(rng.integers(0, 2)),
                "steps": int(rng.integers(3, 7))}
        ctx.case({"what": "block", "policy": pol["kind"], "accel": case["accel"]}, json.dumps(case, sort_keys=True))
        ctx.count(f"block:{pol['kind']}")
        bad = oracle_block(case)
        if bad is not None:
            ctx.disagree("stepsize.block", case, bad, None, oracle=oracle_block)


# --------------------------------------------------------------------------
# history / aliasing: one step-size object serving two optimizers in turn


def _reuse_runs(case):
    """records of the second solver when its policy object served `case["first"]` before, and with a fresh object"""
    c1 = {**case["first"], "policy": case["policy"]}
    c2 = {**case["second"], "policy": case["policy"]}
    s1, pol = G.make_solver(c1)
    try:
        for _ in range(c1["steps"]):
            s1.step()
    except Exception:  # noqa: BLE001
        pass
    try:
        used = G.run_real(c2, pol=pol)
    except Exception as e:  # noqa: BLE001
        used = [{"raised": common.err_kind(e), "raised_type": type(e).__name__, "construct": True}]
    return used, G.run_real(c2)


def oracle_reuse(case):
    """PGM.__init__ re-attaches the step-size object (internal_init): the history of the first optimizer must not reach the
    second one — same L and iterates as with a fresh object, at every step"""
    used, fresh = _reuse_runs(case)
    for i, (a, b_) in enumerate(zip(used, fresh)):
        if bool(a.get("raised")) != bool(b_.get("raised")):
            return {"step": i, "why": "a re-used step-size object makes the second optimizer raise / not raise, unlike a fresh one",
                    "reused": a.get("raised_type"), "fresh": b_.get("raised_type")}
        if a.get("raised"):
            break
        if not _rel(a["L"], b_["L"], 4, 1e-12) or not _vec_close(a["x"], b_["x"], 1e-10):
            return {"step": i, "why": "a step-size object that served another optimizer before does not behave like a fresh one "
                                      "(state carried over the re-attachment)", "L_reused": a["L"], "L_fresh": b_["L"],
                    "x_reused": a["x"].tolist(), "x_fresh": b_["x"].tolist(), "policy": case["policy"]}
    if len(used) != len(fresh):
        return {"why": "different number of completed steps", "reused": len(used), "fresh": len(fresh)}
    return None


def check_reuse(ctx, n):
    rng = ctx.rng
    for _ in range(n):
        pol = G.gen_policy(rng, ["bb", "abb", "ls", "rls"][int(rng.integers(0, 4))])
        if pol.get("maxiter") == 0:
            pol["maxiter"] = 3
        fl = ["diag-pos", "dense-psd", "diag-indef", "complex-herm"][int(rng.integers(0, 4))]
        first = {**G.gen_problem(rng, fl), "accel": bool(rng.integers(0, 2)), "steps": int(rng.integers(2, 5))}
        second = {**G.gen_problem(rng, fl), "accel": bool(rng.integers(0, 2)), "steps": int(rng.integers(2, 5))}
        case = {"what": "reuse", "policy": pol, "first": first, "second": second}
        ctx.case({"what": "reuse", "policy": pol["kind"], "sizes": [len(first["x0"]), len(second["x0"])]}, json.dumps(case, sort_keys=True))
        ctx.count(f"reuse:{pol['kind']}:{'same' if len(first['x0']) == len(second['x0']) else 'other'}-size")
        bad = oracle_reuse(case)
        if bad is not None:
            ctx.disagree("stepsize.reuse", case, bad, "PolState.attach = PolState.init", oracle=oracle_reuse)


_GRID = [0.0, 1.0, -1.0, 2.0, 1e200, 1e-200, float("inf"), float("nan")]


def check_stub_bb_grid(ctx, model):
    """exhaustive small scope for the two Barzilai-Borwein rules: real policy objects on a stub solver, the step (dx, dg) running
    over ALL pairs of 2-vectors with entries in {0, 1, -1, 2, 1e200, 1e-200, inf, nan} (64 x 64 pairs: zero, orthogonal,
    negative, overflowing, underflowing, infinite and NaN inner products in every combination), (a) from a fresh memory and
    (b) for adaptive BB after one usable step (memory 2, 2): returned L and the memory against `bbRule` / `abbRule` at Float"""
    import itertools

    import scico.numpy as snp
    from scico.optimize.pgm import AdaptiveBBStepSize, BBStepSize

    vecs = [np.array(p, dtype=np.float64) for p in itertools.product(_GRID, repeat=2)]
    n = 0
    with np.errstate(all="ignore"):
        for kind, warm in (("bb", False), ("abb", False), ("abb", True)):
            if not ctx.thorough and kind == "abb" and not warm:
                sub = vecs[:: 3]
            else:
                sub = vecs if ctx.thorough else vecs[:: 2]
            for dx in sub:
                for dg in (vecs if ctx.thorough else vecs[1:: 2] + vecs[:8]):
                    pol = BBStepSize() if kind == "bb" else AdaptiveBBStepSize(kappa=0.5)
                    pgm = _StubPGM(1.0)
                    pol.internal_init(pgm)
                    seq = [(np.zeros(2), np.zeros(2))] + ([(np.array([1.0, 0.0]), np.array([2.0, 0.0]))] if warm else [])
                    base_v, base_g = seq[-1]
                    seq = seq + [(base_v + dx, base_g + dg)]
                    mem = (None, None)
                    L = None
                    for j, (v, g) in enumerate(seq):
                        pgm.f.next_grad = snp.array(g)
                        Lprev = float(pgm.L)
                        L = float(pol.update(snp.array(v)))
                        if j == 0:
                            continue
                        pv, pg = seq[j - 1]
                        ddx, ddg = snp.array(v) - snp.array(pv), snp.array(g) - snp.array(pg)
                        xx = float(snp.real(snp.sum(ddx.conj() * ddx)))
                        xg = float(snp.real(snp.sum(ddx.conj() * ddg)))
                        gg = float(snp.real(snp.sum(ddg.conj() * ddg)))
                        case = {"what": "stub-grid", "kind": kind, "warm": warm, "dx": dx.tolist(), "dg": dg.tolist(), "call": j,
                                "ips": [xx, xg, gg], "Lprev": Lprev}
                        if kind == "bb":
                            mL = b2f(model.call("bb", Lprev=f2b(Lprev), xg=f2b(xg), gg=f2b(gg)))
                            okk = _same(L, mL)
                        else:
                            out = model.call("abb", kappa=f2b(0.5), Lprev=f2b(Lprev), m1=_optb(mem[0]), m2=_optb(mem[1]), xx=f2b(xx), xg=f2b(xg), gg=f2b(gg))
                            mm = (None if out["m1"] is None else b2f(out["m1"]), None if out["m2"] is None else b2f(out["m2"]))
                            ia = (None if pol.Lbb1prev is None else float(pol.Lbb1prev), None if pol.Lbb2prev is None else float(pol.Lbb2prev))
                            okk = _same(L, b2f(out["L"])) and all((a is None and b_ is None) or (a is not None and b_ is not None and _same(a, b_)) for a, b_ in zip(ia, mm))
                            mem = mm
                            mL = b2f(out["L"])
                        if not okk:
                            ctx.disagree("stepsize.stub.grid", case, L, mL)
                        if not (math.isfinite(L) and L > 0) and math.isfinite(Lprev) and Lprev > 0:
                            ctx.violation({"kind": "failing-input", "case": case, "failing": {"why": "returned L is not a finite positive number", "L": L}}, True,
                                          "stepsize.stub.grid: property fails on the implementation")
                        pgm.L = L
                    n += 1
                    ctx.case({"what": "stub-grid", "kind": kind, "warm": warm}, f"grid:{kind}:{warm}:{dx.tolist()}:{dg.tolist()}")
    ctx.count(f"stub-grid:pairs={n}")
    ctx.extra["exhaustive_bb"] = (f"BB / adaptive BB on all pairs of special-value 2-vectors ({n} histories"
                                  + ("" if ctx.thorough else "; quick tier: every second / third pair, all pairs in the thorough tier") + ")")


# --------------------------------------------------------------------------
# default precision (no jax_enable_x64): float32 / complex64 problems in a worker subprocess


def _f32_worker(cases):
    import subprocess
    import sys

    p = subprocess.run([sys.executable, str(common.VERIF / "harness" / "stepsize_f32_worker.py")],
                       input=json.dumps({"repo": str(common.REPO), "cases": cases}), capture_output=True, text=True, timeout=900)
    if p.returncode != 0:
        raise common.Infra("stepsize_f32_worker failed: " + p.stderr[-800:])
    return json.loads(p.stdout.strip().splitlines()[-1])["results"]


def _f32_property(case, rec, ref):
    """the property on one default-precision run: nothing raises (except where the x64 run raises too), every L is a finite
    positive number, the iterate stays float32 / complex64 and L is not promoted to a 64-bit array"""
    want_dt = "complex64" if case["complex"] else "float32"
    if rec.get("construct_raised"):
        return {"why": "default precision (no x64): constructing the solver on float32 data raised", "error": rec["construct_raised"]}
    if rec.get("x0_dtype") != want_dt:
        return {"why": "default precision: the solver does not keep the dtype of x0", "dtype": rec.get("x0_dtype"), "expected": want_dt}
    for i, st in enumerate(rec["steps"]):
        if st.get("raised"):
            if i < len(ref) and ref[i]["raised"]:
                return None
            return {"step": i, "why": "default precision (no x64): step raised on a float32 problem", "error": st["raised"]}
        if not (math.isfinite(st["L"]) and st["L"] > 0):
            return {"step": i, "why": "default precision: returned L is not a finite positive number", "L": st["L"]}
        if st["x_dtype"] != want_dt:
            return {"step": i, "why": "default precision: the iterate changed dtype", "dtype": st["x_dtype"], "expected": want_dt}
        if st["L_type"] in ("float64", "complex128", "complex64"):
            return {"step": i, "why": "default precision: L is not a real 32-bit value / Python float", "L_type": st["L_type"]}
    return None


def oracle_f32(case):
    c = {k: v for k, v in case.items() if k not in ("at_step", "what")}
    return _f32_property(c, _f32_worker([c])[0], G.run_real(c))


def check_default_precision(ctx, n):
    """the library's DEFAULT precision mode (worker subprocess without jax_enable_x64): crafted boundary cases (exact zeros of the
    inner products are exact at float32 too: dyadic data) and random problems at float32 / complex64 — no raise, L finite positive,
    dtypes stay 32-bit — and L against the x64 run at a float32 tolerance until the first float32-near-tie"""
    rng = ctx.rng
    cases = [c for c in G.crafted_cases() if c.get("flavour") in ("orthogonal", "stationary", "negative", "fallback-then-usable", "abb-orthogonal-after-memory", "complex-orthogonal", "tie")
             or (c.get("flavour") == "budget" and c["policy"]["maxiter"] in (1, 3))]
    for i in range(n):
        pol = G.gen_policy(rng, ["bb", "abb", "ls", "rls", "base"][i % 5])
        p = G.gen_problem(rng, ["diag-pos", "dense-psd", "diag-indef", "complex-herm", "complex-rv", "zero-curv"][i % 6])
        cases.append({**p, "policy": pol, "accel": bool(rng.integers(0, 2)), "steps": int(rng.integers(3, 7))})
    cases = [{**_light(c)} for c in cases]
    results = _f32_worker(cases)
    for case, rec in zip(cases, results):
        ref = G.run_real(case)
        kind = case["policy"]["kind"]
        ctx.case({"what": "f32", "policy": kind, "accel": case["accel"], "flavour": case.get("flavour")}, "f32:" + _digest(case))
        ctx.count(f"f32:{kind}")
        bad = _f32_property(case, rec, ref)
        if bad is not None:
            ctx.violation({"kind": "failing-input", "case": {**case, "what": "f32"}, "failing": bad}, True, "stepsize.f32: property fails on the implementation")
            continue
        for i, (st, r) in enumerate(zip(rec["steps"], ref)):
            if st.get("raised") or r["raised"]:
                break
            # float32-near ties of the x64 run end the comparison (a decision may legitimately differ at single precision)
            near = any(abs(t["fz"] - t["fq"]) <= 1e-4 * (1.0 + abs(t["fz"]) + abs(t["fq"])) or math.isnan(t["fz"] - t["fq"]) for t in r["tests"])
            tol = 2e-3
            if kind in ("bb", "abb") and r.get("ips") is not None:
                xx, xg, gg = r["ips"]
                if not (xx > 1e-6 * (1.0 + float(r["x_before"] @ r["x_before"]))) or abs(xg) <= 1e-3 * math.sqrt(abs(xx * gg)) or not math.isfinite(xx * gg):
                    near = True
                else:
                    tol = max(tol, 1e-5 * math.sqrt((1.0 + float(r["x_before"] @ r["x_before"])) / xx))
                if kind == "abb" and r.get("mem_after", (None, None))[0] is not None and r["mem_after"][1]:
                    if abs(r["mem_after"][0] / r["mem_after"][1] - case["policy"]["kappa"]) <= 1e-3:
                        near = True
            if near or tol > 0.1:
                ctx.count("f32:comparison-ended-at-near-tie")
                break
            if not _rel(st["L"], r["L"], 1, tol) or not _vec_close(st["x"], r["x"], 1e-3):
                ctx.disagree("stepsize.f32", {**case, "what": "f32", "at_step": i}, {"L": st["L"], "x": st["x"]}, {"L_x64": r["L"], "x_x64": r["x"].tolist()},
                             oracle=oracle_f32, note="float32 run differs from the x64 run beyond single-precision tolerance")
                break
            ctx.count("f32:steps-compared")


def _corpus():
    d = common.CORPUS_DIR / PROP
    out = []
    if d.exists():
        for p in sorted(d.glob("*.json")):
            out.append((p.name, json.loads(p.read_text())))
    return out


def correspond(ctx, model):
    common.setup_scico()
    for name, c in _corpus():
        case = c.get("case", c)
        ctx.count("corpus")
        check_case(ctx, model, case, origin=name)
    for case in G.crafted_cases():
        ctx.count("crafted")
        check_case(ctx, model, case, origin="crafted")
    check_stub_histories(ctx, model, ctx.n(60, 600))
    check_stub_search(ctx, model)
    check_stub_bb_grid(ctx, model)
    check_blocks(ctx, ctx.n(12, 150))
    check_reuse(ctx, ctx.n(16, 150))
    check_default_precision(ctx, ctx.n(12, 100))
    n = ctx.n(220, 1500)
    for _ in range(n):
        pol = G.gen_policy(ctx.rng)
        isbb = pol["kind"] in ("bb", "abb")
        # BB policies: curvature of mixed sign half of the time (fall-backs followed by usable steps), longer runs
        fl = ["diag-indef", "dense-sym", "complex-herm", "complex-diag", "complex-rv", "complex-rv"][int(ctx.rng.integers(0, 6))] if (isbb and ctx.rng.integers(0, 2)) else None
        p = G.gen_problem(ctx.rng, fl)
        steps = int(ctx.rng.integers(5, 11)) if isbb else int(ctx.rng.integers(2, 9))
        case = {**p, "policy": pol, "accel": bool(ctx.rng.integers(0, 2)), "steps": steps}
        check_case(ctx, model, case)
    # -- domain-restricted loss (log barrier): NaN function values in the searches, NaN inner products elsewhere ------
    for _ in range(ctx.n(30, 250)):
        p = G.gen_barrier_problem(ctx.rng)
        pol = G.gen_policy(ctx.rng, ["ls", "rls", "ls", "rls", "bb", "abb"][int(ctx.rng.integers(0, 6))])
        check_case(ctx, model, {**p, "policy": pol, "accel": bool(ctx.rng.integers(0, 2)), "steps": int(ctx.rng.integers(2, 6))})
    # -- scale stream: crafted and random problems times 2^k (|k| up to 40) ------------------------------
    ks = [-40, -30, -20, -10, 10, 20, 30, 40]
    crafted = [c for c in G.crafted_cases() if c.get("flavour") in ("fallback-then-usable", "abb-memory", "budget", "tie", "negative")]
    for j, base in enumerate(crafted):
        if ctx.thorough or j % 3 == int(ctx.seed) % 3:
            check_scaled(ctx, model, base, ks[(j + int(ctx.seed)) % len(ks)])
    for _ in range(ctx.n(36, 300)):
        pol = G.gen_policy(ctx.rng, ["bb", "abb", "ls", "rls"][int(ctx.rng.integers(0, 4))])
        isbb = pol["kind"] in ("bb", "abb")
        p = G.gen_problem(ctx.rng, ["diag-pos", "diag-indef", "dense-psd", "complex-herm"][int(ctx.rng.integers(0, 4))])
        base = {**p, "policy": pol, "accel": bool(ctx.rng.integers(0, 2)), "steps": int(ctx.rng.integers(4, 8)) if isbb else int(ctx.rng.integers(2, 6))}
        k = int(ks[int(ctx.rng.integers(0, len(ks)))] if ctx.rng.integers(0, 2) else ctx.rng.integers(-40, 41))
        check_scaled(ctx, model, base, k)


def check_scaled(ctx, model, base, k):
    """scale stream: the correspondence on the scaled problem itself, plus scale equivariance of the implementation:
    L(2^k f) = 2^k L(f) and identical iterates at every step (relative comparison, no absolute floor)"""
    sc = G.scaled_case(base, k)
    ctx.count(f"scale:2^{'-' if k < 0 else '+'}{min(abs(k) // 10 * 10, 40)}")
    nbad = check_case(ctx, model, sc, origin="scaled")
    if nbad:
        return
    bad = oracle_scale({**_light(sc), "scale_base": _light(base)})
    if bad is not None:
        ctx.disagree("stepsize.scale", {**_light(sc), "scale_base": _light(base)}, bad, None, oracle=oracle_scale)


def oracle_scale(case):
    """property on the implementation: the run on 2^k f returns 2^k times the L of the run on f, step by step (and the
    documented ratios / first accepted value, by `oracle` on the scaled run itself)"""
    base = case.get("scale_base")
    c = {k: v for k, v in case.items() if k not in ("scale_base", "at_step")}
    r0 = oracle(c)
    if r0 is not None or base is None:
        return r0
    f = float(2.0 ** (c.get("scale_k", 0) - base.get("scale_k", 0)))
    ra, rb = G.run_real(c), G.run_real(base)
    for i, (a, b) in enumerate(zip(ra, rb)):
        if a["raised"] or b["raised"]:
            if bool(a["raised"]) != bool(b["raised"]):
                return {"step": i, "why": "scaling the loss changes whether the step raises", "scaled": a["raised"], "base": b["raised"]}
            break
        if _near_tie(c["policy"]["kind"], b, c["policy"], _scale(base)):
            break
        if not _rel(a["L"], f * b["L"], 8, 1e-12):
            return {"step": i, "why": "policy is not scale-equivariant: L(2^k f) != 2^k L(f)", "k": c.get("scale_k", 0), "L_scaled": a["L"],
                    "L_base": b["L"], "expected": f * b["L"], "policy": c["policy"], "inner_products_scaled": a.get("ips")}
        if not common.allclose(a["x"], b["x"], None, 1e-9):
            return {"step": i, "why": "iterates of the scaled problem differ", "x_scaled": a["x"].tolist(), "x_base": b["x"].tolist()}
    return None


def generate(ctx):
    """translator: class table with constructor defaults, isinstance dispatch of the two step methods and the statement
    skeletons of every transcribed method, read from the working tree with `ast`, against the model's tables"""
    stepsize_translate.generate()
    return [("Scico.Generated.StepSizeTables",
             "step-size classes (bases, constructor parameters and defaults kappa/gamma_u/gamma_d/maxiter), the update argument and "
             "isinstance classes of PGM.step / AcceleratedPGM.step, and the normalised statements of every modelled method of "
             "_pgmaux.py / _pgm.py equal the model's tables (Model/StepSizeSource.lean)")]


def findings(ctx, model):
    """no listed finding of the current tree concerns C16 (the four defects found were repaired: see the
    `fixed:` lines of known_findings.txt; their witnesses are regression cases in corpus/C16)"""
    return None


def search(ctx, model, why):
    """failing-input search on the implementation alone (thorough tier): the property oracle on fresh runs"""
    common.setup_scico()
    kinds = None
    if why is not None:
        # a generated obligation no longer checks (the source differs from the model's tables): find WHICH rows differ and
        # exercise exactly those functions — crafted boundary cases and random runs of the policies concerned, their exhaustive
        # stub streams, re-attachment, complex / scaled / barrier problems — with the property oracles (any tier)
        changed = stepsize_translate.changed_keys()
        ctx.extra["changed_source_rows"] = changed
        print("search: source rows that differ from the model's tables:", changed, flush=True)
        cls_of = {"PGMStepSize": "base", "BBStepSize": "bb", "AdaptiveBBStepSize": "abb", "LineSearchStepSize": "ls", "RobustLineSearchStepSize": "rls"}
        kinds = set()
        for k in changed:
            hit = [v for c, v in cls_of.items() if (":" + c + ".") in k or k == "class:" + c]
            kinds.update(hit if hit else cls_of.values())  # PGM / AcceleratedPGM methods, dispatch: every policy
        if "ls" in kinds:
            kinds.add("rls")  # the robust class inherits from the line search
        kinds = kinds or set(cls_of.values())
        accel_only = bool(changed) and all("AcceleratedPGM" in k or k == "dispatch" for k in changed)
        for case in G.crafted_cases():
            if case["policy"]["kind"] in kinds and (case["accel"] or not accel_only):
                r = oracle(case)
                if r is not None:
                    return {"case": _light(case), "failing": r, "changed_rows": changed}
        import itertools

        if kinds & {"ls", "rls"}:
            for maxiter in range(0, 4):
                for acc in itertools.product([False, True, None], repeat=maxiter):
                    for kind in sorted(kinds & {"ls", "rls"}):
                        c = {"what": "stub-search", "kind": kind, "L": 3.0, "gu": 2.0, "gd": 0.5, "maxiter": maxiter, "accepts": list(acc)}
                        r = _oracle_stub_search(c)
                        if r is not None:
                            return {"case": c, "failing": r, "changed_rows": changed}
        if kinds & {"bb", "abb"}:
            # special-value steps through the real objects: L must stay finite positive, BB must be ratio-or-previous
            import scico.numpy as snp
            from scico.optimize.pgm import AdaptiveBBStepSize, BBStepSize

            vecs = [np.array(p_, dtype=np.float64) for p_ in itertools.product(_GRID, repeat=2)]
            with np.errstate(all="ignore"):
                for kind in sorted(kinds & {"bb", "abb"}):
                    for dx in vecs[::3]:
                        for dg in vecs[1::3]:
                            pol = BBStepSize() if kind == "bb" else AdaptiveBBStepSize(kappa=0.5)
                            pgm = _StubPGM(1.0)
                            pol.internal_init(pgm)
                            L = None
                            for v, g in ((np.zeros(2), np.zeros(2)), (dx, dg)):
                                pgm.f.next_grad = snp.array(g)
                                L = float(pol.update(snp.array(v)))
                            xg, gg = float(dx @ dg), float(dg @ dg)
                            r2 = float(np.float64(gg) / np.float64(xg))
                            want = r2 if G.finite_pos(r2) else 1.0
                            c = {"what": "stub-grid", "kind": kind, "dx": dx.tolist(), "dg": dg.tolist()}
                            if not (math.isfinite(L) and L > 0):
                                return {"case": c, "failing": {"why": "returned L is not a finite positive number", "L": L}, "changed_rows": changed}
                            if kind == "bb" and not _same(L, want):
                                return {"case": c, "failing": {"why": "BB: L is neither the documented ratio nor the previous value", "L": L, "documented_ratio": r2},
                                        "changed_rows": changed}
        # re-attachment, scaled, complex real-view and barrier problems for the policies concerned
        for i in range(24):
            pol = G.gen_policy(ctx.rng, sorted(kinds)[i % len(kinds)])
            if pol.get("maxiter") == 0:
                pol["maxiter"] = 3
            first = {**G.gen_problem(ctx.rng, "diag-pos"), "accel": bool(i % 2), "steps": 3}
            second = {**G.gen_problem(ctx.rng, "dense-psd"), "accel": bool((i // 2) % 2) or accel_only, "steps": 4}
            c = {"what": "reuse", "policy": pol, "first": first, "second": second}
            r = oracle_reuse(c)
            if r is not None:
                return {"case": c, "failing": r, "changed_rows": changed}
            base = {**G.gen_problem(ctx.rng, ["complex-rv", "diag-indef", "dense-psd"][i % 3]), "policy": pol, "accel": bool(i % 2) or accel_only, "steps": 6}
            sc = G.scaled_case(base, [-40, 30][i % 2])
            r = oracle_scale({**_light(sc), "scale_base": _light(base)})
            if r is not None:
                return {"case": {**_light(sc), "scale_base": _light(base)}, "failing": r, "changed_rows": changed}
            if pol["kind"] in ("ls", "rls", "bb", "abb"):
                bc = {**G.gen_barrier_problem(ctx.rng), "policy": pol, "accel": bool(i % 2) or accel_only, "steps": 4}
                r = oracle(bc)
                if r is not None:
                    return {"case": _light(bc), "failing": r, "changed_rows": changed}
    for j in range(ctx.n(0, 150) if why is None else 80):
        p = G.gen_problem(ctx.rng)
        pol = G.gen_policy(ctx.rng, None if kinds is None else sorted(kinds)[j % len(kinds)])
        case = {**p, "policy": pol, "accel": bool(ctx.rng.integers(0, 2)) or (why is not None and accel_only), "steps": int(ctx.rng.integers(2, 12))}
        ctx.count("search:oracle-runs")
        r = oracle(case)
        if r is not None:
            return {"case": _light(case), "failing": r}
    return None


def replay(ctx, model, case):
    common.setup_scico()
    c = case.get("case", case)
    if c.get("what") == "f32":
        r = oracle_f32(c)
        print("replay:", "property FAILS on implementation:" if r else "no failure at this input", r)
        if r:
            ctx.violation({"kind": "failing-input", "case": c, "failing": r}, True, "replay")
        return
    if c.get("what") == "reuse":
        r = oracle_reuse(c)
        print("replay:", "property FAILS on implementation:" if r else "no failure at this input", r)
        if r:
            ctx.violation({"kind": "failing-input", "case": c, "failing": r}, True, "replay")
        return
    if c.get("what") == "block":
        r = oracle_block(c)
        print("replay:", "property FAILS on implementation:" if r else "no failure at this input", r)
        if r:
            ctx.violation({"kind": "failing-input", "case": c, "failing": r}, True, "replay")
        return
    if c.get("what") == "stub-search":
        r = _oracle_stub_search(c)
        print("replay:", "property FAILS on implementation:" if r else "no failure at this input", r)
        if r:
            ctx.violation({"kind": "failing-input", "case": c, "failing": r}, True, "replay")
        return
    c = {k: v for k, v in c.items() if k != "at_step"}
    r = oracle_scale(c) if c.get("scale_base") else oracle(c)
    c = {k: v for k, v in c.items() if k != "scale_base"}
    print("replay:", "property FAILS on implementation:" if r else "no failure at this input", r)
    if r:
        ctx.violation({"kind": "failing-input", "case": c, "failing": r}, True, "replay")
    elif model is not None:
        n = check_case(ctx, model, c, origin="replay")
        print("replay: correspondence disagreements:", n)
