"""Helpers shared by the LinSolve adapters (c14.py, c10.py): transport of real/complex arrays to the
Lean driver, generators of well-conditioned HPD systems, comparison rules."""

from __future__ import annotations

import numpy as np

import common
from common import b2f, f2b


# ---------------------------------------------------------------- transport
def is_c(a) -> bool:
    return np.iscomplexobj(np.asarray(a))


def enc(a, cplx: bool):
    """flat (row-major) array -> list of bit patterns; complex as interleaved (re, im)"""
    a = np.asarray(a)
    if cplx:
        a = np.asarray(a, dtype=np.complex128).ravel()
        out = np.empty(2 * a.size, dtype=np.float64)
        out[0::2] = a.real
        out[1::2] = a.imag
    else:
        if np.iscomplexobj(a):
            raise common.Infra("complex data sent as real")
        out = np.asarray(a, dtype=np.float64).ravel()
    return [f2b(v) for v in out.tolist()]


def dec(bits, cplx: bool, shape=None):
    v = np.array([b2f(n) for n in bits], dtype=np.float64)
    if cplx:
        v = v[0::2] + 1j * v[1::2]
    if shape is not None:
        v = v.reshape(shape)
    return v


def tolist(a):
    """JSON-able description of an array (for replays)"""
    a = np.asarray(a)
    if np.iscomplexobj(a):
        return [[float(z.real), float(z.imag)] for z in a.ravel().tolist()]
    return [float(v) for v in a.ravel().tolist()]


# ---------------------------------------------------------------- comparison
def vclose(x, y, k=None, rtol=1e-9) -> bool:
    """tolerance rule of DESIGN §3 on (possibly complex) arrays; scale = max magnitude of the arrays"""
    x = np.asarray(x)
    y = np.asarray(y)
    if x.shape != y.shape:
        x = x.ravel()
        y = y.ravel()
        if x.shape != y.shape:
            return False
    if x.size == 0:
        return True
    nx = np.isnan(x)
    ny = np.isnan(y)
    if nx.any() or ny.any():
        return bool((nx == ny).all() and vclose(np.where(nx, 0, x), np.where(ny, 0, y), k, rtol))
    ix = np.isinf(x)
    iy = np.isinf(y)
    if ix.any() or iy.any():
        if not (ix == iy).all() or not (x[ix] == y[iy]).all():
            return False
        x = np.where(ix, 0, x)
        y = np.where(iy, 0, y)
    kk = k if k is not None else max(1, x.size)
    scale = 1.0 + max(float(np.max(np.abs(x))), float(np.max(np.abs(y))))
    return bool(np.max(np.abs(x - y)) <= rtol * kk * scale)


# ---------------------------------------------------------------- generators
def rnd(rng, shape, cplx, dy=False, scale=2.0):
    """random real/complex array; dyadic values when `dy`"""
    if dy:
        a = common.dyadic(rng, shape, bits=4, scale=scale)
        if cplx:
            a = a + 1j * common.dyadic(rng, shape, bits=4, scale=scale)
        return a
    a = rng.uniform(-scale, scale, size=shape)
    if cplx:
        a = a + 1j * rng.uniform(-scale, scale, size=shape)
    return a


def hpd(rng, n, cplx, dy=False, shift=None):
    """Hermitian positive-definite matrix with condition number bounded by construction:
    B Bᴴ + shift·I with |B_ij| ≤ 1 (cond ≤ 1 + n²/shift)"""
    B = rnd(rng, (n, n), cplx, dy, scale=1.0)
    s = float(n) if shift is None else shift
    H = B @ B.conj().T + s * np.eye(n)
    return (H + H.conj().T) / 2


def cond_ok(G, limit=1e4) -> bool:
    try:
        return bool(np.linalg.cond(G) < limit)
    except np.linalg.LinAlgError:
        return False
