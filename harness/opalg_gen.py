"""OpAlg engine (C05, C12 part 2): expression trees over real scico operator objects.

A tree is a JSON-able dict (the same object is sent to the Lean driver `Drv/OpAlg.lean`):

  leaves   {"t":"mat","m","n","dt","A":[[re,im]...]}            MatrixOperator
           {"t":"diag","dsh","ddt","insh"|None,"indt"|None,"d"}   Diagonal (plain or block, broadcasting)
           {"t":"sid","c":{scalar},"sh","dt"}                     ScaledIdentity
           {"t":"ident","sh","dt"}                                Identity
           {"t":"lin","insh","outsh","indt","gdt","hasadj","G"}   LinearOperator(eval_fn[, adj_fn])
           {"t":"nonlin","insh","outsh","indt","gdt","G"}         Operator(eval_fn = (G x)^2)
  nodes    add sub neg smulL smulR sdiv rdiv addS had comp matmul T H conj gram
  scalar   {"v":[re,im],"kind":"int|float|complex|np|jx|arr|str","dt":...}

Values travel as pairs of IEEE-754 bit patterns (exact).  Everything here uses the public scico API
only; nothing is patched.
"""

from __future__ import annotations

import numpy as np

import common
from common import f2b, b2f

DTS = ["float32", "float64", "complex64", "complex128"]
FLAGS = ["compDt", "gramDt", "diagOutDt", "diagKeep", "identChk", "matCall"]
FLAG_ID = {
    "compDt": "call-compose-dtype",
    "gramDt": "gram-op-dtype",
    "diagOutDt": "diagonal-output-dtype",
    "diagKeep": "diagonal-derived-input-shape",
    "identChk": "identity-matmul-shape-check",
    "matCall": "matrix-call-shape-check",
}
BINARY = ("add", "sub", "comp", "matmul", "had")
UNARY = ("neg", "T", "H", "conj", "gram")
SCALAR = ("smulL", "smulR", "sdiv", "rdiv", "addS")


# ----------------------------------------------------------------------------- encoding


def enc(z):
    z = complex(z)
    return [f2b(z.real), f2b(z.imag)]


def dec(p):
    return complex(b2f(p[0]), b2f(p[1]))


def encs(a):
    return [enc(z) for z in np.asarray(a).ravel().tolist()]


def decs(l):
    return np.array([dec(p) for p in l], dtype=np.complex128)


def is_nested(sh):
    return len(sh) > 0 and isinstance(sh[0], (list, tuple))


def tup(sh):
    if is_nested(sh):
        return tuple(tuple(int(v) for v in b) for b in sh)
    return tuple(int(v) for v in sh)


def lst(sh):
    """canonical JSON form of a (possibly nested) shape as scico reports it"""
    if isinstance(sh, (int, np.integer)):
        return [int(sh)]
    if is_nested(sh):
        return [[int(v) for v in b] for b in sh]
    return [int(v) for v in sh]


def size(sh):
    if is_nested(sh):
        return int(sum(int(np.prod(b)) for b in sh))
    return int(np.prod(sh)) if len(sh) else 1


def is_cplx(dt):
    return dt.startswith("complex")


def is32(dt):
    return dt in ("float32", "complex64")


# ----------------------------------------------------------------------------- scico side


class Env:
    """lazy import of scico"""

    def __init__(self):
        self.scico = common.setup_scico()
        import jax.numpy as jnp
        import scico.numpy as snp
        from scico import linop
        from scico.operator import Operator

        self.jnp, self.snp, self.linop, self.Operator = jnp, snp, linop, Operator

    # arrays <-> flat complex vectors
    def to_array(self, flat, sh, dt):
        flat = np.asarray(flat, dtype=np.complex128)
        if not is_cplx(dt):
            flat = flat.real
        if is_nested(sh):
            out, k = [], 0
            for b in sh:
                nb = int(np.prod(b))
                out.append(self.jnp.asarray(flat[k : k + nb].reshape(tuple(b)), dtype=dt))
                k += nb
            return self.snp.blockarray(out)
        return self.jnp.asarray(flat.reshape(tuple(sh)), dtype=dt)

    def flat(self, x):
        from scico.numpy import BlockArray

        if isinstance(x, BlockArray):
            return np.concatenate([np.asarray(b).ravel() for b in x.arrays]).astype(np.complex128)
        return np.asarray(x).ravel().astype(np.complex128)

    def jflat(self, x):
        from scico.numpy import BlockArray

        if isinstance(x, BlockArray):
            return self.jnp.concatenate([b.ravel() for b in x.arrays])
        return x.ravel()

    def junflat(self, v, sh):
        if is_nested(sh):
            out, k = [], 0
            for b in sh:
                nb = int(np.prod(b))
                out.append(v[k : k + nb].reshape(tuple(b)))
                k += nb
            return self.snp.blockarray(out)
        return v.reshape(tuple(sh))

    def scalar(self, c):
        v = dec(c["v"])
        k = c["kind"]
        if k == "int":
            return int(round(v.real))
        if k == "float":
            return float(v.real)
        if k == "complex":
            return complex(v)
        if k == "np":
            return np.dtype(c["dt"]).type(v if is_cplx(c["dt"]) else v.real)
        if k == "jx":
            return self.jnp.asarray(v if is_cplx(c["dt"]) else v.real, dtype=c["dt"])
        if k == "arr":
            return np.array([v.real, v.real])
        if k == "str":
            return "a"
        raise common.Infra(f"scalar kind {k}")

    def leaf(self, e):
        jnp, linop = self.jnp, self.linop
        t = e["t"]
        if t == "mat":
            A = decs(e["A"]).reshape(e["m"], e["n"])
            A = A if is_cplx(e["dt"]) else A.real
            return linop.MatrixOperator(jnp.asarray(A, dtype=e["dt"]))
        if t == "diag":
            d = self.to_array(decs(e["d"]), e["dsh"], e["ddt"])
            kw = {}
            if e.get("insh") is not None:
                kw["input_shape"] = tup(e["insh"])
            if e.get("indt") is not None:
                kw["input_dtype"] = np.dtype(e["indt"])
            return linop.Diagonal(d, **kw)
        if t == "sid":
            return linop.ScaledIdentity(self.scalar(e["c"]), tup(e["sh"]), input_dtype=np.dtype(e["dt"]))
        if t == "ident":
            return linop.Identity(tup(e["sh"]), input_dtype=np.dtype(e["dt"]))
        if t in ("lin", "nonlin"):
            insh, outsh = e["insh"], e["outsh"]
            n, m = size(insh), size(outsh)
            G = decs(e["G"]).reshape(m, n)
            G = jnp.asarray(G if is_cplx(e["gdt"]) else G.real, dtype=e["gdt"])
            indt = np.dtype(e["indt"])
            outdt = jnp.result_type(np.dtype(e["gdt"]), indt)
            real_in = not is_cplx(e["indt"])
            if t == "nonlin":
                return self.Operator(
                    input_shape=tup(insh),
                    output_shape=tup(outsh),
                    eval_fn=lambda x: self.junflat((G @ self.jflat(x)) ** 2, outsh),
                    input_dtype=indt,
                    output_dtype=outdt,
                )

            def adj_fn(y):
                r = G.conj().T @ self.jflat(y)
                if real_in:
                    r = r.real
                return self.junflat(r, insh)

            return linop.LinearOperator(
                input_shape=tup(insh),
                output_shape=tup(outsh),
                eval_fn=lambda x: self.junflat(G @ self.jflat(x), outsh),
                adj_fn=adj_fn if e["hasadj"] else None,
                input_dtype=indt,
                output_dtype=outdt,
            )
        raise common.Infra(f"leaf {t}")

    def build(self, e):
        """instantiate the tree bottom-up, left operand first (as Python evaluates it)"""
        t = e["t"]
        if t in ("mat", "diag", "sid", "ident", "lin", "nonlin"):
            return self.leaf(e)
        a = self.build(e["a"])
        if t in ("add", "sub", "comp", "matmul", "had"):
            b = self.build(e["b"])
            if t == "add":
                return a + b
            if t == "sub":
                return a - b
            if t == "comp":
                return a(b)
            if t == "matmul":
                return a @ b
            return a / b if e["div"] else a * b
        if t == "neg":
            return -a
        if t == "T":
            return a.T
        if t == "H":
            return a.H
        if t == "conj":
            return a.conj()
        if t == "gram":
            return a.gram_op
        c = self.scalar(e["c"])
        if t == "smulL":
            return c * a
        if t == "smulR":
            return a * c
        if t == "sdiv":
            return a / c
        if t == "rdiv":
            return c / a
        if t == "addS":
            if e["rev"]:
                return (c - a) if e["sub"] else (c + a)
            return (a - c) if e["sub"] else (a + c)
        raise common.Infra(f"node {t}")

    def observe(self, e, xs, ys=None):
        """returns ("err", kind) or ("ok", dict) for the real objects"""
        try:
            o = self.build(e)
        except Exception as ex:  # noqa: BLE001
            return ("err", common.err_kind(ex), repr(ex)[:200])
        from scico.numpy import BlockArray

        if not isinstance(o, self.Operator):
            return ("err", "other", f"result is a {type(o)}")
        r = {
            "cls": type(o).__name__,
            "in_shape": lst(o.input_shape),
            "out_shape": lst(o.output_shape),
            "in_dtype": np.dtype(o.input_dtype).name,
            "out_dtype": np.dtype(o.output_dtype).name,
            "matrix_shape": [int(v) for v in o.matrix_shape],
            "sizes": [int(o.output_size), int(o.input_size)],
        }
        return self.evaluate(("ok", r, o), xs, ys)

    def evaluate(self, built, xs, ys=None):
        """evaluate an already built object (result of `observe(e, [], None)`) on inputs - no second construction"""
        r, o = dict(built[1]), built[2]
        ev, evdt, evsh = [], None, None
        for x in xs:
            try:
                y = o(self.to_array(x, r["in_shape"], r["in_dtype"]))
                ev.append(self.flat(y))
                evdt = np.dtype(y.dtype).name
                evsh = lst(y.shape)
            except Exception as ex:  # noqa: BLE001
                ev.append(("err", common.err_kind(ex), repr(ex)[:160]))
                evdt = "err:" + common.err_kind(ex)
        r["eval"], r["eval_dt"], r["eval_shape"] = ev, evdt, evsh
        ad, addt = [], None
        if ys is not None and hasattr(o, "adj"):
            for y in ys:
                try:
                    z = o.adj(self.to_array(y, r["out_shape"], r["out_dtype"]))
                    ad.append(self.flat(z))
                    addt = np.dtype(z.dtype).name
                except Exception as ex:  # noqa: BLE001
                    ad.append(("err", common.err_kind(ex), repr(ex)[:160]))
                    addt = "err:" + common.err_kind(ex)
        r["adj"], r["adj_dt"] = ad, addt
        return ("ok", r, o)


# ----------------------------------------------------------------------------- model side


def model_observe(model, e, xs, ys, cfg="fixed", den=False):
    try:
        r = model.call("expr", e=e, cfg=cfg, xs=[encs(x) for x in xs], ys=[encs(y) for y in (ys or [])], den=den)
    except common.ModelErr as ex:
        return ("err", ex.kind)
    r["eval"] = [decs(v) for v in r["eval"]]
    r["adj"] = [decs(v) for v in r["adj"]]
    if r.get("den") is not None:
        r["den"] = np.array([[dec(p) for p in row] for row in r["den"]], dtype=np.complex128).reshape(
            r["matrix_shape"][0], r["matrix_shape"][1]
        )
    return ("ok", r)


def tol_of(e):
    """1e-9 for 64-bit trees, 2e-4 when a 32-bit dtype occurs anywhere"""

    def any32(t):
        for k in ("dt", "ddt", "indt", "gdt"):
            if isinstance(t.get(k), str) and is32(t[k]):
                return True
        c = t.get("c")
        if isinstance(c, dict) and isinstance(c.get("dt"), str) and is32(c["dt"]):
            return True
        return any(any32(t[k]) for k in ("a", "b") if isinstance(t.get(k), dict))

    return 2e-4 if any32(e) else 1e-9


def vec_close(u, v, tol, k):
    u = np.asarray(u, dtype=np.complex128)
    v = np.asarray(v, dtype=np.complex128)
    if u.shape != v.shape:
        return False
    return common.allclose(u.real, v.real, k=k, rtol=tol) and common.allclose(u.imag, v.imag, k=k, rtol=tol)


def compare(impl, mod, e, check_adj=None, check_vals=None):
    """list of differing observables (empty = agree).  Adjoint values are compared for kind-uniform
    trees only (the model's contract of jax.linear_transpose is the conjugate transpose of the dense
    matrix of a closure that is linear over its scalar field; an operator such as y -> Re(G^H y) is
    only real-linear), forward values unless such an adjoint is used inside the expression."""
    uni = kind_uniform(e)
    if check_adj is None:
        check_adj = uni
    if check_vals is None:
        check_vals = uni or not uses_adjoint(e)
    diffs = []
    if impl[0] == "err" or mod[0] == "err":
        if impl[0] != mod[0]:
            diffs.append(("constructible", impl[:2], mod[:2]))
        elif impl[1] != mod[1]:
            diffs.append(("error-kind", impl[1], mod[1]))
        return diffs
    a, b = impl[1], mod[1]
    for k in ("cls", "in_shape", "out_shape", "in_dtype", "out_dtype", "matrix_shape"):
        if a[k] != b[k]:
            diffs.append((k, a[k], b[k]))
    if diffs:
        return diffs
    tol = tol_of(e)
    kk = max(4, a["matrix_shape"][0] * a["matrix_shape"][1])
    if a["eval_dt"] is not None and a["eval_dt"] != (b["eval_dt"] if not b["eval_dt"].startswith("err:") else b["eval_dt"]):
        diffs.append(("eval_dt", a["eval_dt"], b["eval_dt"]))
    for i, (u, v) in enumerate(zip(a["eval"], b["eval"]) if check_vals else []):
        if isinstance(u, tuple):
            continue  # evaluation error: compared through eval_dt
        if not vec_close(u, v, tol, kk):
            diffs.append((f"eval[{i}]", [complex(z) for z in u], [complex(z) for z in v]))
            break
    if a["adj_dt"] is not None:
        if a["adj_dt"] != b["adj_dt"]:
            diffs.append(("adj_dt", a["adj_dt"], b["adj_dt"]))
        elif check_adj:
            for i, (u, v) in enumerate(zip(a["adj"], b["adj"])):
                if isinstance(u, tuple):
                    continue
                if not vec_close(u, v, tol, kk):
                    diffs.append((f"adj[{i}]", [complex(z) for z in u], [complex(z) for z in v]))
                    break
    return diffs


def classify(model, e, xs, ys, impl):
    """which single repair switch, set to the pinned tree's behaviour, makes the model reproduce the
    implementation exactly?  Returns the known-finding id or None."""
    for i, f in enumerate(FLAGS):
        cfg = [True] * len(FLAGS)
        cfg[i] = False
        if not compare(impl, model_observe(model, e, xs, ys, cfg=cfg), e):
            return FLAG_ID[f]
    for i in range(len(FLAGS)):
        for j in range(i + 1, len(FLAGS)):
            cfg = [True] * len(FLAGS)
            cfg[i] = cfg[j] = False
            if not compare(impl, model_observe(model, e, xs, ys, cfg=cfg), e):
                return FLAG_ID[FLAGS[i]] + "+" + FLAG_ID[FLAGS[j]]
    if not compare(impl, model_observe(model, e, xs, ys, cfg="legacy"), e):
        return "legacy-several"
    return None


# ----------------------------------------------------------------------------- numpy oracle


class NotLinear(Exception):
    pass


def np_den(e):
    """dense matrix of the expression by the same construction on the operands' matrices (numpy),
    independent of scico and of the Lean model; raises NotLinear for non-linear leaves and
    ValueError on non-conforming shapes"""
    t = e["t"]
    if t == "mat":
        return decs(e["A"]).reshape(e["m"], e["n"])
    if t == "diag":
        dsh = e["dsh"]
        insh = e["insh"] if e.get("insh") is not None else dsh
        d = decs(e["d"])
        if is_nested(dsh):
            blocks, kd = [], 0
            for bd, bi in zip(dsh, insh):
                nd = int(np.prod(bd))
                blocks.append(_bdiag(d[kd : kd + nd].reshape(tuple(bd)), tuple(bi)))
                kd += nd
            m = sum(b.shape[0] for b in blocks)
            n = sum(b.shape[1] for b in blocks)
            D = np.zeros((m, n), dtype=np.complex128)
            r = c = 0
            for b in blocks:
                D[r : r + b.shape[0], c : c + b.shape[1]] = b
                r += b.shape[0]
                c += b.shape[1]
            return D
        return _bdiag(d.reshape(tuple(dsh)), tuple(insh))
    if t == "sid":
        return dec(e["c"]["v"]) * np.eye(size(e["sh"]), dtype=np.complex128)
    if t == "ident":
        return np.eye(size(e["sh"]), dtype=np.complex128)
    if t == "lin":
        return decs(e["G"]).reshape(size(e["outsh"]), size(e["insh"]))
    if t == "nonlin":
        raise NotLinear()
    A = np_den(e["a"])
    if t in ("add", "sub", "had"):
        B = np_den(e["b"])
        if A.shape != B.shape:
            raise ValueError("shape")
        if t == "had":
            return A / B if e["div"] else A * B
        return A + B if t == "add" else A - B
    if t in ("comp", "matmul"):
        B = np_den(e["b"])
        if A.shape[1] != B.shape[0]:
            raise ValueError("shape")
        return A @ B
    if t == "neg":
        return -A
    if t == "T":
        return A.T
    if t == "H":
        return A.conj().T
    if t == "conj":
        return A.conj()
    if t == "gram":
        return A.conj().T @ A
    c = dec(e["c"]["v"])
    if t in ("smulL", "smulR"):
        return c * A
    if t == "sdiv":
        return A / c
    if t == "rdiv":
        return c / A
    if t == "addS":
        if e["rev"]:
            return (c - A) if e["sub"] else (c + A)
        return (A - c) if e["sub"] else (A + c)
    raise common.Infra(t)


def np_denF(e, x):
    """pointwise construction for trees with non-linear leaves (Lean: `denF`): (A±B)(x) = A(x)±B(x),
    (cA)(x) = c A(x), (A/c)(x) = A(x)/c, (A(B))(x) = A(B(x)); linear sub-expressions through np_den"""
    if not has_nonlin(e):
        return np_den(e) @ x
    t = e["t"]
    if t == "nonlin":
        Gm = decs(e["G"]).reshape(size(e["outsh"]), size(e["insh"]))
        return (Gm @ x) ** 2
    if t in ("add", "sub"):
        u, v = np_denF(e["a"], x), np_denF(e["b"], x)
        if u.shape != v.shape:
            raise ValueError("shape")
        return u + v if t == "add" else u - v
    if t == "neg":
        return -np_denF(e["a"], x)
    if t in ("smulL", "smulR"):
        return dec(e["c"]["v"]) * np_denF(e["a"], x)
    if t == "sdiv":
        return np_denF(e["a"], x) / dec(e["c"]["v"])
    if t in ("comp", "matmul"):
        return np_denF(e["a"], np_denF(e["b"], x))
    raise NotLinear()


def _bdiag(d, insh):
    """matrix of x -> d * x (numpy broadcasting) for x of shape insh"""
    n = int(np.prod(insh))
    cols = []
    for j in range(n):
        x = np.zeros(n, dtype=np.complex128)
        x[j] = 1
        cols.append((d * x.reshape(insh)).ravel())
    return np.stack(cols, axis=1) if cols else np.zeros((0, 0), dtype=np.complex128)


def kind_uniform(e):
    """all leaf dtypes of one kind (real / complex) and, for a real tree, only real scalar factors:
    then every closure is linear over the scalar field of its dtype and no real part is taken of a
    genuinely complex value (the regime of the Lean theorems)"""
    kinds = set()

    def walk(t):
        for k in ("dt", "ddt", "indt", "gdt"):
            if isinstance(t.get(k), str):
                kinds.add(is_cplx(t[k]))
        c = t.get("c")
        if isinstance(c, dict):
            if c["kind"] == "complex" or (c["kind"] in ("np", "jx") and is_cplx(c["dt"])):
                kinds.add(True)
            elif c["kind"] in ("np", "jx"):
                kinds.add(False)
        for k in ("a", "b"):
            if isinstance(t.get(k), dict):
                walk(t[k])

    walk(e)
    return len(kinds) <= 1


def dtype_uniform(e):
    """every leaf (and strong scalar) of the tree has one and the same dtype and no complex Python
    scalar multiplies a real tree"""
    dts = set()

    def walk(t):
        for k in ("dt", "ddt", "indt", "gdt"):
            if isinstance(t.get(k), str):
                dts.add(t[k])
        c = t.get("c")
        if isinstance(c, dict):
            if c["kind"] in ("np", "jx"):
                dts.add(c["dt"])
            elif c["kind"] == "complex":
                dts.add("complex-scalar")
        for k in ("a", "b"):
            if isinstance(t.get(k), dict):
                walk(t[k])

    walk(e)
    if "complex-scalar" in dts:
        dts.discard("complex-scalar")
        return len(dts) <= 1 and all(is_cplx(d) for d in dts)
    return len(dts) <= 1


def uses_adjoint(e):
    """does evaluating the expression go through an adjoint closure (.T, .H, gram_op)?"""
    if e["t"] in ("T", "H", "gram"):
        return True
    return any(uses_adjoint(e[k]) for k in ("a", "b") if isinstance(e.get(k), dict))


def has_sum(e):
    if e["t"] in ("add", "sub"):
        return True
    return any(has_sum(e[k]) for k in ("a", "b") if isinstance(e.get(k), dict))


def leaf_adj_ok(e):
    """every `lin` leaf with a hand-written adj_fn returns its declared input dtype (Lean: LeafAdjOk)"""
    if e["t"] == "lin" and e.get("hasadj"):
        r = np.result_type(np.dtype(e["gdt"]), np.dtype(e["indt"]))
        want = r if is_cplx(e["indt"]) else np.zeros((), dtype=r).real.dtype
        return np.dtype(want) == np.dtype(e["indt"])
    return all(leaf_adj_ok(e[k]) for k in ("a", "b") if isinstance(e.get(k), dict))


def has_nonlin(e):
    if e["t"] == "nonlin":
        return True
    return any(has_nonlin(e[k]) for k in ("a", "b") if isinstance(e.get(k), dict))


def depth(e):
    return 1 + max([depth(e[k]) for k in ("a", "b") if isinstance(e.get(k), dict)] + [0])


def nodes(e):
    return 1 + sum(nodes(e[k]) for k in ("a", "b") if isinstance(e.get(k), dict))


def skeleton(e):
    """structure without the data (used as the distinctness key)"""
    t = e["t"]
    if t in ("mat",):
        return f"mat{e['m']}x{e['n']}:{e['dt'][0]}{e['dt'][-1]}"
    if t == "diag":
        return f"diag{e['dsh']}>{e.get('insh')}:{e['ddt'][0]}{e['ddt'][-1]}"
    if t == "sid":
        return f"sid{e['sh']}:{e['dt'][0]}{e['dt'][-1]}:{e['c']['kind']}"
    if t == "ident":
        return f"id{e['sh']}:{e['dt'][0]}{e['dt'][-1]}"
    if t in ("lin", "nonlin"):
        return f"{t}{e['insh']}>{e['outsh']}:{e['indt'][0]}{e['gdt'][0]}{int(bool(e.get('hasadj')))}"
    s = t
    if "c" in e:
        s += ":" + e["c"]["kind"]
    if "div" in e:
        s += ":d" if e["div"] else ":m"
    if t == "addS":
        s += f":{int(e['sub'])}{int(e['rev'])}"
    return s + "(" + ",".join(skeleton(e[k]) for k in ("a", "b") if isinstance(e.get(k), dict)) + ")"


def oracle(env):
    """property oracle on the implementation alone (C05 and C12): the dense matrix of the derived
    operator against the same construction on the operands' matrices in numpy; declared against
    observed shape / dtype."""

    def run(case):
        e = case["e"]
        n_in = None
        r = env.observe(e, [], None)
        if r[0] == "err":
            # rejected: is the combination valid (conforming shapes, scalar factor)?
            return None
        o = r[2]
        info = r[1]
        n, m = info["matrix_shape"][1], info["matrix_shape"][0]
        rng = np.random.Generator(np.random.PCG64(12345))
        xs = [np.eye(n, dtype=np.complex128)[j] for j in range(n)]
        if is_cplx(info["in_dtype"]):
            xs.append(1j * np.ones(n))
        xs.append(common.dyadic(rng, (n,), bits=2, scale=2.0) + (1j * common.dyadic(rng, (n,), bits=2, scale=2.0) if is_cplx(info["in_dtype"]) else 0))
        fails = {}
        outs = []
        for x in xs:
            try:
                y = o(env.to_array(x, info["in_shape"], info["in_dtype"]))
            except Exception as ex:  # noqa: BLE001
                fails["evaluation_raised"] = {"x": [str(complex(z)) for z in x], "error": repr(ex)[:200]}
                break
            if lst(y.shape) != info["out_shape"]:
                fails["shape"] = {"declared_output_shape": info["out_shape"], "returned_shape": lst(y.shape)}
            if np.dtype(y.dtype).name != info["out_dtype"]:
                fails["dtype"] = {"declared_output_dtype": info["out_dtype"], "returned_dtype": np.dtype(y.dtype).name}
            outs.append(env.flat(y))
        # views of an operator live on the spaces of that operator
        if e["t"] in ("T", "H", "conj", "gram", "neg"):
            rc = env.observe(e["a"], [], None)
            if rc[0] == "ok":
                c = rc[1]
                want = {
                    "conj": (c["in_shape"], c["out_shape"], c["in_dtype"], c["out_dtype"]),
                    "neg": (c["in_shape"], c["out_shape"], None, None),
                    "H": (c["out_shape"], c["in_shape"], None, None),
                    "T": (c["out_shape"], c["in_shape"], None, None),
                    "gram": (c["in_shape"], c["in_shape"], c["in_dtype"], None),
                }[e["t"]]
                got = (info["in_shape"], info["out_shape"], info["in_dtype"], info["out_dtype"])
                for nm, w, g in zip(("input_shape", "output_shape", "input_dtype", "output_dtype"), want, got):
                    if w is not None and w != g:
                        fails["view_" + nm] = {"view": e["t"], "operand_declares": [c["in_shape"], c["out_shape"], c["in_dtype"], c["out_dtype"]],
                                               "view_declares": list(got), "expected_" + nm: w}
        # the adjoint returns the declared input shape and dtype.  Asserted where theorem C12_dtype_sound applies
        # without conditions the code does not check: no generic sum below (or a dtype-uniform tree), no non-linear
        # leaf, and hand-written adj_fn of test leaves returning their input dtype (hypothesis LeafAdjOk)
        if hasattr(o, "adj") and not has_nonlin(e) and leaf_adj_ok(e) and (dtype_uniform(e) or not has_sum(e)) \
                and not ({"shape", "evaluation_raised"} & set(fails)):
            try:
                z = o.adj(env.to_array(np.ones(m), info["out_shape"], info["out_dtype"]))
            except Exception:  # noqa: BLE001
                z = None
            if z is not None and (lst(z.shape) != info["in_shape"] or np.dtype(z.dtype).name != info["in_dtype"]):
                fails["adjoint_meta"] = {"y": "ones(output_shape, output_dtype)", "declared_input": [info["in_shape"], info["in_dtype"]],
                                         "adj_returned": [lst(z.shape), np.dtype(z.dtype).name]}
        if info["sizes"] != info["matrix_shape"] or info["matrix_shape"] != [size(info["out_shape"]), size(info["in_shape"])]:
            fails["matrix_shape"] = {"matrix_shape": info["matrix_shape"], "sizes": info["sizes"]}
        if not ({"shape", "evaluation_raised", "matrix_shape"} & set(fails)) and not has_nonlin(e) and (kind_uniform(e) or not uses_adjoint(e)):
            try:
                D = np_den(e)
            except (ValueError, ZeroDivisionError):
                D = None
                fails["accepted_nonconforming"] = {"shapes": [info["in_shape"], info["out_shape"]]}
            if D is not None:
                if list(D.shape) != info["matrix_shape"]:
                    fails["matrix_shape_vs_construction"] = {"declared": info["matrix_shape"], "construction": list(D.shape)}
                else:
                    tol = tol_of(e)
                    for x, y in zip(xs, outs):
                        want = D @ x
                        if not vec_close(y, want, tol, max(4, D.size)):
                            fails["value"] = {
                                "x": [str(complex(z)) for z in x],
                                "operator_returned": [str(complex(z)) for z in y],
                                "same_construction_on_matrices": [str(complex(z)) for z in want],
                            }
                            break
                    # the adjoint closure of the derived operator is the conjugate transpose
                    if "value" not in fails and kind_uniform(e) and hasattr(o, "adj"):
                        for i in range(m):
                            yv = np.eye(m, dtype=np.complex128)[i]
                            try:
                                z = env.flat(o.adj(env.to_array(yv, info["out_shape"], info["out_dtype"])))
                            except Exception:  # noqa: BLE001
                                break
                            want = D.conj().T @ yv
                            if not vec_close(z, want, tol, max(4, D.size)):
                                fails["adjoint_value"] = {"y": [str(complex(v)) for v in yv], "adj_returned": [str(complex(v)) for v in z],
                                                          "conjugate_transpose_of_construction": [str(complex(v)) for v in want]}
                                break
        # trees with non-linear leaves: the pointwise construction (C05_run_eq_denF)
        if has_nonlin(e) and not ({"shape", "evaluation_raised", "matrix_shape"} & set(fails)) and (kind_uniform(e) or not uses_adjoint(e)):
            tol = tol_of(e) * 10
            for x, y in zip(xs, outs):
                try:
                    want = np_denF(e, x)
                except (ValueError, ZeroDivisionError, NotLinear):
                    break
                if want.shape != y.shape or not vec_close(y, want, tol, max(4, n * m)):
                    fails["value"] = {"x": [str(complex(z)) for z in x], "operator_returned": [str(complex(z)) for z in y],
                                      "pointwise_construction": [str(complex(z)) for z in want]}
                    break
        return fails or None

    return run
