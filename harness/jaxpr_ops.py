"""Operator configurations and views for C06 (Jaxpr engine).

`enumerate_ops(rng, thorough)` yields `(class_name, config, builder)` for

* every class of `harness/opgrid.py` (the shared configuration grid of builder b-linops: all LinearOperator classes of
  scico.linop incl. xray / abel / optics and the auxiliary operators of functional._tvnorm), sampled (quick) or
  complete (thorough);
* extras defined here: operators *derived* by the LinearOperator calculus (sum, difference, scalar multiple / quotient,
  composition), the Jacobian operator `linop.jacobian`, the prox operators of `TVNorm` (`WP`, `CWT`), a pmap-mapped
  `DiagonalReplicated`, operators built with `LinearOperator(eval_fn=…, adj_fn=…)`.

`views(A, which)` lists the maps of one operator that are presented as linear:
    eval, adj           (always)
    gram, T, H, conj, gram_op    (sampled in the quick tier, all in the thorough tier)
each as `(view_name, fn, in_shape, in_dtype)`.

Everything is reconstructible from `(class_name, config)` alone via `build(class_name, config)` (replay).
"""

from __future__ import annotations

import numpy as np

# classes whose configurations may legitimately yield no operator presented as linear (then nothing is to be checked)
OPTIONAL_CLASSES = {"CalculusMixed"}

# classes traced with these views only (keeps the quick tier short)
VIEWS_ONLY = {"DtypeSweep": ["eval", "adj"], "WrappedOptions": ["eval", "adj"], "NoJit": ["eval", "adj", "gram"]}
# hand-made grids of which the quick tier takes a seeded share (the thorough tier takes them whole)
QUICK_SHARE: dict = {}
# quick tier: these classes are taken whole but with the forward map only (+ the adjoint of a seeded third)
VIEWS_QUICK = {"DtypeSweep": ["eval"], "WrappedOptions": ["eval"]}

# operator arithmetic between a LinearOperator class and a non-linear Operator (class CalculusMixed): builder name ->
# source class it instantiates (every LinearOperator subclass that overrides an arithmetic dunder must appear here: the
# generated table of harness/jaxpr_translate.py checks it), and the operations applied
CALCULUS_LEFT = {"matrix": "MatrixOperator", "diagonal": "Diagonal", "identity": "Identity", "scaledidentity": "ScaledIdentity", "circconv": "CircularConvolve",
                 "convolve": "Convolve", "convolvebyx": "ConvolveByX", "fd": "SingleAxisFiniteDifference", "generic": "LinearOperator"}
CALCULUS_OPS = ("add", "sub", "radd", "rsub", "compose", "rcompose", "matmul", "rmatmul")

# slugs of the `known:` findings of C06 that are currently recorded (set by c06.generate): grid configurations that are
# exactly a recorded witness carry `known_id` and are left out while the finding is recorded (the corpus replays them)
KNOWN_IDS: set = set()
KNOWN_SUM_INITIAL = "sum-initial-affine"
KNOWN_CIRCCONV_REAL_OUT = "circconv-real-output-complex-input"


class NotPresentedAsLinear(Exception):
    """the construction returned an object that is not a LinearOperator: nothing to check for C06"""


EXTRA_CLASSES = [
    "Derived",  # LinearOperator.__add__/__sub__/__mul__/__truediv__/__call__ closures
    "Jacobian",  # linop.jacobian(F, u)
    "TVNormAux",  # TVNorm._prox_operators: WP, CWT
    "DiagonalReplicatedPmap",
    "GenericLinearOperator",  # LinearOperator(eval_fn=..., adj_fn=...)
    "MixedDtype",  # real-valued parameters (filter, diagonal, matrix, scalar) with a complex input dtype
    "CalculusMixed",  # results of operator arithmetic between a LinearOperator and a non-linear Operator
    "WrappedOptions",  # every option of the numpy functions wrapped by linop_from_function (Pad, Sum, Reshape, Transpose): rejected or linear
    "NoJit",  # elementary operators built with jit=False: every call runs the Python code of the class (state kept between calls shows)
    "DtypeSweep",  # one small configuration of the elementary classes in each of float32 / float64 / complex64 / complex128
    "OutsideLinop",  # LinearOperators constructed outside scico.linop: SquaredL2Loss.hessian, flax PaddedCircularConvolve
]


def _extra_grid(name, rng):
    if name == "Derived":
        out = []
        for dt in ("float64", "complex128"):
            for kind in ("add", "sub", "mul", "rmul", "div", "cmul", "neg", "compose", "add_circ", "mul_circ", "mat_add", "conv_add"):
                if kind == "cmul" and dt == "float64":
                    continue
                out.append({"kind": kind, "dtype": dt, "shape": [4]})
        return out
    if name == "Jacobian":
        out = []
        for fn in ("square", "sin", "cube_sum", "exp_cplx"):
            for dt in ("float64", "complex128"):
                if fn == "exp_cplx" and dt == "float64":
                    continue
                out.append({"fn": fn, "dtype": dt, "shape": [3], "include_eval": False, "u": (np.arange(1, 4) / 4).tolist()})
        return out
    if name == "TVNormAux":
        out = []
        for circ in (True, False):
            for shape, axes in (([4], None), ([4, 6], None), ([4, 6], [1]), ([3, 4, 2], [0, 1])):
                for which in ("WP", "CWT", "G"):
                    out.append({"circular": circ, "shape": shape, "axes": axes, "which": which, "dtype": "float64"})
        return out
    if name == "DiagonalReplicatedPmap":
        return [{"shape": [3], "dtype": "float64"}]
    if name == "MixedDtype":
        out = [{"kind": k, "shape": [4], "dtype": "complex128"} for k in
               ("circconv", "circconv_center", "convolve", "convolvebyx", "diagonal", "scaledidentity", "matrix_compose", "fd", "sum", "generic_matmul")]
        # the other direction and the remaining ways in which CircularConvolve decides its `real` flag / output dtype
        out += [{"kind": k, "shape": [4], "dtype": dt} for k, dt in
                (("circconv_cfilter", "float64"), ("circconv_cfilter", "float32"), ("circconv_hdft", "float64"), ("circconv_hdft", "complex128"),
                 ("circconv", "complex64"), ("circconv_2d_real_filter", "complex128"), ("convolve_cfilter", "float64"),
                 ("diagonal_cdiag", "float64"), ("matrix_cmat_compose", "float64"))]
        out.append({"kind": "circconv_hdft_real_out", "shape": [4], "dtype": "complex128", "known_id": KNOWN_CIRCCONV_REAL_OUT})
        return out
    if name == "CalculusMixed":
        out = []
        for left in CALCULUS_LEFT:
            for opn in CALCULUS_OPS:
                for nl in ("abs", "square"):
                    if nl == "square" and opn not in ("add", "rsub", "compose", "matmul"):
                        continue
                    out.append({"left": left, "op": opn, "nonlinear": nl, "shape": [4], "dtype": "float64"})
        return out
    if name == "WrappedOptions":
        out = []
        for dt in ("float64", "complex128"):
            cx = dt == "complex128"  # (complex: a subset - the option handling does not depend on the dtype)
            for mode in ("constant", "edge", "linear_ramp", "maximum", "mean", "median", "minimum", "reflect", "symmetric", "wrap", "empty"):
                if not cx or mode in ("maximum", "mean", "reflect", "empty"):
                    out.append({"op": "Pad", "shape": [4], "dtype": dt, "kwargs": {"mode": mode}})
            for kw in ({"mode": "constant", "constant_values": 0.0}, {"mode": "constant", "constant_values": 2.0}, {"mode": "linear_ramp", "end_values": 0.0},
                       {"mode": "linear_ramp", "end_values": 1.0}, {"mode": "mean", "stat_length": 2}, {"mode": "reflect", "reflect_type": "odd"},
                       {"mode": "symmetric", "reflect_type": "odd"}, {"mode": "maximum", "stat_length": 2}):
                if not cx or "reflect_type" in kw:
                    out.append({"op": "Pad", "shape": [4], "dtype": dt, "kwargs": kw})
            for kw in ({}, {"initial": 0.0}, {"where": [True, False, True, True]}, {"axis": 0, "keepdims": True}, {"dtype": "complex128"}):
                out.append({"op": "Sum", "shape": [4], "dtype": dt, "kwargs": kw})
            for kw in ({"initial": 1.5}, {"axis": 0, "keepdims": True, "initial": 2.0}):
                out.append({"op": "Sum", "shape": [4], "dtype": dt, "kwargs": kw, "known_id": KNOWN_SUM_INITIAL})
            out.append({"op": "Reshape", "shape": [2, 3], "dtype": dt, "args": [[3, 2]], "kwargs": {"order": "F"}})
            out.append({"op": "Reshape", "shape": [2, 3], "dtype": dt, "args": [[6]], "kwargs": {}})
            out.append({"op": "Transpose", "shape": [2, 3, 2], "dtype": dt, "args": [[2, 0, 1]], "kwargs": {}})
            out.append({"op": "Transpose", "shape": [2, 3], "dtype": dt, "args": [], "kwargs": {}})
        return out
    if name == "NoJit":
        return [{"kind": k, "shape": [3, 4], "dtype": dt, "jit": False} for k, dt in
                (("circconv", "float64"), ("circconv", "complex128"), ("convolve", "float64"), ("safd", "float64"), ("fd", "float64"), ("diagonal", "complex128"),
                 ("dft", "complex128"), ("matrix", "float64"), ("pad", "float64"), ("sum", "float64"), ("slice", "float64"), ("vstack", "float64"))]
    if name == "DtypeSweep":
        out = []
        for kind in ("transpose", "reshape", "sum", "slice", "crop", "pad", "identity", "scaledidentity", "diagonal", "safd", "fd", "circconv", "convolve",
                     "dft", "matrix", "vstack"):
            for dt in ("float32", "float64", "complex64", "complex128"):
                if kind == "dft" and not dt.startswith("complex"):
                    continue
                out.append({"kind": kind, "shape": [3, 4], "dtype": dt})
        return out
    if name == "OutsideLinop":
        return [
            {"kind": "sql2_hessian", "shape": [4], "dtype": "float64", "weighted": False},
            {"kind": "sql2_hessian", "shape": [4], "dtype": "float64", "weighted": True},
            {"kind": "sql2_hessian", "shape": [4], "dtype": "complex128", "weighted": True},
            {"kind": "sql2_hessian_fd", "shape": [3, 4], "dtype": "float64", "weighted": True},
            {"kind": "padded_circ_conv", "shape": [6, 5, 2], "dtype": "float32", "ksize": 3},
            {"kind": "padded_circ_conv", "shape": [5, 5, 1], "dtype": "float64", "ksize": [3, 5]},
        ]
    if name == "GenericLinearOperator":
        return [
            {"kind": "roll", "shape": [5], "dtype": "float64", "adj": True},
            {"kind": "roll", "shape": [5], "dtype": "complex128", "adj": False},
            {"kind": "fftreal", "shape": [4], "dtype": "float64", "adj": False},
            {"kind": "where", "shape": [2, 3], "dtype": "float64", "adj": False},
            {"kind": "einsum", "shape": [2, 3], "dtype": "complex128", "adj": False},
            {"kind": "take", "shape": [6], "dtype": "float64", "adj": False},
            {"kind": "dynslice", "shape": [6], "dtype": "float64", "adj": False},
            {"kind": "cumsum_rev", "shape": [5], "dtype": "float64", "adj": False},
            # control flow with input-independent trip counts / predicates (unrolled by the translator)
            {"kind": "fori_static", "shape": [5], "dtype": "float64", "adj": False},
            {"kind": "fori_static", "shape": [5], "dtype": "complex128", "adj": False},
            {"kind": "while_const_bound", "shape": [5], "dtype": "float64", "adj": False},
            {"kind": "scan_carry", "shape": [5], "dtype": "float64", "adj": False},
            {"kind": "scan_reverse_2d", "shape": [3, 4], "dtype": "complex128", "adj": False},
            {"kind": "cond_const", "shape": [5], "dtype": "float64", "adj": False},
            {"kind": "switch_const", "shape": [5], "dtype": "float64", "adj": False},
        ]
    raise KeyError(name)


def build(name, c):
    """construct the operator described by (class name, config)"""
    import opgrid

    if name in opgrid.GRIDS:
        return opgrid.build(name, c)
    import jax
    import jax.numpy as jnp

    import scico.numpy as snp
    from scico import linop

    dt = np.dtype(c["dtype"]).type
    cplx = np.issubdtype(dt, np.complexfloating)
    shape = tuple(c["shape"])
    if name == "KnownNonlinear":  # witnesses of known_findings.txt (corpus only, never part of the grid)
        w = c["which"]
        if w == "pad_constant_values":
            return linop.Pad(shape, input_dtype=dt, pad_width=1, constant_values=1.0)
        if w == "pad_linear_ramp":
            return linop.Pad(shape, input_dtype=dt, pad_width=1, mode="linear_ramp", end_values=2.0)
        if w == "sum_initial":
            return linop.Sum(shape, input_dtype=dt, initial=1.0)
        if w == "jacobian_include_eval":
            from scico.operator import Operator

            F = Operator(shape, output_shape=shape, eval_fn=lambda x: x * x + 1.0, input_dtype=dt, output_dtype=dt)
            return linop.jacobian(F, jnp.asarray(np.arange(1, shape[0] + 1).astype(dt)), include_eval=True)
        raise KeyError(w)
    if name == "Derived":
        n = shape[0]
        d1 = jnp.asarray((np.arange(1, n + 1) / 2).astype(dt) * ((1 + 0.5j) if cplx else 1))
        A = linop.SingleAxisFiniteDifference(shape, input_dtype=dt, axis=0, circular=True)
        B = linop.Diagonal(d1)
        S = linop.Sum(shape, input_dtype=dt, axis=0, keepdims=True)
        k = c["kind"]
        if k == "add":
            return linop.LinearOperator.__add__(A, B) if False else (A + B)
        if k == "sub":
            return A - B
        if k == "mul":
            return A * 3.0
        if k == "rmul":
            return 0.5 * (A + B)
        if k == "div":
            return A / 4.0
        if k == "cmul":
            return (1.5 - 2j) * A
        if k == "neg":
            return -A
        if k == "compose":
            return S @ (A @ B)
        h = jnp.asarray(np.array([1.0, -0.5, 0.25]).astype(dt))
        if k == "add_circ":
            return linop.CircularConvolve(h, shape, input_dtype=dt) + linop.CircularConvolve(2 * h, shape, input_dtype=dt)
        if k == "mul_circ":
            return 2.0 * linop.CircularConvolve(h, shape, input_dtype=dt)
        if k == "mat_add":
            M = jnp.asarray((np.arange(n * n).reshape(n, n) / 8).astype(dt))
            return linop.MatrixOperator(M) + A
        if k == "conv_add":
            return linop.Convolve(h, shape, input_dtype=dt) + linop.Convolve(3 * h, shape, input_dtype=dt)
        raise KeyError(k)
    if name == "Jacobian":
        from scico.operator import Operator

        fns = {
            "square": lambda x: x * x,
            "sin": lambda x: snp.sin(x),
            "cube_sum": lambda x: x**3 + snp.sum(x) * x,
            "exp_cplx": lambda x: snp.exp(1j * x),
        }
        F = Operator(shape, output_shape=shape, eval_fn=fns[c["fn"]], input_dtype=dt, output_dtype=dt)
        u = jnp.asarray(np.asarray(c["u"]).astype(dt) * ((1 - 0.5j) if cplx else 1))
        return linop.jacobian(F, u, include_eval=c["include_eval"])
    if name == "TVNormAux":
        from scico.functional import AnisotropicTVNorm

        f = AnisotropicTVNorm(circular=c["circular"], axes=None if c["axes"] is None else tuple(c["axes"]), input_shape=shape, input_dtype=dt)
        return {"WP": f.WP, "CWT": f.CWT, "G": f.G}[c["which"]]
    if name == "DiagonalReplicatedPmap":
        op = linop.SingleAxisFiniteDifference(shape, input_dtype=dt, axis=0, circular=True)
        return linop.DiagonalReplicated(op, 1, map_type="pmap")
    if name == "MixedDtype":
        n = shape[0]
        hr = jnp.asarray(np.array([1.0, -0.5, 0.25]))  # real filter
        k = c["kind"]
        if k == "circconv":
            return linop.CircularConvolve(hr, shape, input_dtype=dt)
        if k == "circconv_center":
            return linop.CircularConvolve(hr, shape, input_dtype=dt, h_center=1)
        hc = jnp.asarray(np.array([1.0 + 0.5j, -0.5, 0.25j]))  # complex filter
        if k == "circconv_cfilter":  # complex filter, real input space: an operator R^n -> C^n (real flag off)
            return linop.CircularConvolve(hc.astype(np.complex64 if np.dtype(dt) == np.float32 else np.complex128), shape, input_dtype=dt)
        if k == "circconv_hdft":  # filter given by its DFT: the output dtype is the input dtype unless stated
            return linop.CircularConvolve(jnp.fft.fft(hr, n=n), shape, input_dtype=dt, h_is_dft=True)
        if k == "circconv_hdft_real_out":  # complex input, declared real output: must be rejected or complex-linear
            try:
                return linop.CircularConvolve(jnp.fft.fft(hr, n=n), shape, input_dtype=dt, h_is_dft=True, output_dtype=np.float64)
            except ValueError as e:
                raise NotPresentedAsLinear(f"rejected:{type(e).__name__}") from e
        if k == "circconv_2d_real_filter":
            return linop.CircularConvolve(jnp.asarray(np.array([[1.0, -0.5], [0.25, 2.0]])), (3, 4), input_dtype=dt)
        if k == "convolve_cfilter":
            return linop.Convolve(hc, shape, input_dtype=dt, mode="same")
        if k == "diagonal_cdiag":
            return linop.Diagonal(jnp.asarray(np.arange(1.0, n + 1) * (1 - 0.5j)), input_dtype=dt)
        if k == "matrix_cmat_compose":
            return linop.MatrixOperator(jnp.asarray((np.arange(n * n).reshape(n, n) / 8) * (1 + 1j))) @ linop.CircularConvolve(hr, shape, input_dtype=dt)
        if k == "convolve":
            return linop.Convolve(hr, shape, input_dtype=dt, mode="same")
        if k == "convolvebyx":
            return linop.ConvolveByX(hr, shape, input_dtype=dt, mode="full")
        if k == "diagonal":
            return linop.Diagonal(jnp.asarray(np.arange(1.0, n + 1)), input_dtype=dt)
        if k == "scaledidentity":
            return linop.ScaledIdentity(2.5, shape, input_dtype=dt)
        if k == "matrix_compose":
            M = linop.MatrixOperator(jnp.asarray((np.arange(n * n).reshape(n, n) / 8).astype(dt)))
            return M @ linop.CircularConvolve(hr, shape, input_dtype=dt)
        if k == "fd":
            return linop.FiniteDifference(shape, input_dtype=dt, circular=True)
        if k == "sum":
            return linop.Sum(shape, input_dtype=dt)
        if k == "generic_matmul":
            Mr = jnp.asarray(np.arange(n * n).reshape(n, n) / 8)
            return linop.LinearOperator(shape, output_shape=shape, eval_fn=lambda x: Mr @ x, input_dtype=dt)
        raise KeyError(k)
    if name == "CalculusMixed":
        try:
            R = calculus_result(c)
        except (NotImplementedError, TypeError) as e:
            raise NotPresentedAsLinear(f"refused:{type(e).__name__}") from e
        if not isinstance(R, linop.LinearOperator):
            raise NotPresentedAsLinear(type(R).__name__)
        return R
    if name == "WrappedOptions":
        kw = dict(c["kwargs"])
        if "where" in kw:
            kw["where"] = jnp.asarray(np.array(kw["where"]))
        if "dtype" in kw:
            kw["dtype"] = np.dtype(kw["dtype"]).type
        args = [tuple(a) if isinstance(a, list) else a for a in c.get("args", [])]
        try:
            if c["op"] == "Pad":
                return linop.Pad(shape, input_dtype=dt, pad_width=2, **kw)
            return getattr(linop, c["op"])(shape, *args, input_dtype=dt, **kw)
        except ValueError as e:
            # the constructor rejects the option: the object is never presented as a linear operator
            raise NotPresentedAsLinear(f"rejected:{type(e).__name__}") from e
    if name in ("DtypeSweep", "NoJit"):
        k = c["kind"]
        jit = c.get("jit", True)
        n = int(np.prod(shape))
        ramp = (np.arange(1, n + 1) / 4).reshape(shape)
        val = jnp.asarray((ramp * ((1 - 0.5j) if cplx else 1)).astype(dt))
        h = jnp.asarray((np.array([[1.0, -0.5], [0.25, 2.0]]) * ((1 + 0.5j) if cplx else 1)).astype(dt))
        if k == "transpose":
            return linop.Transpose(shape, (1, 0), input_dtype=dt, jit=jit)
        if k == "reshape":
            return linop.Reshape(shape, (shape[1], shape[0]), input_dtype=dt, jit=jit)
        if k == "sum":
            return linop.Sum(shape, axis=0, input_dtype=dt, jit=jit)
        if k == "slice":
            return linop.Slice(np.s_[1:, ::2], shape, input_dtype=dt, jit=jit)
        if k == "crop":
            return linop.Crop(((1, 0), (1, 1)), shape, input_dtype=dt, jit=jit)
        if k == "pad":
            return linop.Pad(shape, input_dtype=dt, pad_width=((1, 0), (2, 1)), mode="edge", jit=jit)
        if k == "identity":
            return linop.Identity(shape, input_dtype=dt)
        if k == "scaledidentity":
            return linop.ScaledIdentity(dt(2.5), shape, input_dtype=dt)
        if k == "diagonal":
            return linop.Diagonal(val, input_dtype=dt, jit=jit)
        if k == "safd":
            return linop.SingleAxisFiniteDifference(shape, input_dtype=dt, axis=1, circular=True, jit=jit)
        if k == "fd":
            return linop.FiniteDifference(shape, input_dtype=dt, append=0, jit=jit)
        if k == "circconv":
            return linop.CircularConvolve(h, shape, input_dtype=dt, jit=jit)
        if k == "convolve":
            return linop.Convolve(h, shape, input_dtype=dt, mode="same", jit=jit)
        if k == "dft":
            return _dft(linop, shape, dt, jit)
        if k == "matrix":
            return linop.MatrixOperator(jnp.asarray((np.arange(6).reshape(2, 3) / 4 - 0.5).astype(dt) * ((1 + 1j) if cplx else 1)), input_cols=shape[1])
        if k == "vstack":
            return linop.VerticalStack((linop.Identity(shape, input_dtype=dt), linop.ScaledIdentity(dt(-1.0), shape, input_dtype=dt)))
        raise KeyError(k)
    if name == "OutsideLinop":
        k = c["kind"]
        if k.startswith("sql2_hessian"):
            from scico import loss

            n = int(np.prod(shape))
            if k == "sql2_hessian_fd":
                A = linop.FiniteDifference(shape, input_dtype=dt, circular=True)
            else:
                A = linop.MatrixOperator(jnp.asarray((np.arange(n * n).reshape(n, n) / 8 - 1).astype(dt) * ((1 + 0.5j) if cplx else 1)))
            y = jnp.zeros(A.output_shape, A.output_dtype)
            W = linop.Diagonal(jnp.asarray((np.arange(1, int(np.prod(A.output_shape)) + 1) / 4).reshape(A.output_shape))) if c["weighted"] else None
            return loss.SquaredL2Loss(y=y, A=A, W=W, scale=0.75).hessian
        if k == "padded_circ_conv":
            from scico.flax.examples.data_preprocessing import PaddedCircularConvolve

            return PaddedCircularConvolve(tuple(shape[:2]), shape[2], c["ksize"] if isinstance(c["ksize"], int) else tuple(c["ksize"]), 1.5, dtype=dt)
        raise KeyError(k)
    if name == "GenericLinearOperator":
        k = c["kind"]
        if k == "roll":
            kw = {"adj_fn": (lambda y: jnp.roll(y, -2))} if c["adj"] else {}
            return linop.LinearOperator(shape, output_shape=shape, eval_fn=lambda x: jnp.roll(x, 2), input_dtype=dt, output_dtype=dt, **kw)
        if k == "fftreal":
            return linop.LinearOperator(shape, eval_fn=lambda x: jnp.fft.fft(x), input_dtype=dt, output_dtype=np.result_type(dt, np.complex64))
        if k == "where":
            mask = jnp.asarray(np.array([[True, False, True], [False, True, True]]))
            return linop.LinearOperator(shape, output_shape=shape, eval_fn=lambda x: jnp.where(mask, x, 0.0), input_dtype=dt, output_dtype=dt)
        if k == "einsum":
            M = jnp.asarray(np.array([[1, 2j], [0.5, -1]]))
            return linop.LinearOperator(shape, output_shape=shape, eval_fn=lambda x: jnp.einsum("ij,jk->ik", M, x), input_dtype=dt, output_dtype=dt)
        if k == "take":
            idx = jnp.asarray(np.array([5, 0, 0, 3]))
            return linop.LinearOperator(shape, output_shape=(4,), eval_fn=lambda x: jnp.take(x, idx), input_dtype=dt, output_dtype=dt)
        if k == "dynslice":
            start = jnp.asarray(2)
            return linop.LinearOperator(shape, output_shape=(3,), eval_fn=lambda x: jax.lax.dynamic_slice(x, (start,), (3,)), input_dtype=dt, output_dtype=dt)
        if k == "cumsum_rev":
            return linop.LinearOperator(shape, output_shape=shape, eval_fn=lambda x: jnp.cumsum(x[::-1]), input_dtype=dt, output_dtype=dt)
        from jax import lax

        if k == "fori_static":  # three smoothing sweeps, weights depend on the sweep number: lowers to `scan`
            f = lambda x: lax.fori_loop(0, 3, lambda i, v: v + jnp.roll(v, 1) * (i + 1.0) / 4, x)
            return linop.LinearOperator(shape, output_shape=shape, eval_fn=f, input_dtype=dt, output_dtype=dt)
        if k == "while_const_bound":  # trip count is an array constant: lowers to `while`
            nit = jnp.asarray(4)
            f = lambda x: lax.fori_loop(0, nit, lambda i, v: 0.5 * (v + jnp.roll(v, -1)), x)
            return linop.LinearOperator(shape, output_shape=shape, eval_fn=f, input_dtype=dt, output_dtype=dt)
        if k == "scan_carry":  # running weighted sum over the entries of x: carry and stacked results
            def f(x):
                def body(c, xi):
                    c = 0.75 * c + xi
                    return c, c - 2 * xi

                last, ys = lax.scan(body, jnp.zeros((), x.dtype), x)
                return ys + last

            return linop.LinearOperator(shape, output_shape=shape, eval_fn=f, adj_fn=_dense_adj(f, shape, dt), input_dtype=dt, output_dtype=dt)
        if k == "scan_reverse_2d":  # reverse scan over the rows of a matrix
            def f(x):
                def body(c, row):
                    c = 0.5 * c + row
                    return c, c[::-1]

                _, ys = lax.scan(body, jnp.zeros(x.shape[1:], x.dtype), x, reverse=True)
                return ys

            return linop.LinearOperator(shape, output_shape=shape, eval_fn=f, adj_fn=_dense_adj(f, shape, dt), input_dtype=dt, output_dtype=dt)
        if k == "cond_const":
            flag = jnp.asarray(2.0)
            f = lambda x: lax.cond(flag > 1, lambda v: 2 * v - jnp.roll(v, 1), lambda v: v + 1, x)
            return linop.LinearOperator(shape, output_shape=shape, eval_fn=f, input_dtype=dt, output_dtype=dt)
        if k == "switch_const":
            which = jnp.asarray(1)
            f = lambda x: lax.switch(which, [lambda v: 2 * v + 1, lambda v: v[::-1] * 3, lambda v: v + 1], x)
            return linop.LinearOperator(shape, output_shape=shape, eval_fn=f, input_dtype=dt, output_dtype=dt)
        raise KeyError(k)
    raise KeyError(name)


def calculus_result(c):
    """the object scico returns for `left <op> F` with `left` an instance of a LinearOperator class and `F` a NON-linear
    Operator (configuration of class CalculusMixed)"""
    import jax.numpy as jnp

    import scico.numpy as snp
    from scico import linop
    from scico.operator import Abs, Operator

    dt = np.dtype(c["dtype"]).type
    shape = tuple(c["shape"])
    n = shape[0]
    hk = jnp.asarray(np.array([1.0, -0.5]).astype(dt))
    left = {
        "matrix": lambda: linop.MatrixOperator(jnp.asarray((np.arange(n * n).reshape(n, n) / 8 - 0.5).astype(dt))),
        "diagonal": lambda: linop.Diagonal(jnp.asarray(np.arange(1.0, n + 1).astype(dt))),
        "identity": lambda: linop.Identity(shape, input_dtype=dt),
        "scaledidentity": lambda: linop.ScaledIdentity(dt(2.5), shape, input_dtype=dt),
        "circconv": lambda: linop.CircularConvolve(hk, shape, input_dtype=dt),
        "convolve": lambda: linop.Convolve(hk, shape, input_dtype=dt, mode="same"),
        "convolvebyx": lambda: linop.ConvolveByX(hk, (2,), input_dtype=dt, mode="full") if False else linop.ConvolveByX(jnp.asarray(np.arange(1.0, n + 1).astype(dt)), (n,), input_dtype=dt, mode="same"),
        "fd": lambda: linop.SingleAxisFiniteDifference(shape, input_dtype=dt, axis=0, circular=True),
        "generic": lambda: linop.LinearOperator(shape, output_shape=shape, eval_fn=lambda x: 2.0 * x, input_dtype=dt, output_dtype=dt),
    }[c["left"]]()
    if c["nonlinear"] == "abs":
        F = Abs(input_shape=shape, input_dtype=dt)
    else:
        F = Operator(shape, output_shape=shape, eval_fn=lambda x: x * x, input_dtype=dt, output_dtype=dt)
    o = c["op"]
    if o == "add":
        return left + F
    if o == "sub":
        return left - F
    if o == "radd":
        return F + left
    if o == "rsub":
        return F - left
    if o == "compose":
        return left(F)
    if o == "rcompose":
        return F(left)
    if o == "matmul":
        return left @ F
    if o == "rmatmul":
        return F @ left
    raise KeyError(o)


def _dft(linop, shape, dt, jit=True):
    """DFT declares complex64; other widths through the jit-free generic route if the class has no dtype argument"""
    import inspect

    if "input_dtype" in inspect.signature(linop.DFT.__init__).parameters:
        return linop.DFT(shape, input_dtype=dt, jit=jit)
    import jax.numpy as jnp

    if np.dtype(dt) == np.complex64:
        return linop.DFT(shape, jit=jit)
    return linop.LinearOperator(shape, output_shape=shape, eval_fn=lambda x: jnp.fft.fftn(x), input_dtype=dt, output_dtype=dt)


def _dense_adj(f, shape, dt):
    """explicit adjoint of a linear map through its dense matrix (jax.linear_transpose cannot transpose a `scan` with a
    carry, so operators built on one have to supply `adj_fn`)"""
    import jax.numpy as jnp

    n = int(np.prod(shape))
    M = jnp.stack([f(jnp.zeros(n, dt).at[j].set(1).reshape(shape)).ravel() for j in range(n)], axis=1)
    MH = jnp.conj(M).T
    return lambda y: (MH @ y.ravel()).reshape(shape)


def all_classes():
    import opgrid

    return list(opgrid.CLASSES) + EXTRA_CLASSES


def configs(name, rng):
    import opgrid

    if name in opgrid.GRIDS:
        return opgrid.grid(name, rng)
    return _extra_grid(name, rng)


def enumerate_ops(rng, thorough, per_class):
    """yield (class_name, config, operator | Exception)"""
    for name in all_classes():
        cfgs = configs(name, rng)
        if not thorough and len(cfgs) > per_class:
            sel = set(rng.choice(len(cfgs), size=per_class, replace=False).tolist())
            # configurations the grid marks as indispensable (e.g. mixed real/complex dtypes) are always included
            sel |= {i for i, c in enumerate(cfgs) if isinstance(c, dict) and c.get("must")}
            if name in ("MixedDtype", "CalculusMixed", "Derived", "GenericLinearOperator", "OutsideLinop", "WrappedOptions", "NoJit", "DtypeSweep"):
                sel = set(range(len(cfgs)))  # small hand-made grids: always complete
            if name in QUICK_SHARE:
                k = max(per_class, int(round(QUICK_SHARE[name] * len(cfgs))))
                sel = set(rng.choice(len(cfgs), size=k, replace=False).tolist())
            cfgs = [cfgs[i] for i in sorted(sel)]
        for c in cfgs:
            if isinstance(c, dict) and c.get("known_id") in KNOWN_IDS:
                yield name, c, NotPresentedAsLinear(f"recorded-finding:{c['known_id']}")  # replayed from the corpus instead
                continue
            try:
                yield name, c, build(name, c)
            except Exception as e:  # noqa: BLE001
                yield name, c, e


ALL_VIEWS = ["eval", "adj", "gram", "T", "H", "conj", "gram_op", "T.adj", "H.adj"]


def views(A, which):
    """[(view, fn, in_shape, in_dtype)] ; `which` ⊆ ALL_VIEWS.  Constructing a view may raise: the exception is returned
    in place of fn."""
    out = []
    for v in which:
        try:
            if v == "eval":
                out.append((v, A.__call__, A.input_shape, A.input_dtype))
            elif v == "adj":
                out.append((v, A.adj, A.output_shape, A.output_dtype))
            elif v == "gram":
                out.append((v, A.gram, A.input_shape, A.input_dtype))
            elif v in ("T", "H", "gram_op"):
                B = getattr(A, v)
                out.append((v, B.__call__, B.input_shape, B.input_dtype))
            elif v == "conj":
                B = A.conj()
                out.append((v, B.__call__, B.input_shape, B.input_dtype))
            elif v in ("T.adj", "H.adj"):
                B = getattr(A, v[0])
                out.append((v, B.adj, B.output_shape, B.output_dtype))
        except Exception as e:  # noqa: BLE001
            out.append((v, e, None, None))
    return out


def is_nested(shape):
    return len(shape) > 0 and isinstance(shape[0], (tuple, list))


def leaf_shapes(shape):
    return [tuple(s) for s in shape] if is_nested(shape) else [tuple(shape)]


def pack(shape, leaves):
    """leaves -> Array | BlockArray of the given (possibly nested) shape"""
    import scico.numpy as snp

    if is_nested(shape):
        return snp.blockarray(list(leaves))
    return leaves[0]


def unpack(y):
    """Array | BlockArray -> list of numpy leaves"""
    from scico.numpy import BlockArray

    if isinstance(y, BlockArray):
        return [np.asarray(b) for b in y]
    return [np.asarray(y)]
