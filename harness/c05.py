"""C05 - operator calculus denotes the pointwise / matrix construction (engine OpAlg, DESIGN §5.1)."""

from __future__ import annotations

import json

import numpy as np

import common
import opalg_gen as G
import opalg_trees as T

PROP = "C05"
CLAIMED = True
ENGINE = "OpAlg"
DESIGN_REF = "DESIGN.md §5.1"
TECHNIQUE = (
    "Lean 4 proof by induction over operator expression trees (model of scico's class-directed dispatch and closures "
    "= the same construction on dense matrices) + differential correspondence of the model with real scico objects"
)
LEVEL_TEXT = (
    "Lean theorems over an arbitrary field with involution: for every expression tree (any depth) built from "
    "MatrixOperator / Diagonal (broadcasting, block) / ScaledIdentity / Identity / generic LinearOperator / "
    "non-linear Operator leaves with +, -, unary -, scalar * and /, @, call-composition, .T, .H, .conj(), gram_op, and "
    "VerticalStack / DiagonalStack of any number of such expressions, freeze / Function.slice / Function.join, DiagonalReplicated (block formula H(x)_k = A(x_k)), "
    "what scico constructs (generic closures and every closed-form override, for every class pair in both orders) "
    "evaluates to the dense matrix obtained by the same construction on the operands' matrices; rejection is "
    "characterised.  The model is tied to the code by an exhaustive class-pair table and random trees."
)
LEVEL_NOTE = (
    "Trusted: Lean kernel + Mathlib (axioms propext, Classical.choice, Quot.sound); jax.linear_transpose contract "
    "(automatic adjoints are the (conjugate) transpose of the dense matrix of the closure); real-number idealisation. "
    "Outside the theorems: N-d / batched Convolve and CircularConvolve arithmetic and their mixed-class sums (oracle only), trees in which a real part is taken (real->complex operators; covered by the executable model and the tie)."
)
PROP_MODULES = ["Scico.Props.C05"]
EXTRA_TARGETS = ["Drv.OpAlg"]
DRIVER = "OpAlg"
FILES = [
    "scico/operator/_operator.py",
    "scico/linop/_linop.py",
    "scico/linop/_diag.py",
    "scico/linop/_matrix.py",
    "scico/numpy/util.py",
    "scico/operator/_stack.py",
    "scico/linop/_stack.py",
    "scico/function.py",
    "scico/linop/_convolve.py",
    "scico/linop/_circconv.py",
]
RULE = (
    "1) dtype table: every (dtype, scalar kind) against jax.numpy.result_type (exhaustive). 2) class-pair table: every "
    "ordered pair of the 9 leaf classes x {+,-,@,call,*,/} x {real,complex}^2 (+ mismatched shapes), every class x 13 "
    "scalar kinds x {c*A,A*c,A/c,c/A,A+c,A-c,c+A,c-A}, every class x {neg,T,H,conj,gram} (exhaustive). 3) random trees "
    "(200 quick / 5000 thorough) of depth <=4 (quick) / <=7 (thorough) over leaves of size 1-6 (plain, 2-d, block shapes; broadcasting diagonals; "
    "f32/f64/c64/c128), ~6% ill-typed nodes. A case is non-trivial when it has at least one operation node; distinct "
    "by its skeleton (structure, classes, shapes, dtypes, scalar kinds). 4) model-backed streams: random VerticalStack / "
    "DiagonalStack of random expressions, freeze / Function.slice / join (every index in [-N-1, N]), DiagonalReplicated (every "
    "axis in range, 15% out of range); jit-history: the same operator objects first used inside jax.jit, then eagerly."
)
ASSUMPTIONS = [
    "jax.linear_transpose returns the transpose of the dense matrix of a linear closure (real part for real primals)",
    "jax.numpy.result_type is the dtype of jax arithmetic (validated against the model table on every run)",
]


import concurrent.futures as _cf

_POOL = _cf.ThreadPoolExecutor(max_workers=1)

C05_KEYS = ("value", "adjoint_value", "accepted_nonconforming", "matrix_shape_vs_construction")


def _inputs(rng, n, cplx, k=2):
    xs = [np.eye(n, dtype=np.complex128)[j] for j in rng.permutation(n)[: min(n, k)]]
    xs.append(T.vals(rng, (n,), cplx).astype(np.complex128))
    return xs


def check_dtype_table(ctx, model):
    import jax.numpy as jnp

    env_scal = {
        "int": [2, int],
        "float": [2.0, float],
        "complex": [1j, complex],
    }
    n = 0
    for a in G.DTS:
        for kind, objs in env_scal.items():
            want = model.call("result_type", a=a, kind=kind)
            for o in objs:
                got = np.dtype(jnp.result_type(np.dtype(a), o)).name
                n += 1
                if got != want:
                    raise common.Infra(f"dtype table: result_type({a},{o!r}) = {got}, model {want}")
        for b in G.DTS:
            for kind, o in (("np", np.dtype(b).type(2)), ("jx", jnp.asarray(2, dtype=b)), ("np", np.dtype(b))):
                want = model.call("result_type", a=a, kind=kind, dt=b)
                got = np.dtype(jnp.result_type(np.dtype(a), o)).name
                # value-level: dtype of array * scalar
                arr = jnp.ones((2,), dtype=a)
                val = np.dtype((arr * o).dtype).name if not isinstance(o, np.dtype) else got
                n += 1
                if got != want or val != want:
                    raise common.Infra(f"dtype table: result_type({a},{kind}:{b}) = {got}/{val}, model {want}")
    ctx.count("dtype-table-entries", n)
    ctx.extra["dtype_table"] = {"entries": n, "exhaustive": True}
    # broadcast_shapes
    dims = [[], [1], [2], [3], [1, 1], [1, 2], [2, 1], [2, 3], [3, 1], [1, 3], [2, 2], [3, 2], [2, 1, 3], [1, 2, 1]]
    for a in dims:
        for b in dims:
            try:
                want = list(np.broadcast_shapes(tuple(a), tuple(b)))
            except ValueError:
                want = None
            try:
                got = model.call("bshape", a=a, b=b)
            except common.ModelErr:
                got = None
            if got != want:
                raise common.Infra(f"broadcast_shapes({a},{b}) = {want}, model {got}")
    ctx.count("broadcast-table-entries", len(dims) ** 2)


def run_case(ctx, model, env, orc, name, e, stream):
    """one tree: real objects vs model; returns True when they agree"""
    rng = ctx.rng
    impl = env.observe(e, [], None)
    xs = ys = []
    if impl[0] == "ok":
        info = impl[1]
        m, n = info["matrix_shape"]
        xs = _inputs(rng, n, G.is_cplx(info["in_dtype"]))
        ys = _inputs(rng, m, G.is_cplx(info["out_dtype"]))
        # the model is evaluated (driver subprocess) while the implementation is
        fut = _POOL.submit(G.model_observe, model, e, xs, ys)
        impl = env.evaluate(impl, xs, ys)
        mod = fut.result()
    else:
        mod = G.model_observe(model, e, xs, ys)
    diffs = G.compare(impl, mod, e)
    nontrivial = G.skeleton(e) if G.nodes(e) > 1 else None
    ctx.case({"name": name, "skeleton": G.skeleton(e)[:300]}, nontrivial, sample_every=400)
    ctx.count(f"{stream}:cases")
    ctx.count(f"depth={G.depth(e)}")
    ctx.count("kind-uniform" if G.kind_uniform(e) else ("mixed-kind:adjoint-inside(metadata only)" if G.uses_adjoint(e) else "mixed-kind(no adjoint values)"))
    if impl[0] == "err":
        ctx.count(f"rejected:{impl[1]}")
    else:
        ctx.count("class=" + impl[1]["cls"])
        ctx.count("dtype=" + impl[1]["in_dtype"] + ">" + impl[1]["out_dtype"])
        ctx.count("size=%dx%d" % tuple(impl[1]["matrix_shape"]))
        if impl[1]["eval_dt"] and impl[1]["eval_dt"].startswith("err"):
            ctx.count("eval-raises:" + impl[1]["eval_dt"])
        if impl[1]["adj_dt"] and impl[1]["adj_dt"].startswith("err"):
            ctx.count("adj-raises:" + impl[1]["adj_dt"])
    if not diffs:
        return True
    legacy = G.classify(model, e, xs, ys, impl)
    d = diffs[0]
    case = {"e": e, "name": name, "xs": [G.encs(x) for x in xs], "ys": [G.encs(y) for y in ys]}
    ctx.disagree(
        "opalg.expr:" + d[0],
        case,
        _js(d[1]) if impl[0] == "ok" else [impl[0], impl[1], impl[2]],
        _js(d[2]),
        oracle=orc,
        known_id=None,
        note=(f"matches the pinned tree's behaviour '{legacy}' (regression of a repaired defect)" if legacy else ""),
    )
    return False



def jit_history(ctx, env):
    """operator objects reused across a jit boundary: the FIRST mixed expression with the pair (A, B) is formed
    and evaluated inside jax.jit, later expressions with the SAME objects are evaluated eagerly - every one must
    denote the same construction on the operands' matrices (state cached on an operator during tracing must
    not leak)"""
    import jax

    rng = ctx.rng
    sq = [3]
    bad = 0
    firsts = ("sid", "ident", "diag", "mat") if not ctx.thorough else tuple(c for c in T.CLASSES if c != "nonlin")
    # single-object histories: the FIRST call of a method that may cache (gram, adj, gram_op) happens inside jax.jit,
    # later calls on the same object are eager
    for ca in T.CLASSES:
        if ca == "nonlin":
            continue
        for dt in ("float64", "complex128"):
            ea = T.leaf(rng, ca, sq, sq, lambda: dt)
            if ea is None:
                continue
            ctx.case({"jit-history-1": [ca, dt]}, ("jit-history-1", ca, dt), sample_every=40)
            ctx.count("jit-history:single-object cases")
            Da = G.np_den(ea)
            x = T.vals(rng, (3,), G.is_cplx(dt)).astype(np.complex128)
            xa = env.to_array(x, sq, dt)
            fail = None
            try:
                A = env.build(ea)
                first = {"gram": lambda v, A=A: A.gram(v), "adj": lambda v, A=A: A.adj(v), "gram_op": lambda v, A=A: A.gram_op(v)}
                W = {"gram": Da.conj().T @ Da, "adj": Da.conj().T, "gram_op": Da.conj().T @ Da}
                for nm, f in first.items():
                    y = env.flat(jax.jit(f)(xa))
                    if not G.vec_close(y, W[nm] @ x, 1e-9, 9):
                        fail = {"step": f"jit(lambda v: A.{nm}(v))(x)", "returned": [str(complex(z)) for z in y], "construction": [str(complex(z)) for z in W[nm] @ x]}
                        break
                if fail is None:
                    for nm, f in list(first.items()) + [("__call__", lambda v, A=A: A(v)), ("H", lambda v, A=A: A.H(v))]:
                        Wm = W.get(nm, Da if nm == "__call__" else Da.conj().T)
                        y = env.flat(f(xa))
                        if not G.vec_close(y, Wm @ x, 1e-9, 9):
                            fail = {"step": f"then eagerly A.{nm}(x)", "returned": [str(complex(z)) for z in y], "construction": [str(complex(z)) for z in Wm @ x]}
                            break
            except Exception as ex:  # noqa: BLE001
                fail = {"step": "single-object history (first gram / adj / gram_op under jax.jit, then eager calls)", "raised": repr(ex)[:200]}
            if fail:
                fail.update({"A": G.skeleton(ea), "x": [str(complex(z)) for z in x], "history": "A built once; gram, adj, gram_op first called inside jax.jit"})
                ctx.disagree("opalg.jit-history", {"a": ea, "dt": dt}, _js(fail), "same construction on the operand's matrix at every step",
                             oracle=lambda c, fail=fail: _js(fail))
                bad += 1
                if bad >= 3:
                    return
    jax.clear_caches()
    for ca in firsts:
        for cb in T.CLASSES:
            if cb == "nonlin":
                continue
            for dt in (("float64",) if not ctx.thorough else ("float64", "complex128")):
                ea, eb = T.leaf(rng, ca, sq, sq, lambda: dt), T.leaf(rng, cb, sq, sq, lambda: dt)
                if ea is None or eb is None:
                    continue
                ctx.case({"jit-history": [ca, cb, dt]}, ("jit-history", ca, cb, dt), sample_every=40)
                ctx.count("jit-history:cases")
                Da, Db = G.np_den(ea), G.np_den(eb)
                x = T.vals(rng, (3,), G.is_cplx(dt)).astype(np.complex128)
                xa = env.to_array(x, sq, dt)
                fail = None
                steps = (("(A - B)(x)", lambda A, B: (A - B)(xa), Da - Db), ("(B - A)(x)", lambda A, B: (B - A)(xa), Db - Da),
                         ("(A @ B)(x)", lambda A, B: (A @ B)(xa), Da @ Db), ("(B @ A)(x)", lambda A, B: (B @ A)(xa), Db @ Da),
                         ("(A + B).H(x)", lambda A, B: (A + B).H(xa), (Da + Db).conj().T), ("(2.0 * A)(x)", lambda A, B: (2.0 * A)(xa), 2.0 * Da))

                # the same expressions on a second, freshly built pair evaluated eagerly only: a combination that scico
                # rejects anyway (e.g. diagonals of different shapes) is not a step of the history
                try:
                    A2, B2 = env.build(ea), env.build(eb)
                except Exception:  # noqa: BLE001
                    continue

                def fresh_ok(f):
                    try:
                        f(A2, B2)
                        return True
                    except Exception:  # noqa: BLE001
                        return False

                if not fresh_ok(lambda A, B: (A + B)(xa)):
                    ctx.count("jit-history:combination rejected")
                    continue
                try:
                    A, B = env.build(ea), env.build(eb)  # built once, reused below
                    y = env.flat(jax.jit(lambda v, A=A, B=B: (A + B)(v))(xa))
                    if not G.vec_close(y, (Da + Db) @ x, 1e-9, 9):
                        fail = {"step": "jit(lambda v: (A + B)(v))(x)", "returned": [str(complex(z)) for z in y], "construction": [str(complex(z)) for z in (Da + Db) @ x]}
                except Exception as ex:  # noqa: BLE001
                    fail = {"step": "jit(lambda v: (A + B)(v))(x)", "raised": repr(ex)[:200]}
                if fail is None:
                    for nm, f, W in steps:
                        if not fresh_ok(f):
                            continue
                        try:
                            y = env.flat(f(A, B))
                        except Exception as ex:  # noqa: BLE001
                            fail = {"step": "then eagerly " + nm, "raised": repr(ex)[:200], "same_expression_on_fresh_operands": "evaluates"}
                            break
                        if not G.vec_close(y, W @ x, 1e-9, 9):
                            fail = {"step": "then eagerly " + nm, "returned": [str(complex(z)) for z in y], "construction": [str(complex(z)) for z in W @ x]}
                            break
                if fail:
                    fail.update({"A": G.skeleton(ea), "B": G.skeleton(eb), "x": [str(complex(z)) for z in x],
                                 "history": "A, B built once; first evaluated inside jax.jit as (A + B)(x)"})
                    ctx.disagree("opalg.jit-history", {"a": ea, "b": eb, "dt": dt}, _js(fail), "same construction on the operands' matrices at every step",
                                 oracle=lambda c, fail=fail: _js(fail))
                    bad += 1
                    if bad >= 3:
                        return
        jax.clear_caches()


def _js(v):
    return json.loads(json.dumps(v, default=str))


def correspond(ctx, model):
    import time as _time

    _t = [_time.time()]
    secs = ctx.extra.setdefault("section_seconds", {})

    def _mark(name):
        secs[name] = round(_time.time() - _t[0], 1)
        _t[0] = _time.time()

    env = G.Env()
    orc = G.oracle(env)
    check_dtype_table(ctx, model)
    _mark('dtype-table')
    # corpus first
    cdir = common.CORPUS_DIR / PROP
    if cdir.exists():
        for f in sorted(cdir.glob("*.json")):
            c = json.loads(f.read_text())
            if "e" in c:  # (witness descriptions of findings replayed elsewhere carry no tree)
                run_case(ctx, model, env, orc, "corpus:" + f.stem, c["e"], "corpus")
    _mark('corpus')
    # exhaustive class-pair table
    table = T.pair_table(ctx.rng)
    ctx.exhaustive = True
    ctx.extra["pair_table"] = {"cases": len(table), "classes": T.CLASSES, "exhaustive": True}
    bad = 0
    for name, e in table:
        if not run_case(ctx, model, env, orc, name, e, "table"):
            bad += 1
            if bad >= 8:
                break
    _mark('pair-table')
    # parts of the calculus without a Lean model: implementation-only oracle
    import opalg_stacks as S

    for name, key, fail in S.cases(env, ctx.rng, ctx.thorough):
        ctx.case({"name": name}, ("oracle",) + tuple(map(str, key)))
        ctx.count("oracle-only:" + name.split(" ")[0].split("{")[0].split("(")[0].split("[")[0])
        if fail:
            kid = fail.get("known_id")
            ctx.disagree("opalg.oracle:" + str(fail.get("what")), {"name": name, "key": [str(k) for k in key]}, _js(fail), "same construction on the operands' matrices",
                         oracle=lambda c, fail=fail: _js(fail), known_id=kid)
            if kid is not None and ctx.is_known(kid):
                continue
            bad += 1
            if bad >= 8:
                break
    _mark('oracle-only')
    # stacks with a Lean model (vstack / dstack of random expressions)
    S.model_tie(ctx, env, model, ctx.n(30, 1200))
    # stacks inside further constructions (stack of a stack, views / arithmetic of a stack)
    S.stackx_tie(ctx, env, model, ctx.n(30, 800))
    _mark('stacks')
    # freeze / Function.slice / Function.join with the Lean model
    S.freeze_tie(ctx, env, model, ctx.n(40, 1500))
    _mark('freeze')
    # DiagonalReplicated with the Lean model
    S.drep_tie(ctx, env, model, ctx.n(30, 1200))
    _mark('drep')
    # Convolve closed-form arithmetic with the Lean model
    S.conv_tie(ctx, env, model, ctx.n(60, 1500))
    _mark('convolve')
    # default precision (round 6): a sample of the table / random trees / stacks at float32 / complex64 and with the dtype
    # arguments omitted, in a subprocess WITHOUT jax_enable_x64; the worker evaluates the property itself
    S.nox64_stream(ctx, env, table, ctx.n(220, 2500), ctx.n(30, 300), mixed_dtype_findings=False)
    _mark('default-precision')
    # histories: the same operator objects used first inside jit, then eagerly
    jit_history(ctx, env)
    _mark('jit-history')
    # random trees
    n = ctx.n(200, 5000)
    dmax = ctx.n(4, 7)
    for i in range(n):
        dt_of = T.dtype_regime(ctx.rng)
        insh, outsh = T.shape(ctx.rng), T.shape(ctx.rng)
        if ctx.rng.random() < 0.5:
            outsh = insh
        d = int(ctx.rng.integers(2, dmax + 1))
        e = T.tree(ctx.rng, d, insh, outsh, dt_of)
        if not run_case(ctx, model, env, orc, f"tree{i}", e, "trees"):
            bad += 1
            if bad >= 12:
                break
    _mark("random-trees")


def generate(ctx):
    """translator: override table, dispatch ladders and derived-constructor arguments read from the working tree with `ast`
    (harness/opalg_translate.py) against the tables of the model (one `decide` obligation)"""
    import opalg_translate

    return opalg_translate.adapter_generate(ctx)


def findings(ctx, model):
    import opalg_stacks as S

    ctx.known_finding(S.KNOWN_NEG_INDEX, S.neg_index_still_fails(G.Env()))
    ctx.known_finding(S.KNOWN_DREP_OA, S.drep_oa_still_fails(G.Env()))
    ctx.known_finding(S.KNOWN_CONV_JAX, S.conv_jax_still_fails(G.Env()))
    ctx.known_finding(S.KNOWN_CIRC_RC, S.circ_rc_still_fails(G.Env()))


def search(ctx, model, why):
    """thorough tier: the property oracle on the implementation alone over fresh random trees"""
    env = G.Env()
    orc = G.oracle(env)
    if why is not None:
        # a generated obligation no longer checks: exercise exactly the classes / methods whose table rows differ
        import opalg_panel

        r = opalg_panel.search(ctx, env, keys=None)
        if r is not None:
            return r
    for i in range(ctx.n(0, 1500) if why is None else 300):
        dt_of = T.dtype_regime(ctx.rng)
        insh = T.shape(ctx.rng)
        outsh = insh if ctx.rng.random() < 0.5 else T.shape(ctx.rng)
        e = T.tree(ctx.rng, int(ctx.rng.integers(2, 6)), insh, outsh, dt_of, p_bad=0.0)
        r = orc({"e": e})
        ctx.count("oracle-search:cases")
        # C05 is about the denotation; declared-vs-returned dtypes / shapes are C12's
        r = {k: v for k, v in (r or {}).items() if k in C05_KEYS}
        if r:
            return {"e": e, "failing": r}
    return None


def replay(ctx, model, case):
    env = G.Env()
    orc = G.oracle(env)
    c = case.get("case", case)
    r = orc(c)
    print("replay:", "property FAILS on implementation:" if r else "no failure at this input", json.dumps(r, default=str)[:600])
    if r:
        ctx.violation({"kind": "failing-input", "case": c, "failing": r}, True, "replay")
