"""C11 - solver iterations follow the documented update equations; accessors return the documented expressions.

Engine `Steps` (DESIGN §5.3).  Lean side: lean/Scico/Model/Steps.lean (impl + spec transcriptions),
lean/Scico/Proofs/StepsEq.lean, lean/Scico/Props/C11.lean, driver lean/Drv/Steps.lean.

Tie: random small problem instances are built on the REAL optimiser classes (harness/steps_gen.py);
the public state is read before and after each of k calls of step() and compared with `implStep`
iterated by the Lean driver, which recomputes the whole step independently (own proximal maps, dense
matrices computed with numpy formulas, Gaussian elimination for the ADMM x-update, analytic Jacobians
for the non-linear maps).  Accessors are called with and without arguments.
"""

from __future__ import annotations

import json

import numpy as np

import common
import steps_gen as G
import steps_translate
from common import Infra, ModelErr

PROP = "C11"
CLAIMED = True
ENGINE = "Steps"
DESIGN_REF = "DESIGN.md §5.3"
TECHNIQUE = (
    "Lean 4 proof that the transcription of each step() body equals the transcription of the documented equations "
    "(equality of functions over arbitrary modules) + differential check of the executable model against the real optimisers"
)
LEVEL_TEXT = (
    "Lean theorems: for ADMM (in-place loop over live lists, alpha==1 shortcut), LinearizedADMM, ProximalADMM (B, c and "
    "their defaults), NonLinearPADMM, PDHG (linear / non-linear C), PGM and AcceleratedPGM (any step-size hook), the "
    "step() body equals the documented iteration on every state, for every option value, arbitrary operators / proximal "
    "maps / solvers, variables in arbitrary modules (real, complex, block); every accessor equals its documented "
    "expression with and without supplied points; the constructors' argument checks (ADMM list lengths, the empty constraint "
    "list with each solver kind, PGM has_prox) and initial states; the memory of the Barzilai-Borwein step-size policies after "
    "every step (all histories of accepted / rejected values). The model is tied to the code by replaying random instances on the real "
    "classes: full public state (incl. step-size memory) after each of k steps and all accessors, compared with the model's "
    "independent recomputation at 1e-8, and bit for bit on an exact-arithmetic stream of dyadic instances (ADMM with the CG "
    "and the matrix solver, LinearizedADMM, ProximalADMM, PDHG, PGM; 1-d, 2-d and block variables). Generated obligations "
    "(ast translator, every run): constructor defaults, normalised statements of every transcribed method and of the x-step "
    "solver paths, assignment order of step()/__init__, solver-class table and the docstring parameter ranges equal the "
    "tables pinned in Model/StepsSource.lean (C11_source_transcription links them to the model); after a broken obligation "
    "the failing-input search runs a panel of exactly the classes / solver kinds whose rows differ. compute_rhs() and lhs_op of "
    "the linear-system x-solvers are compared with the documented normal equations on every ADMM case; losses built with * and / "
    "are part of every stream. Default precision: a worker without jax_enable_x64 steps float32 / complex64 instances of all classes "
    "(no raise, state stays 32-bit of the right kind, post-state and residual accessors equal the model at 5e-4 / 1e-3)."
)
LEVEL_NOTE = (
    "Trusted: Lean kernel + Mathlib (axioms propext, Classical.choice, Quot.sound); real-number idealisation (the model runs "
    "in binary64, comparison within 1e-8 relative); the transcription of the Python bodies into Model/Steps.lean is checked "
    "by the correspondence run (sizes 2-6, k<=5 quick / <=50 thorough) and, textually, by the generated obligations; proximal maps, operators, CG / LU solvers and "
    "JAX autodiff are parameters of the theorems (their own correctness is C02/C10/C14/C07), the step-size policies are C16."
)
PROP_MODULES = ["Scico.Props.C11"]
EXTRA_TARGETS = ["Drv.Steps"]
DRIVER = "Steps"
FILES = [
    "scico/optimize/_admm.py",
    "scico/optimize/_ladmm.py",
    "scico/optimize/_padmm.py",
    "scico/optimize/_primaldual.py",
    "scico/optimize/_pgm.py",
    "scico/optimize/_pgmaux.py",
    "scico/optimize/_admmaux.py",
    "scico/functional/_functional.py",
]
RULE = (
    "one case = one generated problem instance (recipe) of one optimiser class run for k steps with all accessors; "
    "recipes: sizes 2-6, 1-d / 2-d / block variables, float64 / complex128, operators from dyadic matrices, identity, scaled "
    "identity, diagonal, finite differences, vertical stacks, quadratic non-linear maps; functionals l1, l2, l2,1, squared l2, "
    "non-negativity, zero, weighted squared-l2 losses; parameters inside and (edge stream, every 5th case) on/outside the "
    "documented ranges. A case is non-trivial when the first step changes x; distinct by its configuration key "
    "(class, dtype, shape kind, operator kinds, functional kinds, option values) and step count."
)
ASSUMPTIONS = [
    "prox maps, linear operators / adjoints, Jacobian products, x-subproblem solvers are parameters (contracts of C02/C01/C07/C10)",
    "v0= warm-start hints do not change the value of a proximal map",
    "binary64 rounding is not modelled; comparison tolerance 1e-8 relative on states, 1e-8 on accessors",
]

RTOL = 1e-8


# --------------------------------------------------------------------------------------------
# documented equations evaluated on the implementation's own objects (property oracle)


def _norm(v):
    import scico.numpy as snp

    return float(snp.linalg.norm(v)) if not hasattr(v, "arrays") and type(v).__name__ != "BlockArray" else float(
        np.sqrt(sum(float(snp.sum(snp.abs(b) ** 2)) for b in v))
    )


def documented_x_update(b):
    """the documented ADMM x-update  argmin_x f(x) + sum_i rho_i/2 ||z_i - u_i - C_i x||^2  for f = None or a weighted
    squared-l2 loss, solved densely in numpy from matrices computed by numpy formulas (independent of the optimiser's
    sub-problem solver, which is itself under test); None when f is not of that form"""
    import scico.numpy as snp

    ne = documented_normal_equation(b)
    if ne is None:
        return None
    H, rhs = ne
    if np.linalg.cond(H) > 1e10:
        return None
    x = np.linalg.solve(H, rhs)
    return G.unflat(G.realify(x, b.cplx).tolist(), b.xshape, b.cplx)


def documented_normal_equation(b):
    """(H, rhs) of the documented x-update: H = 2 s A^H W A + sum rho_i C_i^H C_i (`lhs_op` of the linear-system solvers),
    rhs = 2 s A^H W y + sum rho_i C_i^H (z_i - u_i) (`compute_rhs`), dense numpy on the flattened variable"""
    s, cx, r = b.solver, b.cplx, b.recipe
    n = G.size_of(b.xshape)
    fr = r.get("f")
    if fr is not None and fr.get("k") != "sqloss":
        return None
    H = np.zeros((n, n), dtype=np.complex128)
    rhs = np.zeros((n,), dtype=np.complex128)
    if fr is not None:
        A = np.eye(n) if fr.get("A") is None else np.asarray(G.op_dense(fr["A"], b.xshape)[0])
        y = np.asarray(G.np_flat(G.unflat(fr["y"], fr["yshape"], cx)))
        W = np.ones(A.shape[0]) if fr.get("W") is None else np.asarray(fr["W"], dtype=np.float64)
        H += 2.0 * fr["s"] * (A.conj().T * W) @ A
        rhs += 2.0 * fr["s"] * (A.conj().T * W) @ y
    xw = r.get("xweights") or [1.0] * len(r["C"])  # G0BlockCircularConvolveSolver: x-step of its docstring (rho_1 * omega)
    for rho, w_, c, z, u in zip(s.rho_list, xw, r["C"], s.z_list, s.u_list):
        M = np.asarray(G.op_dense(c, b.xshape)[0])
        H += w_ * rho * M.conj().T @ M
        rhs += w_ * rho * M.conj().T @ (np.asarray(G.np_flat(z)) - np.asarray(G.np_flat(u)))
    return H, rhs


LINEAR_FAMILY = ("linear", "linear-jax", "matrix", "circ", "fblock")


def check_normal_equation(ctx, b, recipe, rng, stepno):
    """ADMM with a solver of the linear-system family, at the current state: `compute_rhs()` and `lhs_op` (the transcription
    `linRhs` / `linLhs` of C03_admm_linear_solver_contract) against the documented dense formulas"""
    sub = b.solver.subproblem_solver
    ne = documented_normal_equation(b)
    if ne is None:
        return
    H, rhs = ne
    cx = b.cplx
    scale = 1.0 + float(np.max(np.abs(rhs))) if rhs.size else 1.0
    got = np.asarray(G.np_flat(sub.compute_rhs()), dtype=np.complex128)
    ctx.count("x-update:compute_rhs:" + recipe["solver"])
    if got.shape != rhs.shape or not np.all(np.abs(got - rhs) <= 1e-9 * scale):
        fail = {"class": type(sub).__name__, "method": "compute_rhs", "recipe": recipe, "state": b.read(), "step": stepno,
                "returned": G.realify(got, True).tolist(), "documented": G.realify(rhs, True).tolist()}
        ctx.disagree("steps.admm.compute_rhs", {"recipe": recipe, "step": stepno}, fail["returned"], fail["documented"],
                     oracle=lambda c: fail)
    if hasattr(sub, "lhs_op"):
        v = G.rand_value(rng, b.xshape, cx)
        va = np.asarray(G.np_flat(G.unflat(v, b.xshape, cx)), dtype=np.complex128)
        want = H @ va
        got = np.asarray(G.np_flat(sub.lhs_op(G.unflat(v, b.xshape, cx))), dtype=np.complex128)
        ctx.count("x-update:lhs_op:" + recipe["solver"])
        sc2 = 1.0 + float(np.max(np.abs(want))) if want.size else 1.0
        if got.shape != want.shape or not np.all(np.abs(got - want) <= 1e-9 * sc2):
            fail = {"class": type(sub).__name__, "method": "lhs_op", "recipe": recipe, "argument": v,
                    "returned": G.realify(got, True).tolist(), "documented": G.realify(want, True).tolist()}
            ctx.disagree("steps.admm.lhs_op", {"recipe": recipe, "step": stepno}, fail["returned"], fail["documented"],
                         oracle=lambda c: fail)


def documented_step(b):
    """post-state prescribed by the class documentation, computed from the current (pre-)state of b.solver with the
    optimiser's own functionals / operators; returns a state dict in the model representation"""
    import jax

    s, a, cx = b.solver, b.alg, b.cplx
    F = lambda v: G.flat(v, cx)  # noqa: E731
    if a == "admm":
        x1 = documented_x_update(b)
        if x1 is None:
            x1 = s.subproblem_solver.solve(s.x)
        zs, us = [], []
        for rho, g, C, z, u in zip(s.rho_list, s.g_list, s.C_list, s.z_list, s.u_list):
            chat = s.alpha * C(x1) + (1.0 - s.alpha) * z
            z1 = g.prox(chat + u, 1.0 / rho)
            zs.append(z1)
            us.append(u + chat - z1)
        return {"x": F(x1), "z": [F(z) for z in zs], "zold": [F(z) for z in s.z_list], "u": [F(u) for u in us]}
    if a == "ladmm":
        x1 = s.f.prox(s.x - (s.mu / s.nu) * s.C.adj(s.C(s.x) - s.z + s.u), s.mu)
        z1 = s.g.prox(s.C(x1) + s.u, s.nu)
        return {"x": F(x1), "z": F(z1), "zold": F(s.z), "u": F(s.u + s.C(x1) - z1)}
    if a == "padmm":
        # the constant c and the operator B as DOCUMENTED for the constructor arguments of the recipe (c=None -> 0,
        # B=None -> -I), not the attributes the object stored
        rc = b.recipe.get("c")
        c = 0.0 if rc is None else (float(rc) if isinstance(rc, (int, float)) else G.unflat(rc, b.ushape, cx))
        Bf = (lambda v: -v) if b.recipe.get("B") is None else s.B
        Badj = (lambda v: -v) if b.recipe.get("B") is None else s.B.adj
        x1 = s.f.prox(s.x - (1.0 / s.mu) * s.A.adj(2.0 * s.u - s.u_old), 1.0 / (s.rho * s.mu))
        z1 = s.g.prox(s.z - (1.0 / s.nu) * Badj(s.A(x1) + Bf(s.z) - c + s.u), 1.0 / (s.rho * s.nu))
        return {"x": F(x1), "z": F(z1), "zold": F(s.z), "u": F(s.u + s.A(x1) + Bf(z1) - c), "uold": F(s.u)}
    if a == "nlpadmm":
        Jx = jax.jacfwd(lambda x: s.H(x, s.z))(s.x)
        x1 = s.f.prox(s.x - (1.0 / s.mu) * (Jx.T @ (2.0 * s.u - s.u_old)), 1.0 / (s.rho * s.mu))
        Jz = jax.jacfwd(lambda z: s.H(x1, z))(s.z)
        z1 = s.g.prox(s.z - (1.0 / s.nu) * (Jz.T @ (s.H(x1, s.z) + s.u)), 1.0 / (s.rho * s.nu))
        return {"x": F(x1), "z": F(z1), "zold": F(s.z), "u": F(s.u + s.H(x1, z1)), "uold": F(s.u)}
    if a == "pdhg":
        if b.recipe.get("nl") is not None:
            J = jax.jacfwd(lambda x: s.C(x), holomorphic=cx)(s.x)
            x1 = s.f.prox(s.x - s.tau * (J.conj().T @ s.z), s.tau)
        else:
            x1 = s.f.prox(s.x - s.tau * s.C.adj(s.z), s.tau)
        z1 = s.g.conj_prox(s.z + s.sigma * s.C((1.0 + s.alpha) * x1 - s.alpha * s.x), s.sigma)
        return {"x": F(x1), "xold": F(s.x), "z": F(z1), "zold": F(s.z)}
    kind = b.recipe["pol"]["kind"]
    if G.real_bb(b.recipe):
        # documented Barzilai-Borwein rule evaluated independently of the policy object (which is under test and whose
        # update() has side effects): differences to the remembered point, quotient, finiteness / positivity test, and
        # the memory refreshed with the point the hook is consulted at (x for both classes) in every call
        pl = s.step_size
        x = s.x
        gx = s.f.grad(x)
        mem = {"xp": F(x), "gp": F(gx), "l1": None, "l2": None}
        L = float(s.L)
        okv = lambda q: bool(np.isfinite(q)) and q > 0  # noqa: E731
        if pl.xprev is not None:
            dx = np.asarray(G.np_flat(x)) - np.asarray(G.np_flat(pl.xprev))
            dg = np.asarray(G.np_flat(gx)) - np.asarray(G.np_flat(pl.gradprev))
            xx, xg, gg = (float(np.real(np.sum(np.conj(p_) * q_))) for p_, q_ in ((dx, dx), (dx, dg), (dg, dg)))
            with np.errstate(all="ignore"):
                if kind == "bb":
                    q = np.float64(gg) / np.float64(xg)
                    L = float(q) if okv(q) else L
                else:
                    q1, q2 = np.float64(xg) / np.float64(xx), np.float64(gg) / np.float64(xg)
                    l1 = float(q1) if okv(q1) else pl.Lbb1prev
                    l2 = float(q2) if okv(q2) else pl.Lbb2prev
                    if l1 is not None and l2 is not None:
                        L = float(l2) if (l1 / l2) < pl.kappa else float(l1)
                    mem["l1"] = None if l1 is None else float(l1)
                    mem["l2"] = None if l2 is None else float(l2)
        elif kind == "adaptiveBB":
            mem["l1"] = None if pl.Lbb1prev is None else float(pl.Lbb1prev)
            mem["l2"] = None if pl.Lbb2prev is None else float(pl.Lbb2prev)
        if a == "pgm":
            x1 = s.g.prox(s.x - (1.0 / L) * s.f.grad(s.x), 1.0 / L)
            return {"x": F(x1), "L": L, "fpr": _norm(s.x - x1), "mem": mem}
        x1 = s.g.prox(s.v - (1.0 / L) * s.f.grad(s.v), 1.0 / L)
        t1 = 0.5 * (1.0 + np.sqrt(1.0 + 4.0 * float(s.t) ** 2))
        v1 = x1 + ((float(s.t) - 1.0) / t1) * (x1 - s.x)
        return {"x": F(x1), "v": F(v1), "t": float(t1), "L": L, "fpr": _norm(x1 - s.v), "mem": mem}
    base_real = kind == "base" and b.recipe["pol"].get("real", True)
    if a == "pgm":
        # documented: "the default PGMStepSize simply sets L = L0" - not whatever the (possibly shared) object returns
        L = float(s.L) if base_real else s.step_size.update(s.x)
        x1 = s.g.prox(s.x - (1.0 / L) * s.f.grad(s.x), 1.0 / L)
        return {"x": F(x1), "L": float(L), "fpr": _norm(s.x - x1)}
    if a == "apgm":
        L = float(s.L) if base_real else s.step_size.update(s.x if kind in ("bb", "adaptiveBB") else s.v)
        if kind == "robust":
            x1 = s.step_size.Z
            return {"x": F(x1), "v": F(s.v), "t": float(s.t), "L": float(L), "fpr": _norm(x1 - s.x)}
        x1 = s.g.prox(s.v - (1.0 / L) * s.f.grad(s.v), 1.0 / L)
        t1 = 0.5 * (1.0 + np.sqrt(1.0 + 4.0 * float(s.t) ** 2))
        v1 = x1 + ((float(s.t) - 1.0) / t1) * (x1 - s.x)
        return {"x": F(x1), "v": F(v1), "t": float(t1), "L": float(L), "fpr": _norm(x1 - s.v)}
    raise Infra("alg")


def _fld(st, fld):
    """value of a (possibly dotted: 'mem.xp') field of a state"""
    v = st
    for part in fld.split("."):
        v = None if v is None else v.get(part)
    return v


def oracle_init(case):
    """documented constructor state evaluated on the implementation: missing starts are zeros, the previous-iterate
    copies equal the current ones, z = C x0 / u = 0 for ADMM and LinearizedADMM"""
    b = G.Built(case["recipe"])
    r, s, cx, a = b.recipe, b.solver, b.cplx, b.alg
    st = b.read()
    zero = lambda sh: [0.0] * (G.size_of(sh) * (2 if cx else 1))  # noqa: E731
    want = {"x": r["x0"] if r.get("x0") is not None else zero(b.xshape)}
    if a in ("padmm", "nlpadmm"):
        z = r["z0"] if r.get("z0") is not None else zero(b.zshapes)
        u = r["u0"] if r.get("u0") is not None else zero(b.ushape)
        want.update({"z": z, "zold": z, "u": u, "uold": u})
    elif a == "pdhg":
        z = r["z0"] if r.get("z0") is not None else zero(b.zshapes)
        want.update({"xold": want["x"], "z": z, "zold": z})
    elif a == "ladmm":
        z = G.flat(s.C(G.unflat(want["x"], b.xshape, cx)), cx)
        want.update({"z": z, "zold": z, "u": zero(b.zshapes)})
    elif a == "admm":
        x0 = G.unflat(want["x"], b.xshape, cx)
        zs = [G.flat(C(x0), cx) for C in s.C_list]
        want.update({"z": zs, "zold": zs, "u": [zero(sh) for sh in b.zshapes]})
    elif a == "apgm":
        want.update({"v": want["x"], "t": 1.0, "L": float(r["L0"])})
    elif a == "pgm":
        want.update({"L": float(r["L0"])})
    fld = G.states_close(want, st, rtol=RTOL)
    if fld is None:
        return None
    return {"class": type(s).__name__, "recipe": r, "field": fld, "documented_constructor_state": _fld(want, fld),
            "constructed": _fld(st, fld)}


def oracle_step(case):
    """property itself on the implementation: does step() produce the documented post-state from case['pre']?"""
    b = G.Built(case["recipe"])
    pre = case.get("pre")
    if pre is not None:
        b.write(pre)
    for _ in range(int(case.get("skip", 0))):
        b.solver.step()
    pre_now = b.read()
    doc = documented_step(b)
    b.solver.step()
    post = b.read()
    # exact-arithmetic recipes (dyadic data, power-of-two parameters): the documented equations evaluate without rounding in any
    # order of operations, so the comparison is bit for bit there
    exact = bool(case["recipe"].get("exact"))
    # GenericSubproblemSolver minimises numerically (scipy BFGS with its default tolerances): its x-update equals the
    # documented argmin only to the inner solver's accuracy - same rule as in the correspondence tie (rt = 1e-5 there)
    generic = case["recipe"].get("alg") == "admm" and case["recipe"].get("solver") == "generic"
    fld = G.states_close(doc, post, rtol=0.0 if exact else (1e-5 if generic else RTOL), skip=("fpr",) if exact else ())
    if fld is None:
        return None
    return {"class": type(b.solver).__name__, "recipe": case["recipe"], "pre_state": pre_now, "field": fld,
            "documented": _fld(doc, fld), "step_returned": _fld(post, fld)}


# --------------------------------------------------------------------------------------------
# accessors


def _impl_acc(fn, *args):
    try:
        v = fn(*args)
        return ("ok", float(v))
    except Exception as e:  # noqa: BLE001
        return ("err", common.err_kind(e))


def _model_acc(model, alg, p, st, name, **kw):
    try:
        r = model.call("acc", alg=alg, p=p, s=st, name=name, **kw)
        return ("ok", common.b2f(r["v"]))
    except ModelErr as e:
        return ("err", e.kind)


def _acc_same(a, b):
    if a[0] != b[0]:
        return False
    if a[0] == "err":
        return a[1] == b[1]
    return common.close(a[1], b[1], 8, RTOL)


def _ladmm_doc_is_pinned():
    """does the docstring of LinearizedADMM.norm_dual_residual still print ||z - z_old|| (no operator)?"""
    from scico.optimize import LinearizedADMM

    doc = LinearizedADMM.norm_dual_residual.__doc__ or ""
    math = doc.split(".. math::")[1] if ".. math::" in doc else doc
    math = math.split("Returns")[0]
    return not any(t in math for t in ("C^T", "C^H", "C^{T}", "C^{H}", "adj"))


def documented_accessor(b, name, args):
    """documented expression of an accessor evaluated with the optimiser's own functionals (oracle)"""
    s, a = b.solver, b.alg
    if name == "objective":
        if a == "admm":
            x, zl = (s.x, s.z_list) if args[0] is None else args
            return (0.0 if s.f is None else float(s.f(x))) + sum(float(g(z)) for g, z in zip(s.g_list, zl))
        if a in ("ladmm", "padmm", "nlpadmm"):
            x, z = (s.x, s.z) if args[0] is None else args
            return float(s.f(x)) + float(s.g(z))
        if a == "pdhg":
            x = s.x if args[0] is None else args[0]
            return float(s.f(x)) + float(s.g(s.C(x)))
        x = s.x if args[0] is None else args[0]
        return float(s.f(x)) + float(s.g(x))
    if name == "primal":
        if a == "admm":
            x = s.x if args[0] is None else args[0]
            return float(np.sqrt(sum(rho * _norm(C(x) - z) ** 2 for rho, C, z in zip(s.rho_list, s.C_list, s.z_list))))
        if a == "ladmm":
            x = s.x if args[0] is None else args[0]
            return _norm(s.C(x) - s.z)
        if a == "padmm":
            x, z = (s.x, s.z) if args[0] is None else args
            rc = b.recipe.get("c")  # the documented constructor arguments, not the stored attributes
            c = 0.0 if rc is None else (float(rc) if isinstance(rc, (int, float)) else G.unflat(rc, b.ushape, b.cplx))
            Bz = -z if b.recipe.get("B") is None else s.B(z)
            return _norm(s.A(x) + Bz - c)
        if a == "nlpadmm":
            x, z = (s.x, s.z) if args[0] is None else args
            return _norm(s.H(x, z))
        if a == "pdhg":
            return _norm(s.x - s.x_old) / s.tau
    if name == "dual":
        if a == "admm":
            acc = None
            for rho, C, z, zo in zip(s.rho_list, s.C_list, s.z_list, s.z_list_old):
                t = rho * C.adj(z - zo)
                acc = t if acc is None else acc + t
            return _norm(acc)
        if a == "ladmm":
            return _norm(s.z - s.z_old) if _ladmm_doc_is_pinned() else _norm(s.C.adj(s.z - s.z_old))
        if a == "padmm":
            return _norm(s.z - s.z_old) if s.fast_dual_residual else _norm(s.A.adj(s.B(s.z - s.z_old)))
        if a == "nlpadmm":
            if s.fast_dual_residual:
                return _norm(s.z - s.z_old)
            import jax

            Jx = jax.jacfwd(lambda x: s.H(x, s.z))(s.x)
            Jz = jax.jacfwd(lambda z: s.H(s.x, z))(s.z)
            return _norm(Jx.T @ (Jz @ (s.z - s.z_old)))
        if a == "pdhg":
            return _norm(s.z - s.z_old) / s.sigma
    if name == "fquad":
        x, y, L = args
        d = np.asarray(G.np_flat(x)) - np.asarray(G.np_flat(y))
        g = np.asarray(G.np_flat(s.f.grad(y)))
        return float(s.f(y)) + float(np.sum(np.real(np.conj(g) * d))) + 0.5 * L * float(np.sum(np.abs(d) ** 2))
    raise Infra(f"documented_accessor {a} {name}")


def check_accessors(ctx, model, b, rng, recipe, stepno):
    """all accessors of b.solver at its current state, with and without supplied points"""
    s, a, cx = b.solver, b.alg, b.cplx
    st_f = b.read()
    st = G.state_json(st_f if not isinstance(st_f.get("mem"), dict) else dict(st_f, mem=[0.0]))
    xs = b.xshape
    xv = G.rand_value(rng, xs, cx)
    xa = G.unflat(xv, xs, cx)
    calls = []  # (name, real-callable, real-args, model-name, model-kwargs, documented-name, documented-args)
    if a == "admm":
        zv = [G.rand_value(rng, sh, cx) for sh in b.zshapes]
        za = [G.unflat(v, sh, cx) for v, sh in zip(zv, b.zshapes)]
        calls += [
            ("objective()", s.objective, (), "objective", {}, "objective", (None, None)),
            ("objective(x,z_list)", s.objective, (xa, za), "objective", {"x": common.fs2b(xv), "zl": [common.fs2b(v) for v in zv]}, "objective", (xa, za)),
            ("objective(x,None)", s.objective, (xa, None), "objective", {"x": common.fs2b(xv)}, None, None),
            ("objective(None,z_list)", s.objective, (None, za), "objective", {"zl": [common.fs2b(v) for v in zv]}, None, None),
            ("norm_primal_residual()", s.norm_primal_residual, (), "primal", {}, "primal", (None,)),
            ("norm_primal_residual(x)", s.norm_primal_residual, (xa,), "primal", {"x": common.fs2b(xv)}, "primal", (xa,)),
            ("norm_dual_residual()", s.norm_dual_residual, (), "dual", {}, "dual", ()),
        ]
    elif a in ("ladmm", "padmm", "nlpadmm"):
        zv = G.rand_value(rng, b.zshapes, cx)
        za = G.unflat(zv, b.zshapes, cx)
        calls += [
            ("objective()", s.objective, (), "objective", {}, "objective", (None, None)),
            ("objective(x,z)", s.objective, (xa, za), "objective", {"x": common.fs2b(xv), "z": common.fs2b(zv)}, "objective", (xa, za)),
            ("objective(x,None)", s.objective, (xa, None), "objective", {"x": common.fs2b(xv)}, None, None),
            ("objective(None,z)", s.objective, (None, za), "objective", {"z": common.fs2b(zv)}, None, None),
            ("norm_primal_residual()", s.norm_primal_residual, (), "primal", {}, "primal", (None, None)),
            ("norm_dual_residual()", s.norm_dual_residual, (), "dual", {}, "dual", ()),
        ]
        if a == "ladmm":
            calls.append(("norm_primal_residual(x)", s.norm_primal_residual, (xa,), "primal", {"x": common.fs2b(xv)}, "primal", (xa,)))
            calls[4] = ("norm_primal_residual()", s.norm_primal_residual, (), "primal", {}, "primal", (None,))
        else:
            calls += [
                ("norm_primal_residual(x,z)", s.norm_primal_residual, (xa, za), "primal", {"x": common.fs2b(xv), "z": common.fs2b(zv)}, "primal", (xa, za)),
                ("norm_primal_residual(x,None)", s.norm_primal_residual, (xa, None), "primal", {"x": common.fs2b(xv)}, None, None),
                ("norm_primal_residual(None,z)", s.norm_primal_residual, (None, za), "primal", {"z": common.fs2b(zv)}, None, None),
            ]
    elif a == "pdhg":
        calls += [
            ("objective()", s.objective, (), "objective", {}, "objective", (None,)),
            ("objective(x)", s.objective, (xa,), "objective", {"x": common.fs2b(xv)}, "objective", (xa,)),
            ("norm_primal_residual()", s.norm_primal_residual, (), "primal", {}, "primal", ()),
            ("norm_dual_residual()", s.norm_dual_residual, (), "dual", {}, "dual", ()),
        ]
    else:
        yv = G.rand_value(rng, xs, cx)
        ya = G.unflat(yv, xs, cx)
        Lq = float(G._pick(rng, [0.5, 1.0, 2.0, 3.0]))
        calls += [
            ("objective()", s.objective, (), "objective", {}, "objective", (None,)),
            ("objective(x)", s.objective, (xa,), "objective", {"x": common.fs2b(xv)}, "objective", (xa,)),
            ("norm_residual()", s.norm_residual, (), "residual", {}, None, None),
        ]
        if a == "pgm":
            calls.append(("f_quad_approx(x,y,L)", s.f_quad_approx, (xa, ya, Lq), "fquad",
                          {"xq": common.fs2b(xv), "yq": common.fs2b(yv), "Lq": common.f2b(Lq)}, "fquad", (xa, ya, Lq)))
    for label, fn, args, mname, mkw, dname, dargs in calls:
        impl = _impl_acc(fn, *args)
        pacc = b.p if not G.real_bb(recipe) else dict(b.p, pol=G.policy_model({"kind": "base", "real": True}))
        mod = _model_acc(model, a, pacc, st, mname, **mkw)
        ctx.count(f"accessor:{a}.{label}")
        if impl[0] == "err":
            ctx.count(f"accessor-error:{impl[1]}")
        if not _acc_same(impl, mod):
            case = {"recipe": recipe, "state": st_f, "accessor": label, "step": stepno,
                    "args": {k: (v if not isinstance(v, list) else "supplied") for k, v in mkw.items()}}

            def oracle(c, fn=fn, args=args, dname=dname, dargs=dargs, label=label, impl=impl):
                if dname is None:
                    return None
                want = documented_accessor(b, dname, dargs)
                if impl[0] == "ok" and common.close(impl[1], want, 8, RTOL):
                    return None
                return {"class": type(s).__name__, "accessor": label, "returned": list(impl), "documented_value": want,
                        "recipe": recipe, "state": st_f}

            known = None
            if (a == "nlpadmm" and label == "norm_dual_residual()" and impl == ("err", "type") and not recipe["fast"]):
                known = "nlpadmm-dual-residual-tuple"
            ctx.disagree(f"steps.{a}.{label}", case, list(impl), list(mod), oracle=oracle, known_id=known)
    # the documented formula of LinearizedADMM.norm_dual_residual (known finding while the docstring prints ||z - z_old||)
    if a == "ladmm" and _ladmm_doc_is_pinned():
        impl = _impl_acc(s.norm_dual_residual)
        doc = _model_acc(model, a, b.p, st, "dual_doc_pinned")
        ctx.count("accessor:ladmm.norm_dual_residual-vs-docstring")
        if not _acc_same(impl, doc):
            ctx.disagree("steps.ladmm.norm_dual_residual.docstring", {"recipe": recipe, "state": st_f}, list(impl), list(doc),
                         known_id="ladmm-dual-residual-doc")
    # minimizer()
    if not common.allclose(G.flat(s.minimizer(), cx), st_f["x"], rtol=0.0):
        ctx.disagree(f"steps.{a}.minimizer", {"recipe": recipe, "state": st_f}, G.flat(s.minimizer(), cx), st_f["x"])


# --------------------------------------------------------------------------------------------
# one problem instance


def _skip_fields(recipe):
    if recipe["alg"] in ("pgm", "apgm") and recipe["pol"].get("real", True) and not G.real_bb(recipe):
        return ("mem",)
    return ()


def _bb_ill_conditioned(b):
    """is the Barzilai-Borwein quotient of the NEXT step dominated by rounding?  (cancellation in dg = grad(x) - gradprev and
    in <dx, dg>: relative error of the quotient above 1e-10)"""
    pl, s = b.policy, b.solver
    if pl.xprev is None:
        return False
    x, xp, gp = (np.asarray(G.np_flat(v)) for v in (s.x, pl.xprev, pl.gradprev))
    gx = np.asarray(G.np_flat(s.f.grad(s.x)))
    dx, dg = x - xp, gx - gp
    # rounding of the iterates themselves (|x| eps) propagates into dx and, through the gradient (Lipschitz constant ~ L),
    # into dg; the gradient evaluation adds its own cancellation error
    err_dx = 4e-16 * (float(np.linalg.norm(x)) + float(np.linalg.norm(xp)))
    lref = max(abs(float(s.L)), abs(float(b.recipe["L0"])))
    err_dg = 4e-16 * (float(np.linalg.norm(gx)) + float(np.linalg.norm(gp)) + 1e-300) + 4.0 * lref * err_dx
    ndg, ndx = float(np.linalg.norm(dg)), float(np.linalg.norm(dx))
    xg = abs(float(np.real(np.sum(np.conj(dx) * dg))))
    if ndg == 0.0 and ndx == 0.0:
        return False  # exact tie: 0/0 on both sides
    return err_dx > 1e-10 * ndx or err_dg > 1e-10 * ndg or (ndx * err_dg + ndg * err_dx) > 1e-10 * xg


def run_case(ctx, model, recipe, k, rng, accessors=True, tag="gen"):
    """`_run_case`, with an exception raised INSIDE the library for this recipe (constructor, step(), accessor of a conforming or
    edge instance the model accepts) reported as a failing input instead of ending the run as an infrastructure error"""
    try:
        return _run_case(ctx, model, recipe, k, rng, accessors, tag)
    except (Infra, ModelErr):
        raise
    except Exception as e:  # noqa: BLE001
        if not G.raised_in_library(e):
            raise
        fail = {"class": recipe["alg"], "recipe": recipe, "steps": k, "raised": f"{type(e).__name__}: {e}"[:400]}
        ctx.disagree(f"steps.{recipe['alg']}.raises", {"recipe": recipe, "k": k}, fail["raised"], "evaluates", oracle=lambda c: fail)
        return False


def _run_case(ctx, model, recipe, k, rng, accessors=True, tag="gen"):
    a = recipe["alg"]
    try:
        b = G.Built(recipe)
    except Infra:
        raise
    except Exception as e:  # noqa: BLE001
        raise Infra(f"could not build {G.describe(recipe)}: {e!r}") from e
    key = G.describe(recipe)
    skip = _skip_fields(recipe)
    # GenericSubproblemSolver minimises the x-sub-problem numerically (inexact by design): the documented argmin is
    # compared at 1e-5, and only step by step from the real pre-state
    generic = a == "admm" and recipe.get("solver") == "generic"
    rt = 1e-5 if generic else RTOL
    exact = bool(recipe.get("exact"))
    if exact:
        rt = 0.0  # exact-arithmetic stream: bit-for-bit
        xs_ = recipe["xshape"]
        ctx.count(f"exact-stream:{a}:" + ("block" if G.is_block(xs_) else f"{len(xs_)}d")
                  + (":" + recipe["solver"] + ("+loss" if recipe.get("f") else "") if a == "admm" else ""))
    # constructor state against the model's init
    init = b.read()
    kw = {}
    for nm in ("x0", "z0", "u0"):
        if recipe.get(nm) is not None:
            kw[nm] = common.fs2b(recipe[nm])
    if a in ("pgm", "apgm"):
        kw["L0"] = common.f2b(recipe["L0"])
    minit = G.state_from_wire(model.call("init", alg=("padmm" if a == "nlpadmm" else a), p=b.p, **kw))
    fld = G.states_close(init, minit, rtol=RTOL, skip=skip + ("mem",))
    ctx.count(f"init:{a}:" + ("x0-given" if recipe.get("x0") is not None else "x0-default"))
    if fld is not None:
        ctx.disagree(f"steps.{a}.init", {"recipe": recipe}, {fld: init[fld]}, {fld: minit.get(fld)}, oracle=oracle_init)
    if accessors:
        check_accessors(ctx, model, b, rng, recipe, 0)
    # k steps: state after each step
    pre = init
    if G.real_bb(recipe):
        k = max(k, 4)  # a rejected BB value shows in the memory one step later and in L two steps later
    trace = model.call("step", alg=b.model_alg, p=b.p, s=G.state_json(pre), k=k, mode="impl")
    moved = False
    drifted = False
    for i in range(k):
        bb_noise = G.real_bb(recipe) and _bb_ill_conditioned(b)
        if a == "admm" and recipe.get("solver") in LINEAR_FAMILY and len(recipe["C"]) > 0 and (i == 0 or i == k - 1):
            check_normal_equation(ctx, b, recipe, rng, i)
        b.solver.step()
        post = b.read()
        if i == 0 and not common.allclose(post["x"], pre["x"], rtol=1e-12):
            moved = True
        if G.state_scale(post) > 1e6 or not np.isfinite(G.state_scale(post)):
            # a diverging iteration (edge / non-convex stream): rounding differences are amplified without bound
            ctx.count("discarded:diverged-trajectory")
            break
        if bb_noise:
            # the BB differences of this step are rounding noise (converged trajectory, or dx orthogonal to the range of the
            # Hessian): their quotient is numerically undefined (decision margin below tolerance, DESIGN 6.6) - thorough
            # seed 0: |dg| ~ 1e-15, L 18.78 vs 20.81 although every operation agrees to the last bit but one
            ctx.count("discarded:bb-quotient-at-rounding-level")
            break
        m_iter = G.state_from_wire(trace[i])
        fld_iter = None if (drifted or (generic and i > 0)) else G.states_close(post, m_iter, rtol=rt if (generic or exact) else RTOL * 10,
                                                                                 skip=skip + (("fpr",) if exact else ()))
        fld = fld_iter
        if i > 0:
            # sharp single-step comparison from the real pre-state: this IS the property (one call of step() on a
            # reachable state).  The iterated model trajectory is only a drift indicator: on expanding trajectories
            # (feedback step-size hooks, edge parameters) rounding differences are amplified step by step, so a
            # deviation of the iterated trace alone (seed 5 thorough: 1e-6 relative after 30 steps while every single
            # step agreed to 1e-15) is counted, not reported.
            m_one = G.state_from_wire(model.call("step", alg=b.model_alg, p=b.p, s=G.state_json(pre), k=1, mode="impl")[0])
            fld = G.states_close(post, m_one, rtol=rt, skip=skip + (("fpr",) if exact else ()))
            m_iter = m_one
            if fld is None and fld_iter is not None:
                ctx.count("discarded:iterated-trace-drift(single-step agrees)")
                drifted = True  # from here on only the single-step comparison is meaningful
        if fld is not None:
            case = {"recipe": recipe, "pre": pre if i > 0 else None, "k": 1, "step": i}
            ctx.disagree(f"steps.{a}.step", case, {fld: _fld(post, fld)}, {fld: _fld(m_iter, fld)}, oracle=oracle_step,
                         note=f"field {fld} after step {i + 1}")
            break
        if accessors and (i == k - 1 or i == 0):
            check_accessors(ctx, model, b, rng, recipe, i + 1)
        if G.real_bb(recipe) and isinstance(pre.get("mem"), dict) and pre["mem"]["xp"] is not None:
            ctx.count("bb-real.step:" + ("value-rejected(L kept)" if post["L"] == pre["L"] else "value-accepted"))
        pre = post
    ctx.case({"config": key, "k": k, "stream": tag}, (key, k) if moved else None, sample_every=40)
    ctx.count(f"alg:{a}")
    ctx.count("dtype:" + ("complex128" if recipe.get("cplx") else "float64"))
    ctx.count("shape:" + ("block" if G.is_block(recipe["xshape"]) else f"{len(recipe['xshape'])}d"))
    ctx.count(f"steps:{k}")
    ctx.count(f"stream:{tag}")
    if a == "admm":
        ctx.count("admm.alpha:" + ("==1" if recipe["alpha"] == 1.0 else "!=1"))
        ctx.count(f"admm.solver:{recipe['solver']}")
        if recipe["solver"] == "matrix":
            kinds = {("matrix" if c["t"] == "mat" else "diagonal") for c in recipe["C"]}
            ctx.count("admm.matrix-solver-C_list:" + ("mixed" if len(kinds) > 1 else kinds.pop()))
        ctx.count(f"admm.N:{len(recipe['C'])}")
        ctx.count("admm.f:" + ("none" if recipe["f"] is None else "loss"))
    if recipe.get("reuse") is not None:
        ctx.count("history:helper-object-reused(" + ("sub-problem solver" if a == "admm" else "step-size object") + ")")
    if a in ("pgm", "apgm") and recipe.get("decoy_L0") is not None:
        ctx.count("history:second-solver-with-default-step-size-alive")
    if a in ("pgm", "apgm"):
        ctx.count(f"{a}.policy:{recipe['pol']['kind']}" + ("-real" if G.real_bb(recipe) else ("" if recipe["pol"].get("real", True) else "-spy")))
        if G.real_bb(recipe):
            ctx.count("bb-real.f:" + ("double-well(non-convex)" if recipe["f"]["k"] == "dwell" else "convex-loss"))
    if a == "pdhg":
        ctx.count("pdhg.C:" + ("nonlinear" if recipe.get("nl") is not None else "linear"))
        ctx.count(f"pdhg.alpha:{recipe['alpha']:g}")
    if a == "padmm":
        ctx.count("padmm.B:" + ("default" if recipe["B"] is None else "given"))
        ctx.count("padmm.c:" + ("default" if recipe["c"] is None else ("scalar" if isinstance(recipe["c"], float) else "array")))
    return moved


def generate(ctx):
    """translator (harness/steps_translate.py): tables read with `ast` from the working tree, one generated module whose
    `decide` obligations compare them with Model/StepsSource.lean"""
    steps_translate.generate()
    return [("Scico.Generated.StepsTables",
             "constructor parameters with defaults of ADMM / LinearizedADMM / ProximalADMM(Base) / NonLinearPADMM / PDHG / PGM / AcceleratedPGM, "
             "normalised statement lists of every transcribed method (step, __init__, accessors, residuals, z_init / u_init, "
             "_working_vars_finite, _itstat_extra_fields, Functional.conj_prox, LinearSubproblemSolver.compute_rhs / solve), order of the "
             "self-attribute assignments of step() / __init__, the parameter constraints printed in the class docstrings, and the "
             "sub-problem solver classes (base, reduction over C_list, defaults) equal the tables the model transcribes "
             "(Model/StepsSource.lean)")]


def corpus_cases():
    d = common.CORPUS_DIR / PROP
    out = []
    if d.exists():
        for f in sorted(d.glob("*.json")):
            out.append((f.name, json.loads(f.read_text())))
    return out


def check_constructors(ctx, model):
    """argument checks of the constructors (ValueError cases) against `admmInitChecked` / `pgmInitChecked`:
    exhaustive over list lengths 1..3 for ADMM, both values of has_prox for PGM / AcceleratedPGM"""
    import scico.numpy as snp
    from scico import functional, linop, loss
    from scico.optimize import ADMM, PGM, AcceleratedPGM
    from scico.optimize.admm import LinearSubproblemSolver

    n = 3
    x0 = snp.ones((n,), dtype=np.float64)
    f = loss.SquaredL2Loss(y=snp.ones((n,), dtype=np.float64))
    for ng in (1, 2, 3):
        for nc in (1, 2, 3):
            for nrho in (1, 2, 3):
                try:
                    a = ADMM(f=f, g_list=[functional.L1Norm() for _ in range(ng)],
                             C_list=[linop.Identity((n,), input_dtype=np.float64) for _ in range(nc)],
                             rho_list=[1.0] * nrho, x0=x0, subproblem_solver=LinearSubproblemSolver(), maxiter=1)
                    impl = ("ok", [len(a.z_list), len(a.u_list), len(a.z_list_old)])
                except Exception as e:  # noqa: BLE001
                    impl = ("err", common.err_kind(e))
                try:
                    r = model.call("init_checked", alg="admm", ng=ng, nc=nc, nrho=nrho, n=n)
                    mod = ("ok", [r["nz"], r["nu"], r["nzold"]])
                except ModelErr as e:
                    mod = ("err", e.kind)
                ctx.count("constructor:admm:" + ("accepted" if impl[0] == "ok" else "rejected-" + str(impl[1])))
                ctx.case({"config": f"ADMM.__init__ len(g,C,rho)=({ng},{nc},{nrho})"}, ("admm-init", ng, nc, nrho), sample_every=27)
                if impl != mod:
                    ctx.disagree("steps.admm.init_checked", {"ng": ng, "nc": nc, "nrho": nrho}, list(impl), list(mod))

    # the empty constraint list N = 0 with every kind of sub-problem solver, with and without x0
    from scico.optimize.admm import CircularConvolveSolver, GenericSubproblemSolver, MatrixSubproblemSolver

    for sname, mk, reduces in (("generic", GenericSubproblemSolver, False), ("linear", LinearSubproblemSolver, True),
                               ("matrix", MatrixSubproblemSolver, True), ("circ", CircularConvolveSolver, True)):
        for x0none in (False, True):
            try:
                a = ADMM(f=f, g_list=[], C_list=[], rho_list=[], x0=None if x0none else x0, subproblem_solver=mk(), maxiter=1)
                impl = ("ok", [len(a.z_list), len(a.u_list), len(a.z_list_old)])
            except Exception as e:  # noqa: BLE001
                impl = ("err", common.err_kind(e))
            try:
                r = model.call("init_checked", alg="admm", ng=0, nc=0, nrho=0, n=n, reduces=reduces, x0none=x0none)
                mod = ("ok", [r["nz"], r["nu"], r["nzold"]])
            except ModelErr as e:
                mod = ("err", e.kind)
            ctx.count("constructor:admm-N0:" + sname + ":" + ("accepted" if impl[0] == "ok" else "rejected-" + str(impl[1])))
            ctx.case({"config": f"ADMM.__init__ N=0 solver={sname} x0={'None' if x0none else 'given'}"},
                     ("admm-init-N0", sname, x0none), sample_every=8)
            if impl != mod:
                ctx.disagree("steps.admm.init_full", {"N": 0, "solver": sname, "x0none": x0none}, list(impl), list(mod))

    class NoProx(functional.Functional):
        has_eval = True
        has_prox = False

        def __call__(self, x):
            return 0.0

    for cls, alg in ((PGM, "pgm"), (AcceleratedPGM, "apgm")):
        for hp in (True, False):
            g = functional.L1Norm() if hp else NoProx()
            try:
                o = cls(f=f, g=g, L0=2.0, x0=x0, maxiter=1)
                impl = ("ok", [float(o.L), float(np.asarray(o.x)[0])])
            except Exception as e:  # noqa: BLE001
                impl = ("err", common.err_kind(e))
            try:
                r = model.call("init_checked", alg=alg, has_prox=hp, L0=common.f2b(2.0), x0=common.fs2b([1.0] * n))
                mod = ("ok", [common.b2f(r["L"]), common.b2fs(r["x"])[0]])
            except ModelErr as e:
                mod = ("err", e.kind)
            ctx.count(f"constructor:{alg}:" + ("accepted" if impl[0] == "ok" else "rejected-" + str(impl[1])))
            ctx.case({"config": f"{cls.__name__}.__init__ has_prox={hp}"}, (alg + "-init", hp), sample_every=2)
            if impl != mod:
                ctx.disagree(f"steps.{alg}.init_checked", {"has_prox": hp}, list(impl), list(mod))


F32_RTOL = 5e-4  # float32 unit round-off 6e-8, amplified by the x-solves / operator norms of the generated instances


def default_precision(ctx, model):
    """the library's DEFAULT mode (no jax_enable_x64: float32 / complex64, Python scalars weakly typed): a worker subprocess
    builds valid recipes of all classes (real / complex, 1-d / 2-d / block variables, every sub-problem solver kind, starts partly
    omitted), performs one step() and calls the residual accessors / objective.  Required: nothing raises, every public state
    array is 32-bit of the right kind before and after the step, and the post-state / accessors equal the model's (binary64)
    documented step from the same constructor state at float32 tolerance.  A value disagreement goes through the property oracle
    (documented equations evaluated in binary64 on the optimiser's own objects) before it is reported."""
    rng = np.random.Generator(np.random.PCG64(ctx.seed + 3203))
    per = 4 if ctx.thorough else 2
    recipes = []
    for alg in G.ALGS:
        for j in range(per):
            r = G.gen_recipe(rng, alg, edge=False)
            if j % 2 == 1:
                # arguments omitted: the constructors' own default starts (dtype taken from the operators), complex data preferred
                for _ in range(8):
                    if r.get("cplx") or alg in ("nlpadmm",):
                        break
                    r = G.gen_recipe(rng, alg, edge=False)
                for k0 in ("x0", "z0", "u0"):
                    if k0 in r and alg not in ("pgm", "apgm"):
                        r[k0] = None
            recipes.append(r)
    for kind in ("matrix", "circ", "linear", "generic", "fblock", "g0block"):
        for _ in range(200):
            r = G.gen_recipe(rng, "admm", edge=False)
            if r.get("solver") == kind:
                recipes.append(r)
                break
    res = G.run_f32_worker([{"recipe": r, "pre": None} for r in recipes])
    for recipe, rec in zip(recipes, res):
        a = recipe["alg"]
        key = G.describe(recipe)
        ctx.case({"default_precision": key}, ("f32", key, json.dumps(recipe, sort_keys=True)[:200]), sample_every=6)
        ctx.count(f"default-precision:{a}" + (":complex64" if recipe.get("cplx") else ":float32")
                  + (":block" if G.is_block(recipe["xshape"]) else ""))
        mode = "float32 / complex64 (jax_enable_x64 off)"
        if rec.get("raised") or rec.get("bad_dtypes"):
            fail = {"class": a, "recipe": recipe, "mode": mode, "raised": rec.get("raised"), "state_dtypes_not_32bit": rec.get("bad_dtypes"),
                    "dtypes": rec.get("dtypes")}
            known = None
            if a == "nlpadmm" and not recipe["fast"] and str(rec.get("raised", "")).startswith("dual: TypeError"):
                known = "nlpadmm-dual-residual-tuple"
            ctx.disagree(f"steps.{a}.default_precision", {"recipe": recipe, "mode": mode}, {k: fail[k] for k in ("raised", "state_dtypes_not_32bit")},
                         "step() and accessors evaluate; state stays 32-bit", oracle=lambda c, fail=fail: fail, known_id=known)
            continue
        nonbase = a in ("pgm", "apgm") and recipe["pol"]["kind"] != "base"
        if nonbase or (a == "admm" and recipe.get("solver") == "generic"):
            # adaptive step-size decisions / numerical minimisation at float32: only "evaluates, stays 32-bit" (decision margins)
            ctx.count("default-precision:values-not-compared(" + ("step-size policy" if nonbase else "generic solver") + ")")
            continue
        b = G.Built(recipe)
        init = b.read()
        skip = _skip_fields(recipe)
        fld = G.states_close(init, rec["init"], rtol=F32_RTOL, skip=skip)
        post_m = None
        if fld is None:
            post_m = G.state_from_wire(model.call("step", alg=b.model_alg, p=b.p, s=G.state_json(init), k=1, mode="impl")[0])
            fld = G.states_close(post_m, rec["post"], rtol=F32_RTOL, skip=skip)
            where = "after step()"
        else:
            where = "constructor state"
        if fld is not None:
            def oracle(c, b=b, rec=rec, recipe=recipe, where=where):
                doc = b.read() if where == "constructor state" else documented_step(b)
                got = rec["init"] if where == "constructor state" else rec["post"]
                f2 = G.states_close(doc, got, rtol=F32_RTOL, skip=_skip_fields(recipe))
                if f2 is None:
                    return None
                return {"class": type(b.solver).__name__, "recipe": recipe, "mode": "float32 / complex64 (jax_enable_x64 off)", "where": where,
                        "field": f2, "documented_binary64": _fld(doc, f2), "returned_float32": _fld(got, f2)}

            ctx.disagree(f"steps.{a}.default_precision.step", {"recipe": recipe, "mode": mode, "where": where},
                         {fld: _fld(rec["init"] if post_m is None else rec["post"], fld)}, {fld: _fld(init if post_m is None else post_m, fld)}, oracle=oracle)
            continue
        # residual accessors / objective at the model's post-state
        S = G.state_scale(post_m)
        st = G.state_json(post_m if not isinstance(post_m.get("mem"), dict) else dict(post_m, mem=[0.0]))
        for name, got in rec["acc"].items():
            if name == "residual":
                want = ("ok", float(post_m["fpr"]))
            else:
                want = _model_acc(model, a, b.p, st, name)
            if want[0] != "ok":
                continue
            tol = 1e-3 * (1.0 + abs(want[1]) + 10.0 * S * (S if name == "objective" else 1.0))
            ctx.count(f"default-precision-accessor:{a}.{name}")
            if not (np.isfinite(got) and abs(got - want[1]) <= tol) and np.isfinite(want[1]):
                fail = {"class": a, "accessor": name, "recipe": recipe, "mode": mode, "returned_float32": got, "model_binary64": want[1], "tolerance": tol}
                ctx.disagree(f"steps.{a}.default_precision.{name}", {"recipe": recipe, "mode": mode}, got, want[1], oracle=lambda c, fail=fail: fail)


def correspond(ctx, model):
    common.setup_scico()
    rng = ctx.rng
    check_constructors(ctx, model)
    default_precision(ctx, model)
    for name, c in corpus_cases():
        run_case(ctx, model, c["recipe"], int(c.get("k", 3)), rng, tag="corpus")
        ctx.count(f"corpus:{name}")
    n = ctx.n(30, 130)
    kmax = ctx.n(5, 50)
    import gc

    import jax

    for it in range(n):
        if it % 10 == 9:
            jax.clear_caches()  # release the per-instance jitted closures (see c03.py)
            gc.collect()
        for alg in G.ALGS:
            edge = it % 5 == 4
            recipe = G.gen_recipe(rng, alg, edge=edge)
            if ctx.thorough:
                k = int(G._pick(rng, [1, 2, 3, 5, 8, 13, 50 if it % 10 == 0 else 5, 21 if it % 4 == 0 else 3]))
            else:
                k = int(rng.integers(1, kmax + 1))
            run_case(ctx, model, recipe, min(k, kmax), rng, accessors=True, tag="edge" if edge else "valid")
    # exact-arithmetic stream (bit-for-bit comparison, no tolerance)
    for it in range(ctx.n(5, 40)):
        for alg in G.EXACT_ALGS:
            run_case(ctx, model, G.gen_exact(rng, alg), 3, rng, accessors=False, tag="exact")


def findings(ctx, model):
    """known finding: the docstring of LinearizedADMM.norm_dual_residual prints ||z - z_old|| while the
    method returns ||C^H (z - z_old)||"""
    common.setup_scico()
    if ctx.is_known("nlpadmm-dual-residual-tuple"):
        c = json.loads((common.CORPUS_DIR / PROP / "nlpadmm_dual_tuple.json").read_text())
        b = G.Built(c["recipe"])
        b.solver.step()
        r = _impl_acc(b.solver.norm_dual_residual)
        ctx.known_finding("nlpadmm-dual-residual-tuple", r == ("err", "type"), f"norm_dual_residual() -> {r}")
    if not ctx.is_known("ladmm-dual-residual-doc"):
        return
    f = common.CORPUS_DIR / PROP / "ladmm_dual_doc.json"
    c = json.loads(f.read_text())
    b = G.Built(c["recipe"])
    for _ in range(2):
        b.solver.step()
    got = float(b.solver.norm_dual_residual())
    printed = _norm(b.solver.z - b.solver.z_old)
    still = _ladmm_doc_is_pinned() and not common.close(got, printed, 8, RTOL)
    ctx.known_finding("ladmm-dual-residual-doc", still, f"returned {got:.6g}, docstring formula {printed:.6g}")


def oracle_defaults(rng):
    """constructor defaults (pinned in Model/StepsSource.lean: alpha = 1.0, B = None, c = None, x0 / z0 / u0 = None,
    fast_dual_residual = True): an optimiser built with the optional parameters OMITTED must run exactly like one built with
    these values passed explicitly.  Implementation only; returns a failing-input dict or None."""
    from scico.optimize import ADMM, PDHG, LinearizedADMM, ProximalADMM
    from scico.optimize.admm import LinearSubproblemSolver

    for alg in ("admm", "pdhg", "padmm", "ladmm"):
        r = G.gen_exact(rng, alg)
        r.pop("exact", None)
        for k in ("x0", "z0", "u0"):
            if k in r:
                r[k] = None
        if alg in ("admm", "pdhg"):
            r["alpha"] = 1.0
        if alg == "admm":
            r["solver"] = "linear"
        if alg == "padmm":
            r["B"], r["c"], r["fast"] = None, None, True
            r.pop("zshape", None)
        b = G.Built(r)
        s = b.solver
        if alg == "admm":
            o = ADMM(f=s.f, g_list=s.g_list, C_list=s.C_list, rho_list=s.rho_list,
                     subproblem_solver=LinearSubproblemSolver(cg_kwargs={"tol": 1e-15, "maxiter": 400}), maxiter=1)
            explicit = {"alpha": 1.0, "x0": None}
        elif alg == "pdhg":
            o = PDHG(f=s.f, g=s.g, C=s.C, tau=s.tau, sigma=s.sigma, maxiter=1)
            explicit = {"alpha": 1.0, "x0": None, "z0": None}
        elif alg == "padmm":
            o = ProximalADMM(f=s.f, g=s.g, A=s.A, rho=s.rho, mu=s.mu, nu=s.nu, maxiter=1)
            explicit = {"B": None, "c": None, "x0": None, "z0": None, "u0": None, "fast_dual_residual": True}
        else:
            o = LinearizedADMM(f=s.f, g=s.g, C=s.C, mu=s.mu, nu=s.nu, maxiter=1)
            explicit = {"x0": None}
        # a non-trivial start (the zero start is a fixed point of many instances): same dyadic state written into both
        st = b.read()
        for fld in ("x",):
            v = np.asarray(st[fld], dtype=np.float64)
            st[fld] = (v + (rng.integers(-8, 9, size=v.shape) / 4.0)).tolist()
        b.write(st)
        bo = G.Built.__new__(G.Built)
        bo.__dict__.update(b.__dict__)
        bo.solver = o
        bo.write(st)
        for k in range(3):
            s.step()
            o.step()
            a, c = b.read(), bo.read()
            fld = G.states_close(a, c, rtol=0.0)
            dr = (float(s.norm_dual_residual()), float(o.norm_dual_residual()))
            if fld is None and dr[0] != dr[1] and not (np.isnan(dr[0]) and np.isnan(dr[1])):
                fld = "norm_dual_residual()"
            if fld is not None:
                return {"class": type(s).__name__, "recipe": r, "optional_parameters_omitted": sorted(explicit),
                        "pinned_defaults_passed_explicitly": {k_: repr(v_) for k_, v_ in explicit.items()}, "step": k + 1, "field": fld,
                        "with_explicit_defaults": a.get(fld, dr[0]), "with_parameters_omitted": c.get(fld, dr[1])}
    return None


class _Probe:
    """stands in for the run context while a targeted panel runs: disagreements are not recorded as violations, their
    implementation-only oracles are evaluated and the first failing input is kept"""

    def __init__(self, ctx):
        self._c = ctx
        self.failing = None
        self.unexplained = 0

    def __getattr__(self, k):
        return getattr(self._c, k)

    def case(self, *a, **k):
        pass

    def disagree(self, op, case, impl, model, oracle=None, known_id=None, note=""):
        if known_id is not None and self._c.is_known(known_id):
            return
        r = None
        if oracle is not None:
            try:
                r = oracle(case)
            except Exception:  # noqa: BLE001
                r = None
        if r is not None:
            if self.failing is None:
                self.failing = dict(r, op=op)
        else:
            self.unexplained += 1


ROW_ALGS = {"ADMM": ["admm"], "LinearizedADMM": ["ladmm"], "ProximalADMMBase": ["padmm", "nlpadmm"], "ProximalADMM": ["padmm"],
            "NonLinearPADMM": ["nlpadmm"], "PDHG": ["pdhg"], "PGM": ["pgm", "apgm"], "AcceleratedPGM": ["apgm"],
            "Functional": ["pdhg"]}
ROW_SOLVERS = {"SubproblemSolver": None, "GenericSubproblemSolver": ["generic"], "LinearSubproblemSolver": ["linear", "linear-jax", "matrix", "circ", "fblock"],
               "MatrixSubproblemSolver": ["matrix"], "CircularConvolveSolver": ["circ"], "FBlockCircularConvolveSolver": ["fblock"],
               "G0BlockCircularConvolveSolver": ["g0block"]}


def panel_targets(rows):
    """differing table rows -> [(alg, solver kinds or None)] : the optimiser classes (and ADMM sub-problem solvers) whose
    transcription differs from the working tree"""
    out = []
    for r in rows:
        cls = r.split(":", 1)[1].split(".")[0] if ":" in r else r
        if cls in ROW_SOLVERS:
            t = ("admm", tuple(ROW_SOLVERS[cls]) if ROW_SOLVERS[cls] else None)
            if t not in out:
                out.append(t)
        for a in ROW_ALGS.get(cls, []):
            if (a, None) not in out:
                out.append((a, None))
    return out


def targeted_panel(ctx, model, rows, rng):
    """exercise exactly the functions whose pinned statement list / defaults differ: for every affected class a panel of fresh
    instances (valid and edge parameters, exact-arithmetic instances, every accessor with and without arguments, constructor
    state, k steps) is run against the model; each disagreement is handed to the implementation-only oracles (documented
    equations evaluated on the optimiser's own objects).  Returns the first failing input, or None"""
    probe = _Probe(ctx)
    for alg, kinds in panel_targets(rows):
        made = 0
        for it in range(600):
            if made >= 24 or probe.failing is not None:
                break
            recipe = G.gen_recipe(rng, alg, edge=(it % 4 == 3))
            if kinds is not None and recipe.get("solver") not in kinds:
                continue
            made += 1
            run_case(probe, model, recipe, int(rng.integers(2, 5)), rng, accessors=True, tag="panel")
            ctx.count(f"targeted-panel:{alg}" + ("" if kinds is None else ":" + "+".join(kinds)))
        if alg in G.EXACT_ALGS and probe.failing is None:
            for it in range(12):
                run_case(probe, model, G.gen_exact(rng, alg), 3, rng, accessors=False, tag="panel-exact")
                ctx.count(f"targeted-panel-exact:{alg}")
                if probe.failing is not None:
                    break
        if probe.failing is not None:
            break
    if probe.failing is not None:
        probe.failing["stale_table_rows"] = list(rows)[:12]
    elif probe.unexplained:
        ctx.count("targeted-panel:model-differs-without-oracle-failure", probe.unexplained)
    return probe.failing


def search(ctx, model, why):
    """oracle search on the implementation alone: documented equations vs step() on fresh random instances"""
    common.setup_scico()
    rng = np.random.Generator(np.random.PCG64(ctx.seed + 7919))
    if why is not None:
        rows = steps_translate.diff_rows()
        ctx.obligation_notes.append("stale table rows: " + ", ".join(rows[:20]))
        if any(r.startswith(("ctors:", "solvers:")) for r in rows):
            for it in range(ctx.n(8, 20)):
                r = oracle_defaults(rng)
                ctx.count("oracle-search-defaults")
                if r is not None:
                    r["stale_table_rows"] = rows[:12]
                    return r
        r = targeted_panel(ctx, model, rows, rng)
        if r is not None:
            return r
    for it in range(0 if why is not None else ctx.n(0, 10)):
        r = oracle_defaults(rng)
        ctx.count("oracle-search-defaults")
        if r is not None:
            return r
    n = ctx.n(5, 60)
    for it in range(n):
        for alg in G.ALGS:
            recipe = G.gen_recipe(rng, alg, edge=(it % 4 == 3))
            r = oracle_step({"recipe": recipe, "pre": None, "skip": int(rng.integers(0, 4))})
            ctx.count("oracle-search-cases")
            if r is not None:
                return r
    return None


def replay(ctx, model, case):
    common.setup_scico()
    c = case.get("case", case)
    if "recipe" not in c:
        raise Infra("replay file has no recipe")
    if "accessor" in c:
        b = G.Built(c["recipe"])
        b.write(c["state"])
        print("replay accessor", c["accessor"], "state restored; rerun the check for the comparison")
        return
    r = oracle_step(c)
    print("replay:", "property FAILS on implementation:" if r else "no failure at this input",
          None if r is None else {k: r[k] for k in ("class", "field", "documented", "step_returned")})
    if r:
        ctx.violation({"kind": "failing-input", "case": c, "failing": r}, True, "replay")
