"""Generators, builders and independent numpy formulas shared by the C08 / C09 adapters (engine ProxCalc).

A *tree case* is a JSON-able dict
    {"cplx": bool, "leaves": [...], "ops": [[rows]...], "t": <tree>, "shape": <shape>}
whose "t" is exactly what the Lean driver `Drv/ProxCalc.lean` parses (`getFn?`).  `build()` constructs
the real scico object from the same description with scico's own constructors and operators
(`c * f`, `f * c`, `f + g`, `SeparableFunctional`, `Loss`, `SquaredL2Loss`, `loss / c`), `np_eval()` is
an independent numpy evaluation of the denoted functional (the documented formulas).
Values are dyadic so that exact cases are exact on both sides.  Floats in descriptions are bit patterns.
"""

from __future__ import annotations

import numpy as np

import common
from common import b2f, b2fs, f2b, fs2b

# --------------------------------------------------------------------------
# precision of the objects that `build` constructs: float64 / complex128 (x64, every check) or the library's DEFAULT
# float32 / complex64 (the default-precision worker sets SINGLE = True in a process started without jax_enable_x64)

SINGLE = False


def rdt():
    return np.float32 if SINGLE else np.float64


def cdt():
    return np.complex64 if SINGLE else np.complex128


# --------------------------------------------------------------------------
# data helpers


def il(z, cplx):
    """array -> flat float array (interleaved re/im when complex), row-major"""
    z = np.asarray(z)
    if cplx:
        z = z.astype(np.complex128).ravel()
        return np.stack([z.real, z.imag], axis=-1).ravel()
    return z.astype(np.float64).ravel()


def unil(flat, cplx, shape=None):
    a = np.asarray(flat, dtype=np.float64)
    if cplx:
        a = a.reshape(-1, 2)
        a = a[:, 0] + 1j * a[:, 1]
    return a if shape is None else a.reshape(shape)


def is_block(x):
    return type(x).__name__ == "BlockArray"


def arg_json(x, cplx):
    """real/complex array or BlockArray -> driver argument"""
    if is_block(x):
        return {"b": [fs2b(il(np.asarray(b), cplx)) for b in x]}
    return {"a": fs2b(il(np.asarray(x), cplx))}


def arg_flat(x, cplx):
    if is_block(x):
        return np.concatenate([il(np.asarray(b), cplx) for b in x])
    return il(np.asarray(x), cplx)


def arg_json_flat(j):
    if "a" in j:
        return np.asarray(b2fs(j["a"]), dtype=np.float64)
    return np.concatenate([np.asarray(b2fs(b), dtype=np.float64) for b in j["b"]]) if j["b"] else np.zeros(0)


def arg_to_scico(j, shape, cplx):
    """driver argument + shape (tuple | list of tuples) -> scico array / BlockArray"""
    import scico.numpy as snp

    dt_ = cdt() if cplx else rdt()
    if "a" in j:
        return snp.array(unil(b2fs(j["a"]), cplx, tuple(shape)).astype(dt_))
    return snp.blockarray([snp.array(unil(b2fs(b), cplx, tuple(s)).astype(dt_)) for b, s in zip(j["b"], shape)])


def dy(rng, shape, cplx, bits=3, scale=3.0):
    a = common.dyadic(rng, shape, bits=bits, scale=scale)
    if cplx:
        a = a + 1j * common.dyadic(rng, shape, bits=bits, scale=scale)
        return a.astype(np.complex128)
    return a


def pos_dyadic(rng, lo_bits=2, hi=4.0):
    q = 1 << lo_bits
    return float(rng.integers(1, int(hi * q) + 1)) / q


def norm_shape(shape):
    """JSON round trip turns tuples into lists: a block shape is a list of lists, a plain shape a list of ints"""
    if len(shape) > 0 and isinstance(shape[0], (list, tuple)):
        return [tuple(s) for s in shape]
    return tuple(shape)


def random_shape(rng, block):
    def one():
        if rng.random() < 0.7:
            return (int(rng.integers(1, 5)),)
        return (int(rng.integers(1, 4)), int(rng.integers(1, 4)))

    if block:
        return [one() for _ in range(int(rng.integers(1, 4)))]
    return one()


def random_arg_json(rng, shape, cplx, scale=3.0, bits=3):
    if isinstance(shape, list):
        return {"b": [fs2b(il(dy(rng, s, cplx, bits=bits, scale=scale), cplx)) for s in shape]}
    return {"a": fs2b(il(dy(rng, shape, cplx, bits=bits, scale=scale), cplx))}


# --------------------------------------------------------------------------
# leaves

LEAF_KINDS_REAL = ["zero", "l1", "sql2", "l2", "hubers", "hubern", "nonneg", "l0", "l21none", "l1ml2", "l2ball", "custom"]
LEAF_KINDS_CPLX = ["zero", "l1", "sql2", "l2", "hubers", "hubern", "l0", "l21none", "l1ml2", "l2ball", "custom"]
LEAF_KINDS_BLOCK = ["zero", "l1", "sql2", "l2", "hubers", "hubern", "l0", "l21none", "custom"]
PROX_RUNNABLE = {"zero", "l1", "sql2", "l2", "hubers", "hubern", "nonneg", "custom"}
BOTH_FLAGS = ["zero", "l1", "sql2", "l2", "hubers", "hubern"]


def gen_leaf(rng, cplx, kinds):
    kind = kinds[int(rng.integers(len(kinds)))]
    if kind in ("hubers", "hubern"):
        return {"kind": kind, "delta": f2b(pos_dyadic(rng))}
    if kind == "l1ml2":
        return {"kind": kind, "beta": f2b(float(rng.integers(0, 5)) / 4)}
    if kind == "l2ball":
        return {"kind": kind, "radius": f2b(pos_dyadic(rng, hi=6.0))}
    if kind == "custom":
        return {"kind": kind, "he": bool(rng.integers(2)), "hp": bool(rng.integers(2))}
    return {"kind": kind}


def make_custom(F, he, hp):
    ns = {"has_eval": he, "has_prox": hp}
    if he:
        ns["__call__"] = lambda self, x: 0.0
    if hp:
        ns["prox"] = lambda self, v, lam=1.0, **kw: v
    return type("Custom", (F.Functional,), ns)()


def build_leaf(F, d):
    k = d["kind"]
    if k == "zero":
        return F.ZeroFunctional()
    if k == "l1":
        return F.L1Norm()
    if k == "sql2":
        return F.SquaredL2Norm()
    if k == "l2":
        return F.L2Norm()
    if k == "l0":
        return F.L0Norm()
    if k == "l21none":
        return F.L21Norm(l2_axis=None)
    if k == "nonneg":
        return F.NonNegativeIndicator()
    if k == "hubers":
        return F.HuberNorm(delta=b2f(d["delta"]), separable=True)
    if k == "hubern":
        return F.HuberNorm(delta=b2f(d["delta"]), separable=False)
    if k == "l1ml2":
        return F.L1MinusL2Norm(beta=b2f(d["beta"]))
    if k == "l2ball":
        return F.L2BallIndicator(radius=b2f(d["radius"]))
    if k == "custom":
        return make_custom(F, d["he"], d["hp"])
    raise common.Infra(f"unknown leaf kind {k}")


# --------------------------------------------------------------------------
# trees: generation (description only)


class TreeGen:
    def __init__(self, rng, cplx, allow_nonpos=False, allow_lossdefect=True, leaf_kinds=None):
        self.rng = rng
        self.cplx = cplx
        self.leaves = []
        self.ops = []
        self.nonpos_budget = 1 if allow_nonpos else 0
        self.allow_lossdefect = allow_lossdefect
        self.leaf_kinds = leaf_kinds
        self.tags = []

    def case(self, depth, shape):
        t = self.gen(depth, shape)
        return {"cplx": self.cplx, "leaves": self.leaves, "ops": self.ops, "t": t,
                "shape": [list(s) for s in shape] if isinstance(shape, list) else list(shape)}

    def scale(self, safe=False):
        # (a non-positive scale below a Loss clears the Loss's has_prox: its prox then raises)
        # `safe`: positive only.  A non-positive factor folded into a *loss* (`c * L`) is generated (boundary stream):
        # `build` tags such trees "loss-nonpos" - their value is compared, their flags / prox are the known finding
        # `loss-nonpositive-scale` (the Loss flag does not look at the scale).
        if self.nonpos_budget and not safe and self.rng.random() < 0.5:
            self.nonpos_budget -= 1
            return float(self.rng.choice([0.0, -0.5, -1.0, -2.0]))
        return pos_dyadic(self.rng)

    def leaf(self, kinds):
        if self.leaf_kinds is not None:
            kinds = [k for k in kinds if k in self.leaf_kinds] or ["zero"]
        d = gen_leaf(self.rng, self.cplx, kinds)
        self.leaves.append(d)
        self.tags.append("leaf:" + d["kind"])
        return {"k": "leaf", "id": len(self.leaves) - 1}

    def measurement(self, shape):
        return random_arg_json(self.rng, shape, self.cplx)

    def opaque_op(self, n):
        M = common.dyadic(self.rng, (n, n), bits=1, scale=2.0)
        self.ops.append([fs2b(r) for r in M])
        return len(self.ops) - 1

    def gen(self, depth, shape, safe=False):
        """`safe`: only constructors that keep both flags (used below a Loss when the loss-flag pattern is excluded)"""
        rng = self.rng
        block = isinstance(shape, list)
        base_kinds = LEAF_KINDS_BLOCK if block else (LEAF_KINDS_CPLX if self.cplx else LEAF_KINDS_REAL)
        if safe:
            base_kinds = BOTH_FLAGS
        if depth <= 0:
            return self.leaf(base_kinds)
        if safe:
            choices = ["scaled", "mul", "leaf"] + (["sep"] if block else [])
        elif block:
            choices = ["sep", "sep", "scaled", "mul", "sum", "loss", "leaf", "div", "sql2"]
        else:
            choices = ["scaled", "mul", "sum", "loss", "loss", "sql2", "leaf", "div", "lossnone"]
        c = choices[int(rng.integers(len(choices)))]
        if c == "lossnone" and not self.allow_lossdefect:
            c = "loss"
        if c == "leaf":
            return self.leaf(base_kinds)
        self.tags.append(c)
        if c == "scaled":
            return {"k": "scaled", "c": f2b(self.scale(safe)), "f": self.gen(depth - 1, shape, safe)}
        if c == "mul" and rng.random() < 0.25 and not safe:
            # `L.set_scale(c)` on a (possibly already rescaled) loss
            inner = self.sql2(shape) if not block else {"k": "loss", "y": self.measurement(shape), "A": None, "Alinear": None,
                                                        "f": self.gen(depth - 1, shape, True), "scale": f2b(pos_dyadic(rng))}
            if rng.random() < 0.5:
                inner = {"k": "mul", "c": f2b(pos_dyadic(rng)), "side": int(rng.integers(2)), "f": inner}
            self.tags.append("setscale")
            return {"k": "setscale", "c": f2b(pos_dyadic(rng)), "f": inner}
        if c == "mul":
            child = self.gen(depth - 1, shape, safe)
            # `c * loss` folds c into the loss's own scale (a non-positive one is tagged "loss-nonpos" by `build`)
            return {"k": "mul", "c": f2b(self.scale(safe)), "side": int(rng.integers(2)), "f": child}
        if c == "div":
            # `/` exists for losses only; mostly divide a loss, sometimes something else (TypeError expected)
            if rng.random() < 0.75 and not safe:
                if block:
                    inner = {"k": "loss", "y": self.measurement(shape), "A": None, "Alinear": None,
                             "f": self.gen(depth - 1, shape, not self.allow_lossdefect), "scale": f2b(pos_dyadic(rng))}
                else:
                    inner = self.sql2(shape)
            else:
                inner = self.gen(depth - 1, shape, safe)
            return {"k": "div", "c": f2b(pos_dyadic(rng)), "f": inner}
        if c == "sum":
            return {"k": "sum", "f": self.gen(depth - 1, shape), "g": self.gen(depth - 1, shape)}
        if c == "sep":
            return {"k": "sep", "fs": [self.gen(depth - 1, s, safe) for s in shape]}
        if c == "lossnone":
            return {"k": "loss", "y": self.measurement(shape), "A": None, "f": None, "scale": f2b(pos_dyadic(rng))}
        if c == "loss":
            y = self.measurement(shape)
            f = self.gen(depth - 1, shape, safe or not self.allow_lossdefect)
            A = None
            Acls = None
            if (not block) and (not self.cplx) and len(shape) == 1 and rng.random() < 0.4:
                # the generic prox exists for `isinstance(A, linop.Identity)` only: ScaledIdentity / Diagonal (super-classes
                # of Identity), MatrixOperator and non-linear operators are opaque operators for the model
                Acls = ["mat", "nonlin", "sid", "diag"][int(rng.integers(4))]
                if Acls in ("sid", "diag"):
                    n = shape[0]
                    d = common.dyadic(rng, (n,), bits=1, scale=2.0) if Acls == "diag" else np.full(n, float(rng.choice([0.5, 1.0, 2.0, -1.0])))
                    self.ops.append([fs2b(r) for r in np.diag(d)])
                    A = {"id": len(self.ops) - 1, "linear": True}
                else:
                    A = {"id": self.opaque_op(shape[0]), "linear": Acls == "mat"}
            elif rng.random() < 0.25:
                Acls = "identobj"  # an explicit linop.Identity instance: the model's Identity (A = none)
            self.tags.append("loss:A=" + (Acls or "default"))
            return {"k": "loss", "y": y, "A": None if A is None else A["id"], "Alinear": None if A is None else A["linear"],
                    "Acls": Acls, "f": f, "scale": f2b(pos_dyadic(rng))}
        if c == "sql2":
            return self.sql2(shape)
        raise common.Infra(c)

    def sql2(self, shape):
        rng = self.rng
        if isinstance(shape, list):
            # block argument: default Identity forward operator, block weights (flat list, block by block)
            w = None
            if rng.random() < 0.5:
                w = fs2b(rng.integers(0, 5, size=int(sum(np.prod(s) for s in shape))).astype(np.float64) / 2)
            if rng.random() < 0.5:
                # a Diagonal whose diagonal is a block array of the block shape (flat list, block by block)
                tot = [dy(rng, s_, self.cplx, bits=1, scale=2.0) for s_ in shape]
                Aj = {"k": "diag", "d": fs2b(np.concatenate([il(b_, self.cplx) for b_ in tot]))}
                self.tags.append("sql2:diag:block")
            else:
                Aj = {"k": "ident"}
                self.tags.append("sql2:ident:block")
            return {"k": "sql2", "y": self.measurement(shape), "A": Aj, "w": w, "scale": f2b(pos_dyadic(rng))}
        n = int(np.prod(shape))
        w = None
        if rng.random() < 0.5:
            w = fs2b(rng.integers(0, 5, size=shape).astype(np.float64) / 2)  # includes zeros
        kinds = ["ident", "diag", "diag"]
        if len(shape) == 1 and not self.cplx:
            kinds += ["lin", "nonlin"]
        k = kinds[int(rng.integers(len(kinds)))]
        if k == "ident":
            Aj = {"k": "ident"}
        elif k == "diag":
            Aj = {"k": "diag", "d": fs2b(il(dy(rng, shape, self.cplx, bits=1, scale=2.0), self.cplx))}
        else:
            Aj = {"k": k, "id": self.opaque_op(n)}
        self.tags.append("sql2:" + k)
        return {"k": "sql2", "y": self.measurement(shape), "A": Aj, "w": w, "scale": f2b(pos_dyadic(rng))}


def is_lossish(t):
    """does `c * <t>` rescale a Loss (rather than build a ScaledFunctional)?"""
    if t["k"] in ("loss", "sql2"):
        return True
    if t["k"] in ("mul", "div", "setscale"):
        return is_lossish(t["f"])
    return False


# --------------------------------------------------------------------------
# trees: building the real object


class Built:
    def __init__(self):
        self.patterns = set()  # "loss-flags", "nonpos-scale", "loss-nonpos"
        self.leaf_objs = {}
        self.alias = []  # `c * L` / `L / c` that modified `L` or returned it


def _op_obj(scico, case, oid, linear, cls=None):
    from scico import linop, operator
    import scico.numpy as snp

    M = np.asarray([b2fs(r) for r in case["ops"][oid]], dtype=np.float64)
    Mj = snp.array(M.astype(rdt()))
    if cls == "sid":
        return linop.ScaledIdentity(float(M[0, 0]), (M.shape[1],), input_dtype=rdt())
    if cls == "diag":
        return linop.Diagonal(snp.array(np.diag(M).copy()), input_dtype=rdt())
    if linear:
        return linop.MatrixOperator(Mj, input_cols=0)
    return operator.Operator(input_shape=(M.shape[1],), output_shape=(M.shape[0],), eval_fn=lambda x: Mj @ x,
                             input_dtype=rdt())


def build(scico, case, t=None, shape=None, info=None):
    """-> (object | TypeError, Built).  TypeError = the real code rejects the construction (`f / c`)."""
    top = info is None
    if top:
        info = Built()
        t = case["t"]
        shape = norm_shape(case["shape"])
    import scico.functional as F
    import scico.loss as loss

    cplx = case["cplx"]
    k = t["k"]

    def sub(tt, sh=shape):
        return build(scico, case, tt, sh, info)[0]

    if k == "leaf":
        o = build_leaf(F, case["leaves"][t["id"]])
        info.leaf_objs[t["id"]] = o
        res = o
    elif k == "setscale":
        o = sub(t["f"])
        if o is TypeError or not hasattr(o, "set_scale"):
            res = TypeError
        else:
            o.set_scale(b2f(t["c"]))
            res = o
    elif k in ("scaled", "mul", "div"):
        o = sub(t["f"])
        c = b2f(t["c"])
        if o is TypeError:
            res = TypeError
        else:
            if k != "div" and not c > 0:
                info.patterns.add("nonpos-scale")
                if k == "mul" and hasattr(o, "set_scale"):
                    info.patterns.add("loss-nonpos")
            s0 = getattr(o, "scale", None) if hasattr(o, "set_scale") else None
            probe = None
            if s0 is not None and k in ("mul", "div") and bool(getattr(o, "has_eval", False)):
                # value of the operand at a fixed probe point, before `c * L` / `L / c` is formed
                xpj = random_arg_json(np.random.default_rng(11), shape, cplx)
                xp = arg_to_scico(xpj, shape, cplx)
                try:
                    probe = float(o(xp))
                except Exception:  # noqa: BLE001
                    probe = None
            if k == "scaled":
                res = F.ScaledFunctional(o, c)
            elif k == "mul":
                res = c * o if t.get("side", 0) == 0 else o * c
            else:
                try:
                    res = o / c
                except TypeError:
                    res = TypeError
            # `c * L` / `L / c` must return a new loss and leave `L` as it was - also after `set_scale` on the product
            # (history: a second product is formed, rescaled in place, and the operand is evaluated again)
            if s0 is not None and res is not TypeError and k in ("mul", "div"):
                try:
                    res2 = (c * o if t.get("side", 0) == 0 else o * c) if k == "mul" else o / c
                    res2.set_scale(3.0 * float(s0) + 1.0)
                    if res2 is o:
                        pass  # aliased: `o` has just been rescaled; detected below through o.scale / the probe value
                except Exception:  # noqa: BLE001
                    pass
                after = None
                if probe is not None:
                    try:
                        after = float(o(xp))
                    except Exception:  # noqa: BLE001
                        after = None
                moved = probe is not None and (after is None or not common.close(probe, after, k=64, rtol=1e-9))
                if res is o or o.scale != s0 or moved:
                    info.alias.append({"node": k, "c": c, "scale_before": float(s0), "scale_after": float(o.scale),
                                       "same_object": res is o, "x": xpj if probe is not None else None,
                                       "L(x) before": probe, "L(x) after": after,
                                       "history": "P = c*L (or L/c); P.set_scale(3*s+1); L(x) evaluated again"})
                    try:
                        o.set_scale(s0)  # keep the rest of the case meaningful
                    except Exception:  # noqa: BLE001
                        pass
    elif k == "sum":
        a, b = sub(t["f"]), sub(t["g"])
        res = TypeError if (a is TypeError or b is TypeError) else a + b
    elif k == "sep" and t.get("same"):
        # the list repeats the IDENTICAL functional object ([f] * k): still block by block
        o = sub(t["fs"][0], shape[0])
        parts = [o] * len(shape)
        res = TypeError if o is TypeError else F.SeparableFunctional(parts)
    elif k == "sep":
        parts = [sub(tt, sh) for tt, sh in zip(t["fs"], shape)]
        res = TypeError if any(p is TypeError for p in parts) else F.SeparableFunctional(parts)
    elif k == "loss":
        y = arg_to_scico(t["y"], shape, cplx)
        s = b2f(t["scale"])
        if t.get("f") is None:
            info.patterns.add("loss-flags")
            res = loss.Loss(y=y, scale=s)
        else:
            o = sub(t["f"])
            if o is TypeError:
                res = TypeError
            else:
                A = None if t.get("A") is None else _op_obj(scico, case, t["A"], t.get("Alinear", True), t.get("Acls"))
                if t.get("Acls") == "identobj":
                    from scico import linop

                    A = linop.Identity(input_shape=y.shape, input_dtype=y.dtype)
                if (not o.has_eval) or (A is None and not o.has_prox):
                    info.patterns.add("loss-flags")
                res = loss.Loss(y=y, A=A, f=o, scale=s)
    elif k == "sql2":
        from scico import linop
        import scico.numpy as snp

        y = arg_to_scico(t["y"], shape, cplx)
        s = b2f(t["scale"])
        W = None
        if t.get("w") is not None and isinstance(shape, list):
            wf, pos, wb = np.asarray(b2fs(t["w"])), 0, []
            for sh in shape:
                m_ = int(np.prod(sh))
                wb.append(snp.array(wf[pos : pos + m_].reshape(sh)))
                pos += m_
            W = linop.Diagonal(snp.blockarray(wb), input_dtype=rdt())
        elif t.get("w") is not None:
            W = linop.Diagonal(snp.array(np.asarray(b2fs(t["w"])).reshape(shape)), input_dtype=rdt())
        Ak = t["A"]["k"]
        if Ak == "ident":
            A = None
        elif Ak == "diag" and isinstance(shape, list):
            df, pos_, db = unil(b2fs(t["A"]["d"]), cplx), 0, []
            for sh in shape:
                m_ = int(np.prod(sh))
                db.append(snp.array(df[pos_ : pos_ + m_].reshape(sh)))
                pos_ += m_
            A = linop.Diagonal(snp.blockarray(db), input_dtype=cdt() if cplx else rdt())
        elif Ak == "diag":
            A = linop.Diagonal(snp.array(unil(b2fs(t["A"]["d"]), cplx, shape)), input_dtype=cdt() if cplx else rdt())
        else:
            A = _op_obj(scico, case, t["A"]["id"], Ak == "lin")
        res = loss.SquaredL2Loss(y=y, A=A, scale=s, W=W)
    else:
        raise common.Infra(f"unknown node {k}")
    return res, info


# --------------------------------------------------------------------------
# independent numpy formulas (the documented definitions)


class NotAvail(Exception):
    """the denoted functional has no evaluation (a component cannot be evaluated)"""


def np_leaf(d, blocks):
    """documented value of a base functional on a list of numpy blocks"""
    k = d["kind"]
    allv = np.concatenate([np.ravel(b) for b in blocks]) if blocks else np.zeros(0)
    a = np.abs(allv)
    if k in ("zero",):
        return 0.0
    if k == "custom":
        if not d["he"]:
            raise NotAvail()
        return 0.0
    if k == "l0":
        return float(np.sum(a != 0))
    if k == "l1":
        return float(np.sum(a))
    if k == "sql2":
        return float(np.sum(a**2))
    if k == "l2":
        return float(np.sqrt(np.sum(a**2)))
    if k == "l21none":
        return float(sum(np.sqrt(np.sum(np.abs(b) ** 2)) for b in blocks))
    if k == "l1ml2":
        return float(np.sum(a) - b2f(d["beta"]) * np.sqrt(np.sum(a**2)))
    if k == "hubers":
        de = b2f(d["delta"])
        return float(np.sum(np.where(a <= de, 0.5 * a**2, de * (a - de / 2))))
    if k == "hubern":
        de = b2f(d["delta"])
        n = np.sqrt(np.sum(a**2))
        return float(0.5 * n**2 if n <= de else de * (n - de / 2))
    if k == "nonneg":
        return float("inf") if np.any(allv < 0) else 0.0
    if k == "l2ball":
        return float("inf") if np.sqrt(np.sum(a**2)) > b2f(d["radius"]) else 0.0
    raise common.Infra(k)


def _json_blocks(j, shape, cplx):
    if "a" in j:
        return [unil(b2fs(j["a"]), cplx, tuple(shape))]
    return [unil(b2fs(b), cplx, tuple(s)) for b, s in zip(j["b"], shape)]


def np_eval(case, blocks, t=None, shape=None):
    """documented value of the functional denoted by the tree at the argument `blocks`
    (list of numpy arrays; a plain array is a one-element list and `shape` a tuple)"""
    if t is None:
        t = case["t"]
        shape = norm_shape(case["shape"])
    cplx = case["cplx"]
    k = t["k"]
    if k == "leaf":
        return np_leaf(case["leaves"][t["id"]], blocks)
    if k in ("scaled", "mul"):
        return b2f(t["c"]) * np_eval(case, blocks, t["f"], shape)
    if k == "setscale":
        inner = dict(t["f"])
        while inner["k"] in ("mul", "div", "setscale"):  # rescalings below are overwritten
            inner = dict(inner["f"])
        inner["scale"] = t["c"]
        return np_eval(case, blocks, inner, shape)
    if k == "div":
        return np_eval(case, blocks, t["f"], shape) / b2f(t["c"])
    if k == "sum":
        return np_eval(case, blocks, t["f"], shape) + np_eval(case, blocks, t["g"], shape)
    if k == "sep":
        return float(sum(np_eval(case, [b], tt, sh) for b, tt, sh in zip(blocks, t["fs"], shape)))
    if k == "loss":
        if t.get("f") is None:
            raise NotAvail()
        ys = _json_blocks(t["y"], shape, cplx)
        if t.get("A") is not None:
            M = np.asarray([b2fs(r) for r in case["ops"][t["A"]]])
            blocks = [M @ blocks[0]]
        return b2f(t["scale"]) * np_eval(case, [b - y for b, y in zip(blocks, ys)], t["f"], shape)
    if k == "sql2" and isinstance(shape, list):
        ys = _json_blocks(t["y"], shape, cplx)
        wf = None if t.get("w") is None else np.asarray(b2fs(t["w"]))
        tot, pos = 0.0, 0
        df = unil(b2fs(t["A"]["d"]), cplx) if t["A"]["k"] == "diag" else None
        for yb, xb in zip(ys, blocks):
            m_ = int(np.prod(yb.shape))
            wv = 1.0 if wf is None else wf[pos : pos + m_].reshape(yb.shape)
            ab = 1.0 if df is None else df[pos : pos + m_].reshape(yb.shape)
            pos += m_
            tot += float(np.sum(wv * np.abs(yb - ab * xb) ** 2))
        return float(b2f(t["scale"]) * tot)
    if k == "sql2":
        y = _json_blocks(t["y"], shape, cplx)[0]
        x = blocks[0]
        Ak = t["A"]["k"]
        if Ak == "ident":
            ax = x
        elif Ak == "diag":
            ax = unil(b2fs(t["A"]["d"]), cplx, tuple(shape)) * x
        else:
            ax = np.asarray([b2fs(r) for r in case["ops"][t["A"]["id"]]]) @ x
        w = 1.0 if t.get("w") is None else np.asarray(b2fs(t["w"])).reshape(shape)
        return float(b2f(t["scale"]) * np.sum(w * np.abs(y - ax) ** 2))
    raise common.Infra(k)


def tree_depth(t):
    k = t["k"]
    if k == "leaf" or k == "sql2":
        return 0
    if k == "sep":
        return 1 + max([tree_depth(x) for x in t["fs"]] or [0])
    if k == "sum":
        return 1 + max(tree_depth(t["f"]), tree_depth(t["g"]))
    if t.get("f") is None:
        return 0
    return 1 + tree_depth(t["f"])


def gen_rescale_chain_case(rng):
    """a base functional (or a separable list) scaled two to three times through `c * f`, `f * c` and the
    `ScaledFunctional` constructor, with factors of either sign: the flag must follow the sign of the *total* scale
    of what `__mul__` folds, and of each constructor-level factor"""
    cplx = bool(rng.random() < 0.3)
    block = bool(rng.random() < 0.4)
    shape = random_shape(rng, block)
    tg = TreeGen(rng, cplx, allow_lossdefect=False)
    kinds = ["l1", "sql2", "l2", "hubers", "zero", "custom"]
    t = {"k": "sep", "fs": [tg.leaf(kinds) for _ in shape]} if block and rng.random() < 0.6 else tg.leaf(kinds)
    for _ in range(int(rng.integers(2, 4))):
        c = float(rng.choice([-4.0, -2.0, -1.0, -0.5, 0.5, 1.0, 2.0, 4.0, 0.0], p=[0.1, 0.1, 0.15, 0.1, 0.15, 0.1, 0.15, 0.1, 0.05]))
        if rng.random() < 0.7:
            t = {"k": "mul", "c": f2b(c), "side": int(rng.integers(2)), "f": t}
        else:
            t = {"k": "scaled", "c": f2b(c), "f": t}
    if block and rng.random() < 0.3 and t["k"] != "sep":
        pass
    return {"cplx": cplx, "leaves": tg.leaves, "ops": [], "t": t,
            "shape": [list(s) for s in shape] if block else list(shape)}


def gen_translate_case(rng, depth=2):
    """Loss.prox translation rule with a *non-even* functional and y != 0, under rescaling chains
    (c*L, L/c, set_scale, ScaledFunctional of ScaledFunctional): real data, plain or block argument"""
    block = bool(rng.integers(2))
    shape = random_shape(rng, block)
    tg = TreeGen(rng, False, allow_lossdefect=False)

    def noneven(sh):
        t = tg.leaf(["nonneg"])
        if rng.random() < 0.5:
            t = {"k": "scaled", "c": f2b(pos_dyadic(rng)), "f": t}
        if rng.random() < 0.3:
            t = {"k": "scaled", "c": f2b(pos_dyadic(rng)), "f": t}
        return t

    f = {"k": "sep", "fs": [noneven(s) if rng.random() < 0.7 else tg.leaf(["l1", "hubers"]) for s in shape]} if block else noneven(shape)
    y = random_arg_json(rng, shape, False, scale=3.0, bits=2)
    t = {"k": "loss", "y": y, "A": None, "Alinear": None, "f": f, "scale": f2b(pos_dyadic(rng))}
    for _ in range(int(rng.integers(0, depth + 1))):
        w = int(rng.integers(3))
        if w == 0:
            t = {"k": "mul", "c": f2b(pos_dyadic(rng)), "side": int(rng.integers(2)), "f": t}
        elif w == 1:
            t = {"k": "div", "c": f2b(pos_dyadic(rng)), "f": t}
        else:
            t = {"k": "setscale", "c": f2b(pos_dyadic(rng)), "f": t}
    return {"cplx": False, "leaves": tg.leaves, "ops": [], "t": t,
            "shape": [list(s) for s in shape] if block else list(shape)}


def tree_sig(t):
    """structural signature (constructor skeleton) used as the distinct-case key"""
    k = t["k"]
    if k == "leaf":
        return "L"
    if k == "sql2":
        return "Q" + t["A"]["k"][0] + ("w" if t.get("w") is not None else "")
    if k == "sep":
        return "P[" + ",".join(tree_sig(x) for x in t["fs"]) + "]"
    if k == "sum":
        return "S(" + tree_sig(t["f"]) + "+" + tree_sig(t["g"]) + ")"
    if k == "loss":
        return "Lo" + ("A" if t.get("A") is not None else "") + "(" + ("-" if t.get("f") is None else tree_sig(t["f"])) + ")"
    return ("ss" if k == "setscale" else k[0]) + "(" + tree_sig(t["f"]) + ")"


# --------------------------------------------------------------------------
# unit factors: `1 * L`, `L * 1.0`, `L / 1` ... must be independent copies (history: rescale the product, re-evaluate L)


def unit_factor_failures(scico, rng, reps=1):
    """for every loss class x every way of writing a unit factor: P = <form>(L); P.set_scale(c); then L(x) must be what it
    was, P(x) must be (c / s) * L(x), and P must not be L.  Yields (description, failure | None)."""
    import scico.functional as F
    import scico.numpy as snp
    from scico import linop, loss

    forms = [("1 * L", lambda L: 1 * L), ("1.0 * L", lambda L: 1.0 * L), ("L * 1", lambda L: L * 1), ("L * 1.0", lambda L: L * 1.0),
             ("L / 1", lambda L: L / 1), ("L / 1.0", lambda L: L / 1.0)]
    for _ in range(reps):
        for cname in ("generic", "sql2", "sql2abs", "sql2sqabs", "poisson"):
            for fname, form in forms:
                n = int(rng.integers(1, 5))
                y = np.abs(common.dyadic(rng, (n,), bits=2, scale=3.0)) + 0.25
                x = np.abs(common.dyadic(rng, (n,), bits=2, scale=3.0)) + 0.5
                s0 = pos_dyadic(rng)
                w = rng.integers(1, 5, size=n).astype(np.float64) / 2
                W = linop.Diagonal(snp.array(w), input_dtype=np.float64)
                yj, xj = snp.array(y), snp.array(x)
                if cname == "generic":
                    L = loss.Loss(y=yj, f=F.L1Norm(), scale=s0)
                elif cname == "sql2":
                    L = loss.SquaredL2Loss(y=yj, scale=s0, W=W)
                elif cname == "sql2abs":
                    L = loss.SquaredL2AbsLoss(y=yj, scale=s0, W=W)
                elif cname == "sql2sqabs":
                    L = loss.SquaredL2SquaredAbsLoss(y=yj, scale=s0, W=W)
                else:
                    L = loss.PoissonLoss(y=yj, scale=s0)
                c = pos_dyadic(rng) + 4.0  # different from every s0
                before = float(L(xj))
                P = form(L)
                first = float(P(xj))
                P.set_scale(c)
                after = float(L(xj))
                pval = float(P(xj))
                desc = {"class": cname, "form": fname, "scale": s0, "set_scale": c, "x": x.tolist(), "y": y.tolist()}
                fail = None
                if not common.close(first, before, k=64, rtol=1e-9):
                    fail = {"what": f"({fname})(x) differs from L(x)", "L(x)": before, "product(x)": first}
                elif not common.close(after, before, k=64, rtol=1e-9):
                    fail = {"what": f"P = {fname}; P.set_scale({c}) changed L: L(x) was {before}, is now {after}", "same object": P is L}
                elif not common.close(pval, before * c / s0, k=64, rtol=1e-9):
                    fail = {"what": f"P = {fname}; P.set_scale({c}); P(x) is not (c/scale) L(x)", "P(x)": pval, "expected": before * c / s0}
                elif P is L:
                    fail = {"what": f"{fname} returns L itself"}
                if fail is not None:
                    fail.update(desc)
                yield desc, fail


def gen_same_object_case(rng):
    """SeparableFunctional([f] * k) with the IDENTICAL object repeated, f coupling the entries of its argument (L2Norm,
    non-separable Huber, L2 ball, L2,1 with l2_axis=None, possibly scaled): must still act block by block"""
    cplx = bool(rng.random() < 0.3)
    k = int(rng.integers(2, 4))
    shape = [(int(rng.integers(1, 5)),) if rng.random() < 0.7 else (int(rng.integers(1, 4)), int(rng.integers(1, 4))) for _ in range(k)]
    tg = TreeGen(rng, cplx, allow_lossdefect=False)
    f = tg.leaf(["l2", "l2", "hubern", "hubern", "l2ball", "l21none"])
    if rng.random() < 0.5:
        f = {"k": "scaled" if rng.random() < 0.5 else "mul", "c": f2b(pos_dyadic(rng)), "side": 0, "f": f}
    t = {"k": "sep", "fs": [f] * k, "same": True}
    if rng.random() < 0.3:
        t = {"k": "scaled", "c": f2b(pos_dyadic(rng)), "f": t}
    return {"cplx": cplx, "leaves": tg.leaves, "ops": [], "t": t, "shape": [list(s_) for s_ in shape]}


# --------------------------------------------------------------------------
# targeted panels after a broken generated obligation


class Collector:
    """stands in for the run context while a stream is re-run as a failing-input search: nothing is counted, a disagreement
    is kept only when its property oracle produces a failing input on the implementation"""

    def __init__(self, ctx, boost=2):
        self.rng = ctx.rng
        self.thorough = ctx.thorough
        self.tier = ctx.tier
        self.boost = boost
        self.extra = {}
        self.failing = []
        self._q = ctx

    def n(self, quick, thorough):
        v = thorough if self.thorough else quick
        return v * self.boost if v >= 10 else v  # case counts are boosted, structural bounds (tree depth) are not

    def case(self, *a, **k):
        pass

    def count(self, *a, **k):
        pass

    def known_finding(self, *a, **k):
        return False

    def is_known(self, fid):
        return False

    def disagree(self, op, case, impl, model, oracle=None, known_id=None, note=""):
        if oracle is None or len(self.failing) >= 1:
            return
        try:
            r = oracle(case)
        except Exception:  # noqa: BLE001
            r = None
        if r is not None:
            self.failing.append({"op": op, "case": case, "failing": r, "impl": impl, "model": model})

    def violation(self, replay, found_input, what=""):
        if found_input and not self.failing:
            self.failing.append(dict(replay, what=what))


def panel(ctx, streams, rows):
    """run the given stream functions (callables taking a context) as a failing-input search; first failing input or None"""
    col = Collector(ctx)
    for fn in streams:
        try:
            fn(col)
        except Exception as e:  # noqa: BLE001  (a stream crashing on the changed code is not a failing input by itself)
            col.extra.setdefault("panel_errors", []).append(repr(e)[:200])
        if col.failing:
            f = col.failing[0]
            f["differing_table_rows"] = rows
            return f
    return None
