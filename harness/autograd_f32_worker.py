"""Default-precision worker of C07 (run as a subprocess WITHOUT jax_enable_x64: float32 / complex64 throughout, Python scalars
weakly typed).  Reads {"repo": …, "items": [...]} on stdin and prints {"results": [...]}; for every item it runs the real scico
code and records values, dtypes and whether anything raised; the parent (harness/c07.py) compares with the Lean model.

  kind "fn"  : functional expression (recipe of harness/autograd_gen.py, built at 32 bit): f(x), f.grad(x),
               scico.value_and_grad(f)(x), plus the property residual max |Re<g,d> - central difference| over 3 directions
  kind "api" : scico.grad / value_and_grad with argnums / has_aux on a 3-argument function with mixed real/complex arguments
  kind "jac" : Operator Ax + B conj x + (Cx)^2 + c : jvp, vjp (both flags), cvjp, linop.jacobian eval / adj (+- include_eval)
"""

import json
import os
import sys
import warnings

os.environ["JAX_PLATFORMS"] = "cpu"
os.environ.pop("JAX_ENABLE_X64", None)
req = json.loads(sys.stdin.read())
sys.path.insert(0, req["repo"])
sys.path.insert(0, os.path.dirname(os.path.abspath(__file__)))
warnings.simplefilter("ignore")
import numpy as np  # noqa: E402

import jax  # noqa: E402

assert not jax.config.jax_enable_x64
import jax.numpy as jnp  # noqa: E402

import autograd_gen as G  # noqa: E402
import scico  # noqa: E402
import scico.numpy as snp  # noqa: E402
from scico import linop  # noqa: E402
from scico.operator import Operator  # noqa: E402


def dt(cplx):
    return np.complex64 if cplx else np.float32


def arr(a, cplx):
    a = np.asarray(a, dtype=np.complex128)
    return snp.array(np.asarray(a if cplx else a.real, dtype=dt(cplx)))


def enc(a):
    return G.enc(np.asarray(a).ravel())


def dts(a):
    return str(np.asarray(a).dtype)


def run_fn(it):
    t, n, cplx = it["tree"], it["n"], it["cplx"]
    f = G.build(t, n, cplx, single=True)
    X = arr(G.dec(it["x"]), cplx)
    val = f(X)
    g = f.grad(X)
    v2, g2 = scico.value_and_grad(f.__call__)(X)
    rec = {"val": float(val), "val_dtype": dts(val), "grad": enc(g), "grad_dtype": dts(g), "x_dtype": dts(X),
           "vg_val": float(v2), "vg_grad": enc(g2), "vg_dtype": dts(g2)}
    # property residual at 32 bit: Re<g, d> against a central difference
    h, worst = 2.0**-8, None
    gn = np.asarray(g).astype(np.complex128).ravel()
    for d in it["dirs"]:
        dd = G.dec(d)
        D = arr(dd, cplx)
        fd = (float(f(X + h * D)) - float(f(X - h * D))) / (2 * h)
        ri = float(np.real(np.sum(np.conj(gn) * (dd if cplx else dd.real))))
        err = abs(fd - ri) / (1.0 + abs(fd) + abs(float(val)))
        if worst is None or err > worst["rel_err"]:
            worst = {"d": d, "re_inner_grad_d": ri, "finite_difference": fd, "rel_err": err}
    rec["property"] = worst
    return rec


def run_api(it):
    ns, kinds, m = it["ns"], it["kinds"], it["m"]
    As = [jnp.asarray(G.dec(a, (m, n_), True), dtype=np.complex64) for a, n_ in zip(it["As"], ns)]
    yj = jnp.asarray(G.dec(it["y"], (m,), True), dtype=np.complex64)
    args = [arr(G.dec(x), k) for x, k in zip(it["xs"], kinds)]

    def fun(p0, p1, p2):
        return jnp.sum(jnp.abs(As[0] @ p0 + As[1] @ p1 + As[2] @ p2 - yj) ** 2)

    def fun_aux(p0, p1, p2):
        return fun(p0, p1, p2), {"aux": p1}

    an = it["argnums"]
    an_ = tuple(an) if isinstance(an, list) else an
    aux, api = it["has_aux"], it["api"]
    f = fun_aux if aux else fun
    if api == "grad":
        out = scico.grad(f, argnums=an_, has_aux=aux)(*args)
        val, g = None, (out[0] if aux else out)
    elif api == "value_and_grad":
        out = scico.value_and_grad(f, argnums=an_, has_aux=aux)(*args)
        val, g = (out[0][0] if aux else out[0]), out[1]
    else:  # jacrev of the vector-valued residual-modulus: rows
        out = scico.jacrev(lambda *a: jnp.abs(As[0] @ a[0] + As[1] @ a[1] + As[2] @ a[2] - yj) ** 2, argnums=an_)(*args)
        val, g = None, out
    gs = list(g) if isinstance(an_, tuple) else [g]
    return {"val": None if val is None else float(val), "grads": [enc(z) for z in gs], "shapes": [list(np.shape(z)) for z in gs],
            "grad_dtypes": [dts(z) for z in gs], "arg_dtypes": [dts(a) for a in args]}


def run_jac(it):
    n, m, cplx = it["n"], it["m"], it["cplx"]
    A, B, C = (jnp.asarray(G.dec(it[k], (m, n), cplx), dtype=dt(cplx)) for k in ("A", "B", "C"))
    c0 = jnp.asarray(G.dec(it["c0"], (m,), cplx), dtype=dt(cplx))
    F = Operator((n,), output_shape=(m,), eval_fn=lambda x: A @ x + B @ jnp.conj(x) + (C @ x) ** 2 + c0, input_dtype=dt(cplx), output_dtype=dt(cplx))
    U, V, W = arr(G.dec(it["u"]), cplx), arr(G.dec(it["v"]), cplx), arr(G.dec(it["w"]), cplx)
    Fu, Jv = F.jvp(U, V)
    rec = {"value": enc(Fu), "jvp": enc(Jv), "jvp_dtype": dts(Jv), "in_dtype": dts(U), "out_dtype": dts(W)}
    for flag in (True, False):
        gw = F.vjp(U, conjugate=flag)[1](W)
        rec["vjp_" + str(flag)] = enc(gw)
        rec["vjp_dtype_" + str(flag)] = dts(gw)
    gw = F.vjp(U)[1](W)
    rec["vjp_default"] = enc(gw)
    cv = scico.cvjp(F, U)[1](W)[0]
    rec["cvjp"], rec["cvjp_dtype"] = enc(cv), dts(cv)
    for inc in (False, True):
        J = linop.jacobian(F, U, include_eval=inc)
        je, ja = J(V), J.adj(W)
        jb = list(je.arrays) if hasattr(je, "arrays") else [je]
        ab = list(ja.arrays) if hasattr(ja, "arrays") else [ja]
        rec[f"jeval_{inc}"] = [enc(b) for b in jb]
        rec[f"jadj_{inc}"] = [enc(b) for b in ab]
        rec[f"jdtypes_{inc}"] = [dts(b) for b in jb + ab]
    return rec


out = []
for k, it in enumerate(req["items"]):
    try:
        rec = {"fn": run_fn, "api": run_api, "jac": run_jac}[it["kind"]](it)
    except Exception as e:  # noqa: BLE001
        import traceback

        rec = {"raised": repr(e)[:300], "where": [f"{fr.filename.split('/')[-1]}:{fr.lineno}" for fr in traceback.extract_tb(e.__traceback__)][-4:]}
    out.append(rec)
    if k % 60 == 59:
        jax.clear_caches()
print(json.dumps({"results": out}))
