"""Translator of C06 (DESIGN §5.6, §6.3): regenerate `lean/Scico/Generated/Jaxprs_*.lean` from the working tree.

For every operator configuration (harness/jaxpr_ops.py, built on harness/opgrid.py) and every view presented as linear
(eval, adj; gram, T, H, conj, gram_op, T.adj, H.adj) the JAX-traced program is translated to the IR of
`Scico/Model/Jaxpr.lean` (harness/jaxpr_ir.py) and one obligation

    example : checkFast prog = <tag> := by decide +kernel        (checkFast = check, theorem C06_checkFast_eq_check)

is emitted, where <tag> is `.linC` for operators over ℂ (input and output dtype complex) and one of
`.linC | .antiC | .linR` for operators over ℝ (all three mean ℝ-linear there).  When the Python mirror of the checker
does not find an acceptable tag the obligation `check prog = .linC` is emitted anyway - it then fails to compile, which
is what makes the runner report the broken obligation.  Programs that cannot be translated (unknown primitive,
while/scan/cond on input-dependent values, tracing failure) get an explicit failing obligation naming the primitive.

Identical programs (same IR, same scalar field) are emitted once; modules are filled by hash bucket so that an unchanged
program stays in an unchanged module and `lake` does not re-elaborate it.
"""

from __future__ import annotations

import hashlib
import json
import re
import time

import numpy as np

import common
import jaxpr_ir as ir
import jaxpr_ops as ops

GEN_DIR = common.LEAN_DIR / "Scico" / "Generated"
MOD_PREFIX = "Jaxprs_"
MAX_EQNS = 400  # a program longer than this is reported (quadratic cost of the list environment, DESIGN §5.6)

REAL_OK = ("linC", "antiC", "linR")


def _is_complex(dt):
    return np.issubdtype(np.dtype(dt), np.complexfloating)


def field_of(A):
    """'C' for a complex operator = declared with a complex input dtype (linearity over ℂ is required of it and of
    its adjoint / Gram / T / H / conj views), else 'R'.  An operator ℝⁿ→ℂᵐ is a real operator: its adjoint ℂᵐ→ℝⁿ
    takes a real part and is ℝ-linear only - that is a view of a real operator, not a complex operator."""
    return "C" if _is_complex(A.input_dtype) else "R"


def acceptable(tag, field):
    return tag == "linC" if field == "C" else tag in REAL_OK


class TranslationCache:
    """Translations of operator views kept ACROSS runs (structural cut of the quick tier's cost, round 4).

    Tracing is deterministic: for an unchanged code base the traced program of (class, configuration, view) is the same
    in every run.  The cache lives in `lean/.lake/c06-cache/` (ignored by git, never under /tmp) and is keyed on a hash
    of EVERY source file of the scico package under test, of the translator sources and of the versions of jax / jaxlib
    / numpy / python; any change empties it.  A hit replaces `make_jaxpr` + `translate` by the stored IR (the emitted
    Lean obligation is the same text).  Everything that *tests* - numerical probes, reused-buffer histories, and for a
    seeded share of the hits a full re-trace whose result must equal the stored program (else INFRA: the cache is
    wrong) together with the fidelity / family / in-situ streams - still runs on the live operator."""

    def __init__(self, pkg, thorough):
        import hashlib
        import pickle
        import sys

        import jax
        import jaxlib
        import numpy

        h = hashlib.sha256()
        root = common.REPO / pkg
        for f in sorted(root.rglob("*.py")):
            h.update(f.relative_to(root).as_posix().encode())
            h.update(f.read_bytes())
        here = common.HARNESS_DIR if hasattr(common, "HARNESS_DIR") else __import__("pathlib").Path(__file__).resolve().parent
        for name in ("jaxpr_ir.py", "jaxpr_ops.py", "translate_jaxpr.py", "opgrid.py"):
            h.update((here / name).read_bytes())
        h.update(repr((jax.__version__, jaxlib.__version__, numpy.__version__, sys.version_info[:3])).encode())
        self.key = h.hexdigest()[:24]
        self.dir = common.LEAN_DIR / ".lake" / "c06-cache"
        self.dir.mkdir(parents=True, exist_ok=True)
        self.path = self.dir / f"{self.key}.pkl"
        self.pickle = pickle
        self.data = {}
        if self.path.exists():
            try:
                self.data = pickle.loads(self.path.read_bytes())
            except Exception:  # noqa: BLE001
                self.data = {}
        self.hits = self.misses = self.retraced = self.new = 0

    @staticmethod
    def rkey(cls, cfg, view):
        return json.dumps([cls, cfg, view], sort_keys=True, default=str)

    def get(self, cls, cfg, view):
        return self.data.get(self.rkey(cls, cfg, view))

    def put(self, cls, cfg, view, prog, how):
        k = self.rkey(cls, cfg, view)
        if k not in self.data:
            self.new += 1
        self.data[k] = {"nin": prog.nin, "eqns": prog.eqns, "outs": prog.outs, "folded": prog.folded, "inlined": prog.inlined, "unrolled": prog.unrolled,
                        "prims": prog.prims, "how": how}

    def annotate(self, cls, cfg, view, **kw):
        ent = self.data.get(self.rkey(cls, cfg, view))
        if ent is not None and any(ent.get(k) != v for k, v in kw.items()):
            ent.update(kw)
            self.new += 1

    def restore(self, ent):
        prog = ir.Prog(ent["nin"])
        prog.eqns, prog.outs = [tuple(e) for e in ent["eqns"]], list(ent["outs"])
        prog.folded, prog.inlined, prog.unrolled, prog.prims = ent["folded"], ent["inlined"], ent["unrolled"], dict(ent["prims"])
        return prog

    def save(self):
        if self.new:
            tmp = self.path.with_suffix(".tmp%d" % __import__("os").getpid())
            tmp.write_bytes(self.pickle.dumps(self.data))
            tmp.replace(self.path)
        for p in sorted(self.dir.glob("*.pkl"), key=lambda q: q.stat().st_mtime)[:-3]:  # keep the three most recent code states
            p.unlink()

    def stats(self):
        return {"key": self.key, "hits": self.hits, "retraced_and_equal": self.retraced, "misses": self.misses, "entries": len(self.data)}


def trace_view(A, view, fn, shp, dt):
    """-> (closed_jaxpr, how) ; falls back to the private `_adj` / `_eval` closures when the public entry point cannot
    be traced because of its argument checks (`how` records that)"""
    import jax.numpy as jnp

    leaves = [jnp.zeros(s, dt) for s in ops.leaf_shapes(shp)]
    try:
        return ir.trace(lambda *ls: fn(ops.pack(shp, ls)), leaves), "public"
    except Exception as e:  # noqa: BLE001
        first = e
    if view == "adj":
        if getattr(A, "_adj", None) is None:
            A._set_adjoint()
        return ir.trace(lambda *ls: A._adj(ops.pack(shp, ls)), leaves), f"private:_adj ({type(first).__name__})"
    if view == "eval":
        return ir.trace(lambda *ls: A._eval(ops.pack(shp, ls)), leaves), f"private:_eval ({type(first).__name__})"
    raise first


def choose_views(rng, thorough, extra_quick=1):
    if thorough:
        # whole grid: eval and adj always; gram and the six derived views for a seeded quarter of the configurations
        return list(ops.ALL_VIEWS) if rng.random() < 0.25 else ["eval", "adj"]
    extra = [v for v in ops.ALL_VIEWS if v not in ("eval", "adj")]
    sel = sorted(rng.choice(len(extra), size=extra_quick, replace=False).tolist())
    return ["eval", "adj"] + [extra[i] for i in sel]


def _nonint_shape(A):
    def flat(s):
        for e in s:
            if isinstance(e, (tuple, list)):
                yield from flat(e)
            else:
                yield e

    return any(not isinstance(e, (int, np.integer)) for e in list(flat(A.input_shape)) + list(flat(A.output_shape)))


def collect(rng, thorough, per_class, hist=None, known_ids=(), on_view=None, instances=None, on_program=None, cache=None, retrace=None):
    """Enumerate operators and views, trace and translate.
    -> (records, programs) ; programs: key -> dict(prog, field, tag, ok, pid, users).
    `on_view(rec, A, fn, shp, dt, phase)` is called for every view whose map could be obtained, before it is traced
    (`phase="before"`) and after it was translated (`"after"`): the numerical probes run there, while the operator is
    alive (operators are not retained, compiled executables are dropped regularly)."""
    import gc
    import warnings

    import jax

    warnings.filterwarnings("ignore")
    records = []
    programs = {}
    nops = 0

    def count(k):
        if hist is not None:
            hist[k] = hist.get(k, 0) + 1

    for cls, cfg, A in ops.enumerate_ops(rng, thorough, per_class):
        if isinstance(A, ops.NotPresentedAsLinear):
            count(f"not-presented-as-linear:{cls}")
            continue
        if isinstance(A, Exception):
            # a constructor that fails because a transpose (adjoint) cannot be derived means the forward map is not
            # structurally linear: that is C06's business (failing obligation); other constructor failures are not
            rel = bool(re.search(r"[Tt]ranspose|linear_transpose|not linear", repr(A)))
            records.append({"cls": cls, "config": cfg, "view": "eval", "status": "build-error", "relevant": rel, "detail": repr(A)[:300]})
            count(f"build-error:{cls}" + (":no-transpose" if rel else ""))
            continue
        fld = field_of(A)
        nops += 1
        if nops % 100 == 0:
            jax.clear_caches()
            gc.collect()
        want = choose_views(rng, thorough)
        if cls in ops.VIEWS_ONLY:
            want = [v for v in want if v in ops.VIEWS_ONLY[cls]]
        if not thorough and cls in ops.VIEWS_QUICK:
            want = [v for v in want if v in ops.VIEWS_QUICK[cls] or (v == "adj" and rng.random() < 1 / 3)]
        for view, fn, shp, dt in ops.views(A, want):
            rec = {"cls": cls, "config": cfg, "view": view, "field": fld}
            records.append(rec)
            if isinstance(fn, Exception):
                rec.update(status="view-error", detail=repr(fn)[:300])
                count(f"view-error:{cls}.{view}")
                continue
            rec["in_dtype"] = np.dtype(dt).name
            if on_view is not None:
                # the numerical probe comes first: the operator is used as a caller would use it before it is traced
                # (a map that depends on what it was applied to earlier then shows up in the probe and in the trace)
                on_view(rec, A, fn, shp, dt, "before")
            cached = cache.get(cls, cfg, view) if cache is not None else None
            draw = retrace() if retrace is not None else True  # (drawn for every record: the stream does not depend on the cache state)
            full = cached is None or draw
            rec["cache"] = "none" if cache is None else "miss" if cached is None else "retraced" if full else "hit"
            if not full:
                cache.hits += 1
                prog, how = cache.restore(cached), cached["how"]
                rec["in_family"] = cached.get("in_family")
                closed = None
            try:
                if full:
                    closed, how = trace_view(A, view, fn, shp, dt)
            except Exception as e:  # noqa: BLE001
                # does the map raise on a concrete array as well?  then it is not a tracing problem (and not C06's)
                try:
                    import jax.numpy as jnp

                    fn(ops.pack(shp, [jnp.zeros(s, dt) for s in ops.leaf_shapes(shp)]))
                    eager_ok = True
                except Exception:  # noqa: BLE001
                    eager_ok = False
                if eager_ok:
                    rec.update(status="trace-error", detail=f"{type(e).__name__}: {str(e)[:300]}")
                    count(f"trace-error:{cls}.{view}")
                    # known finding: Crop declares its output_shape as 0-d jax arrays, the shape check of `adj` then
                    # cannot be traced (the map itself is traced through the private `_adj` closure for view adj)
                    if type(e).__name__ == "TracerBoolConversionError" and "crop-adj-not-traceable" in known_ids:
                        rec["known_id"] = "crop-adj-not-traceable"
                else:
                    rec.update(status="operator-raises", detail=f"{type(e).__name__}: {str(e)[:300]}")
                    count(f"operator-raises:{cls}.{view}")
                if eager_ok and on_view is not None:
                    on_view(rec, A, fn, shp, dt, "after")
                continue
            rec["traced"] = how
            if how != "public":
                count(f"trace-fallback:{cls}.{view}")
            rec_insts = [] if instances is not None else None
            try:
                if full:
                    prog = ir.translate(closed, record=rec_insts, keep=on_program is not None)
                    if cached is not None:
                        # re-traced share: the stored translation must be what the code produces now
                        if cache.restore(cached).key() != prog.key():
                            raise common.Infra(f"translation cache {cache.key} is stale for {cls}.{view} {json.dumps(cfg, default=str)[:120]}: delete lean/.lake/c06-cache")
                        cache.retraced += 1
                    elif cache is not None:
                        cache.misses += 1
                        cache.put(cls, cfg, view, prog, how)
            except common.Infra:
                raise
            except Exception as e:  # noqa: BLE001  (NotTranslatable, or the translator itself failing on this program: a failing obligation, never a crash)
                prim = e.prim if isinstance(e, ir.NotTranslatable) else f"translator-exception:{type(e).__name__}"
                rec.update(status="not-translatable", prim=prim, detail=str(e)[:300])
                count(f"not-translatable:{prim}")
                if on_view is not None:
                    on_view(rec, A, fn, shp, dt, "after")
                continue
            if rec_insts:
                # primitive instances of this program (deduplicated over the whole run) for the table validation stream
                import jaxpr_table as tb

                for inst in rec_insts:
                    sig = tb.signature(inst)
                    if sig not in instances:
                        inst["user"] = f"{cls}.{view}"
                        instances[sig] = inst
                    instances[sig]["uses"] = instances[sig].get("uses", 0) + 1
            tag = ir.check(prog)
            key = (prog.key(), fld)
            ent = programs.get(key)
            if ent is None:
                h = hashlib.sha256(repr(key).encode()).hexdigest()
                ent = programs[key] = {"prog": prog, "field": fld, "tag": tag, "ok": acceptable(tag, fld), "hash": h, "users": []}
            ent["users"].append(len(records) - 1)
            rec.update(status="ok", tag=ir.tag_str(tag), ok=ent["ok"], neqns=len(prog.eqns), folded=prog.folded, phash=ent["hash"][:12])
            count(f"view:{view}")
            count(f"tag:{ir.tag_str(tag)}")
            count(f"field:{fld}")
            count("eqns:" + ("<=10" if len(prog.eqns) <= 10 else "<=40" if len(prog.eqns) <= 40 else "<=100" if len(prog.eqns) <= 100 else ">100"))
            if len(ent["users"]) == 1:
                for pn, k in prog.prims.items():
                    count(f"prim:{pn}", )
            if on_view is not None:
                on_view(rec, A, fn, shp, dt, "after")
            if on_program is not None:
                # fidelity of the translation: run the emitted IR with the real primitives against the operator itself
                on_program(rec, prog, fn, shp, dt)
                prog.exec = None
    jax.clear_caches()
    gc.collect()
    return records, programs


def op_key(cls, cfg):
    return json.dumps([cls, cfg], sort_keys=True, default=str)


def _desc(rec):
    return f"{rec['cls']}.{rec['view']} {json.dumps(rec['config'], default=str)[:160]}"


def emit(records, programs, nbuckets):
    """write the generated modules; returns [(module, description)], index {module: [entries]}"""
    GEN_DIR.mkdir(parents=True, exist_ok=True)
    buckets = {b: [] for b in range(nbuckets)}
    for key, ent in programs.items():
        buckets[int(ent["hash"][:8], 16) % nbuckets].append(ent)
    failures = [r for r in records if (r["status"] in ("not-translatable", "trace-error", "not-constructible") or (r["status"] == "build-error" and r.get("relevant"))) and not r.get("known_id")]
    for r in failures:
        h = hashlib.sha256(json.dumps([r["cls"], r["config"], r["view"], r["status"]], default=str, sort_keys=True).encode()).hexdigest()
        buckets[int(h[:8], 16) % nbuckets].append({"failure": r, "hash": h})
    table = sorted(ir.prim_table().items(), key=lambda kv: kv[1])
    out, index, written = [], {}, set()
    for b in range(nbuckets):
        ents = sorted(buckets[b], key=lambda e: e["hash"])
        if not ents:
            continue
        mod = f"Scico.Generated.{MOD_PREFIX}{b:02d}"
        lines = [
            "/- GENERATED by harness/translate_jaxpr.py from the working tree of the code under test - do not edit.",
            "   Traced programs (jaxprs) of linear operators and the structural linearity obligation on each (C06). -/",
            "import Scico.Model.Jaxpr",
            f"namespace Scico.Generated.{MOD_PREFIX}{b:02d}",
            "open Scico.Jaxpr",
            "",
        ]
        entries = []
        nprog = 0
        for e in ents:
            if "failure" in e:
                r = e["failure"]
                what = r.get("prim") or r["status"]
                msg = f"not translatable ({what}): {_desc(r)}: {r.get('detail', '')}".replace('"', "'").replace("\\", "/")[:400]
                lines.append(f"-- {msg}")
                lines.append(f'example : ("not translatable: {what}" : String) = "" := by decide')
                lines.append("")
                entries.append({"kind": "failure", "record": r})
                continue
            prog = e["prog"]
            name = f"p_{e['hash'][:10]}"
            users = [records[i] for i in e["users"]]
            ucls = sorted({f"{u['cls']}.{u['view']}" for u in users})
            lines.append(f"/-- {len(users)} use(s): {', '.join(ucls)[:300]} ; field {e['field']} ; {len(prog.eqns)} equations -/")
            lines.append(f"def {name} : Prog := {ir.lean_prog(prog)}")
            want = e["tag"] if e["ok"] else "linC"
            if not e["ok"]:
                lines.append(f"-- the checker's verdict is {ir.tag_str(e['tag'])}: first rejected equation {ir.first_bad(prog)}")
            lines.append(f"example : checkFast {name} = {ir.tag_lean(want)} := by decide +kernel")
            lines.append("")
            nprog += 1
            entries.append({"kind": "program", "name": name, "ok": e["ok"], "tag": ir.tag_str(e["tag"]), "users": e["users"], "hash": e["hash"]})
        lines.append(f"end Scico.Generated.{MOD_PREFIX}{b:02d}")
        # primitive table as a trailing comment (ids are the `prim` field of the equations)
        used = sorted({p for e in ents if "prog" in e for p in e["prog"].prims})
        lines.append("/- primitive ids: " + ", ".join(f"{ir.prim_index(p)}={p}" for p in used) + " -/")
        text = "\n".join(lines) + "\n"
        path = GEN_DIR / f"{MOD_PREFIX}{b:02d}.lean"
        if not path.exists() or path.read_text() != text:
            path.write_text(text)
        written.add(path.name)
        nbad = sum(1 for en in entries if en["kind"] == "failure" or not en["ok"])
        out.append((mod, f"{nprog} traced programs, {sum(len(en.get('users', [])) for en in entries)} operator views" + (f", {nbad} EXPECTED TO FAIL" if nbad else "")))
        index[mod] = entries
    # remove stale modules of earlier runs (a clean `lake build Scico` must see exactly the current set)
    for p in GEN_DIR.glob(f"{MOD_PREFIX}*.lean"):
        if p.name not in written:
            p.unlink()
    del table
    return out, index


def generate(rng, thorough, per_class, nbuckets, hist=None, known_ids=(), on_view=None, instances=None, on_program=None, cache=None, retrace=None):
    t0 = time.time()
    records, programs = collect(rng, thorough, per_class, hist, known_ids, on_view, instances, on_program, cache, retrace)
    if cache is not None:
        cache.save()
    # every class must contribute at least one translated forward program and one translated adjoint: a class whose
    # operators cannot be constructed / traced at all gets a failing obligation (never silently absent)
    have = {}
    for r in records:
        if r.get("status") == "ok":
            have.setdefault(r["cls"], set()).add(r["view"])
    for c in ops.all_classes():
        if c in ops.OPTIONAL_CLASSES:
            continue
        if not {"eval", "adj"} <= have.get(c, set()):
            first = next((r for r in records if r["cls"] == c and r["status"] != "ok"), None)
            if first is not None and first["status"] == "build-error" and first.get("relevant"):
                continue  # already a failing obligation
            records.append({"cls": c, "config": first["config"] if first else None, "view": "eval", "status": "not-constructible",
                            "detail": f"no translated eval+adj program for class {c}: " + (first.get("detail", "") if first else "no configuration")})
    t1 = time.time()
    mods, index = emit(records, programs, nbuckets)
    # build all modules at once (lake elaborates them in parallel); the runner's per-module builds are then no-ops
    ok, log = common.lake_build([m for m, _ in mods])
    stats = {
        "records": len(records),
        "unique_programs": len(programs),
        "modules": len(mods),
        "max_eqns": max([len(e["prog"].eqns) for e in programs.values()] or [0]),
        "unrolled_control_flow": sum(e["prog"].unrolled for e in programs.values()),
        "inlined_calls": sum(e["prog"].inlined for e in programs.values()),
        "folded_equations": sum(e["prog"].folded for e in programs.values()),
        "trace_s": round(t1 - t0, 1),
        "lean_s": round(time.time() - t1, 1),
        "all_built": ok,
    }
    return records, programs, mods, index, stats
