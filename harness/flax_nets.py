"""Helpers of the C20 adapter (engine Flax): tiny networks, train states, variable trees.

Everything here runs the real flax / optax / orbax code; nothing is imported at module import time
(call `common.setup_scico()` first).
"""

from __future__ import annotations

import numpy as np


def custom_nets():
    """small flax modules whose output shape differs from the input shape in a controlled way;
    returns list of (name, module, variables)"""
    import jax.numpy as jnp
    from flax import linen as nn

    class Ident(nn.Module):
        @nn.compact
        def __call__(self, x, train=True):
            return x * 2.0 + 1.0

    class Chan(nn.Module):  # multiplies the number of channels
        c: int = 2

        @nn.compact
        def __call__(self, x, train=True):
            return jnp.concatenate([x + i for i in range(self.c)], axis=-1)

    class Batch(nn.Module):  # multiplies the batch size
        k: int = 2

        @nn.compact
        def __call__(self, x, train=True):
            return jnp.concatenate([x - i for i in range(self.k)], axis=0)

    class Flat(nn.Module):  # rank-changing: (K, ...) -> (K, prod)
        @nn.compact
        def __call__(self, x, train=True):
            return x.reshape((x.shape[0], -1)) * 3.0

    class Pool(nn.Module):  # spatial size changes, rank preserved
        @nn.compact
        def __call__(self, x, train=True):
            return x[:, ::2, ::2, :] if x.ndim == 4 else x

    class ChanSum(nn.Module):  # reduces channels to one
        @nn.compact
        def __call__(self, x, train=True):
            return x.sum(axis=-1, keepdims=True)

    return [
        ("Ident", Ident(), {}),
        ("Chan2", Chan(2), {}),
        ("Chan1", Chan(1), {}),
        ("Batch2", Batch(2), {}),
        ("Flat", Flat(), {}),
        ("Pool", Pool(), {}),
        ("ChanSum", ChanSum(), {}),
    ]


def shipped_nets(dtype, channels, rng):
    """every architecture of scico/flax/_models.py at tiny size, with initialised variables whose batch
    statistics are perturbed (so batch-norm is not the identity); list of (name, module, variables)"""
    import jax
    import jax.numpy as jnp
    from scico import flax as sflax

    out = []
    specs = [
        ("DnCNNNet", sflax.DnCNNNet, dict(depth=3, channels=channels, num_filters=2)),
        ("ResNet", sflax.ResNet, dict(depth=2, channels=channels, num_filters=2)),
        ("ConvBNNet", sflax.ConvBNNet, dict(depth=2, channels=channels, num_filters=2)),
        ("UNet", sflax.UNet, dict(depth=2, channels=channels, num_filters=2)),
    ]
    if channels == 1:
        # the two architectures that wrap a forward operator (scico/flax/inverse.py); the operator fixes H x W = 4 x 6.
        # MoDLNet maps the operator over the batch axis (operator on one (H,W,C) item), ODPNet applies it to the whole
        # batch (operator on the (1,H,W,C) array: a batch of two is rejected by the network itself)
        from scico import linop

        dg = np.linspace(0.5, 1.5, 24)
        specs += [
            ("MoDLNet", sflax.MoDLNet, dict(operator=linop.Diagonal(jnp.asarray(dg.reshape(4, 6, 1), dtype=dtype)), depth=1, channels=1,
                                           num_filters=2, block_depth=2, cg_iter=3)),
            ("ODPNet", sflax.ODPNet, dict(operator=linop.Diagonal(jnp.asarray(dg.reshape(1, 4, 6, 1), dtype=dtype)), depth=1, channels=1,
                                         num_filters=2, block_depth=2)),
        ]
    for name, cls, kw in specs:
        m = cls(dtype=dtype, **kw)
        key = jax.random.PRNGKey(int(rng.integers(0, 2**31 - 1)))
        v = m.init({"params": key}, jnp.ones((1, 4, 6, channels) if name in ("MoDLNet", "ODPNet") else (1, 4, 4, channels), dtype), train=False)
        v = jax.tree_util.tree_map(lambda a: a, dict(v))
        if "batch_stats" in v:
            leaves, treedef = jax.tree_util.tree_flatten(v["batch_stats"])
            leaves = [l + jnp.asarray(np.abs(rng.integers(1, 5, size=l.shape)) / 8.0, dtype=l.dtype) for l in leaves]
            v["batch_stats"] = jax.tree_util.tree_unflatten(treedef, leaves)
        out.append((name, m, v))
    return out


def make_state(step, tag, opt="SGDM"):
    """a TrainState whose every leaf is a function of `tag` (so states are distinguishable)"""
    import jax.numpy as jnp
    import optax
    from scico.flax.train.state import TrainState

    tx = {"SGD": optax.sgd(0.1), "SGDM": optax.sgd(0.1, momentum=0.9, nesterov=True), "ADAM": optax.adam(0.01)}[opt]
    params = {"conv": {"kernel": jnp.full((2, 3), float(tag)), "bias": jnp.arange(3.0) + tag}, "w": jnp.full((1,), tag + 0.25)}
    st = TrainState.create(apply_fn=None, params=params, tx=tx, batch_stats={"bn": {"mean": jnp.full((2,), tag + 0.5)}})
    # make the optimiser state depend on the tag as well
    import jax

    st = st.replace(step=step, opt_state=jax.tree_util.tree_map(lambda a: a + tag if hasattr(a, "dtype") and a.dtype.kind == "f" else a, st.opt_state))
    return st


def tree_equal(a, b):
    """identical pytrees: same structure, same dtypes/shapes, bit-identical values"""
    import jax

    la, ta = jax.tree_util.tree_flatten(a)
    lb, tb = jax.tree_util.tree_flatten(b)
    if ta != tb or len(la) != len(lb):
        return False
    for x, y in zip(la, lb):
        x = np.asarray(x)
        y = np.asarray(y)
        if x.dtype != y.dtype or x.shape != y.shape or not np.array_equal(x, y, equal_nan=True):
            return False
    return True


def state_tag(st):
    """recover the tag a state was built with"""
    return float(np.asarray(st.params["w"])[0]) - 0.25


def random_var_tree(rng, with_params=True, with_bs=True, extra=False):
    import jax.numpy as jnp

    dts = [np.float32, np.float64, np.complex64, np.int32]

    def leaf():
        dt = dts[int(rng.integers(0, len(dts)))]
        shp = tuple(int(s) for s in rng.integers(1, 4, size=int(rng.integers(0, 3))))
        a = rng.integers(-64, 64, size=shp).astype(np.float64) / 8.0
        if dt is np.complex64:
            a = a + 1j * rng.integers(-8, 8, size=shp)
        return jnp.asarray(a.astype(dt))

    def sub(depth):
        d = {}
        for i in range(int(rng.integers(1, 4))):
            nm = f"k{i}_{int(rng.integers(0, 100))}"
            d[nm] = sub(depth - 1) if depth > 0 and rng.random() < 0.4 else leaf()
        return d

    v = {}
    if with_params:
        v["params"] = sub(2)
    if with_bs:
        v["batch_stats"] = sub(1)
    if extra:
        v["cache"] = sub(0)
    return v
