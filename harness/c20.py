"""C20 - learned-model support: application (FlaxMap), data iteration (IterateData), persistence
(save/load_variables, orbax checkpoints, trainer resume offset).

The Lean model (`Scico.Model.Flax`) is compared with the real code:
  * IterateData: exhaustive over small (n, b), both modes, several epochs, three paired arrays, explicit and
    default key; the per-epoch permutations are recomputed with jax.random along the split chain;
  * FlaxMap: every architecture of scico/flax/_models.py and shape-changing toy networks, ranks 1..5,
    against explicit application to the canonical 4-D array;
  * checkpoints: real orbax manager in a temporary directory, random save/restore sequences;
  * trainer: real BasicFlaxTrainer runs (tiny), executed step numbers and checkpoint directory;
  * variables: msgpack round trip of random variable trees.
"""

from __future__ import annotations

import json
import os
import shutil
import tempfile
import warnings
from pathlib import Path

import numpy as np

import common
from common import ModelErr

PROP = "C20"
CLAIMED = True
ENGINE = "Flax"
DESIGN_REF = "DESIGN.md §5.13"
TECHNIQUE = (
    "Lean 4 proof (list/permutation lemmas, state-machine invariants by induction over call sequences) + "
    "differential correspondence with the real flax/orbax-backed code (exhaustive small scope for the iterator)"
)
LEVEL_TEXT = (
    "Lean theorems about an executable model of FlaxMap.__call__, IterateData, checkpoint_save/restore and the trainer "
    "loop: axis insertion/removal equals the specification for every rank-preserving network; one epoch's batches are "
    "disjoint, without replacement, cover floor(n/b)*b samples, keys paired (given jax.random.permutation is a "
    "permutation); any number of epochs is a closed-form function of (key,n,b,mode,t); evaluation order; "
    "checkpoint manager: any save sequence, restore = latest, missing handled as documented; resume offset; trainer "
    "bookkeeping: any chain of runs executes every step exactly once (any targets, any max_to_keep), which batch each step "
    "consumes, number of evaluation batches in closed form, repeated train(), no restore with variables0 / without checkpointing."
)
LEVEL_NOTE = (
    "partial: network numerics, msgpack/orbax serialisation and the file system are contracts (atomic save, "
    "restore(serialize(t)) = t), exercised by the tie only; crash during save / partial checkpoints are outside. "
    "The model is tied to the code by differential testing: exhaustive for the iterator with n<=9 (quick) / n<=12 "
    "(thorough), sampled elsewhere."
)
PROP_MODULES = ["Scico.Props.C20"]
EXTRA_TARGETS = ["Drv.Flax"]
DRIVER = "Flax"
FILES = [
    "scico/flax/_flax.py",
    "scico/flax/_models.py",
    "scico/flax/blocks.py",
    "scico/flax/train/checkpoints.py",
    "scico/flax/train/input_pipeline.py",
    "scico/flax/train/state.py",
    "scico/flax/train/trainer.py",
]
RULE = (
    "iter: every (n<=N, 0<=b<=n+1, train|eval) + random larger sizes, t = 2*floor(n/b)+2 next-calls; non-trivial when "
    "at least one epoch boundary is crossed (floor(n/b)>=1), distinct by (n,b,mode,key kind). flaxmap: (network, "
    "input shape); non-trivial when an axis is added (rank 2/3) or the network changes the shape. ckpt: random "
    "save/restore sequences, distinct by the op list; non-trivial when >=2 saves (+ other max_to_keep values through the scico "
    "code path). train: (n,b,epochs,spc) chains. session: named trainer configurations (resume+log+second train(), variables0, "
    "no checkpointing, zero periods, batch>n, defaults), every step's delivered rows observed. "
    "vars: random trees, non-trivial when both collections are present."
)
ASSUMPTIONS = [
    "jax.random.permutation(key, n) returns a permutation of range(n) (hypothesis of C20_epoch_batches; checked on every case)",
    "flax.serialization.msgpack_restore(msgpack_serialize(t)) == t for variable trees (hypothesis of C20_variables_roundtrip; exercised)",
    "orbax CheckpointManager.save/restore of one step is atomic and returns the saved tree; steps not larger than the latest are skipped (modelled, exercised)",
    "the network (model.apply) is an arbitrary function of the canonical array; its numerics are not modelled",
    "prepare_data / prefetch_to_device deliver the iterator's batches unchanged and in order on one device (exercised by the session stream)",
]

KNOWN_EMPTY = "ckpt-restore-empty-dir"

warnings.simplefilter("ignore")


# ----------------------------------------------------------------------------------------------
# IterateData


def _iter_data(n, use_jnp):
    img = np.arange(n, dtype=np.float32).reshape((n, 1, 1, 1)) if n > 0 else np.zeros((0, 1, 1, 1), np.float32)
    lab = (7 * np.arange(n, dtype=np.float32) + 3).reshape((n, 1, 1, 1))
    aux = np.stack([np.arange(n), 100 + np.arange(n)], axis=1).astype(np.int32) if n > 0 else np.zeros((0, 2), np.int32)
    dt = {"image": img, "label": lab, "aux": aux}
    if use_jnp:
        import jax.numpy as jnp

        dt = {k: jnp.asarray(v) for k, v in dt.items()}
    return dt


def _chain(key, n, epochs):
    """direct jax.random along the split chain: (keys after e resets, permutation of epoch e)"""
    import jax

    keys = [key]
    perms = []
    k = key
    for _ in range(epochs):
        k, sub = jax.random.split(k)
        keys.append(k)
        perms.append([int(i) for i in np.asarray(jax.random.permutation(sub, n))])
    return keys, perms


def _impl_iter(n, b, train, key, t, use_jnp):
    """run the real iterator; returns dict(err0, rows, err, spe, ns, key, pairing_ok)"""
    from scico.flax.train.input_pipeline import IterateData

    dt = _iter_data(n, use_jnp)
    try:
        it = IterateData(dt, b, train, key)
    except Exception as e:  # noqa: BLE001
        return {"err0": common.err_kind(e)}
    rows, err, pairing = [], None, True
    for _ in range(t):
        try:
            batch = next(it)
        except Exception as e:  # noqa: BLE001
            err = common.err_kind(e)
            break
        r = [int(v) for v in np.asarray(batch["image"]).ravel()]
        rows.append(r)
        lab = np.asarray(batch["label"]).ravel()
        aux = np.asarray(batch["aux"])
        if set(batch.keys()) != {"image", "label", "aux"}:
            pairing = False
        if not (np.array_equal(lab, 7.0 * np.asarray(r, dtype=np.float32) + 3) and np.array_equal(aux[:, 0], r) and np.array_equal(aux[:, 1], 100 + np.asarray(r))):
            pairing = False
    return {"err0": None, "rows": rows, "err": err, "spe": int(it.steps_per_epoch), "ns": int(it.ns), "key": np.asarray(it.key), "pairing": pairing}


def _oracle_iter(case):
    """the property itself on the implementation: per epoch disjoint / without replacement / covers floor(n/b)*b
    distinct valid rows / pairing; deterministic for a given key; evaluation order preserved"""
    import jax

    n, b, train = case["n"], case["b"], case["train"]
    if b < 1 or b > n:
        return None
    key = None if case.get("seed") is None else jax.random.PRNGKey(case["seed"])
    spe = n // b
    t = 3 * spe
    a = _impl_iter(n, b, train, key, t, case.get("jnp", True))
    a2 = _impl_iter(n, b, train, key, t, case.get("jnp", True))
    if a.get("err0") or a.get("err"):
        return {"n": n, "b": b, "train": train, "raised": a.get("err0") or a.get("err")}
    if not a["pairing"]:
        return {"n": n, "b": b, "train": train, "what": "image/label/aux rows of a batch are not the same rows", "rows": a["rows"]}
    if a["rows"] != a2["rows"]:
        return {"n": n, "b": b, "train": train, "what": "two iterators with the same key differ", "rows": a["rows"], "rows2": a2["rows"]}
    for e in range(3):
        ep = a["rows"][e * spe : (e + 1) * spe]
        flat = [i for r in ep for i in r]
        if any(len(r) != b for r in ep) or len(set(flat)) != spe * b or any(i < 0 or i >= n for i in flat):
            return {"n": n, "b": b, "train": train, "epoch": e, "what": "epoch batches not disjoint / wrong coverage", "batches": ep}
        if not train and flat != list(range(spe * b)):
            return {"n": n, "b": b, "train": train, "epoch": e, "what": "evaluation order not preserved", "batches": ep}
    return None


def _iter_case(ctx, model, n, b, train, seed, use_jnp, t=None):
    import jax

    key = None if seed is None else jax.random.PRNGKey(seed)
    spe = n // b if b > 0 else 0
    if t is None:
        t = 2 * spe + 2
    case = {"kind": "iter", "n": n, "b": b, "train": train, "seed": seed, "jnp": use_jnp, "t": t}
    key0 = jax.random.PRNGKey(0) if key is None else key
    epochs = (t // spe + 2) if spe > 0 else 2
    keys, perms = _chain(key0, n, epochs) if train else ([key0], [])
    for p in perms:
        if sorted(p) != list(range(n)):
            ctx.disagree("flax.contract.permutation", case, p, "permutation of range(n)")
    impl = _impl_iter(n, b, train, key, t, use_jnp)
    try:
        m = model.call("iter", n=n, b=b, train=train, t=t, perms=perms)
        merr0 = None
    except ModelErr as e:
        m, merr0 = None, e.kind
    nt = None
    if spe >= 1:
        nt = ("iter", n, b, train, seed is None)
    ctx.case(case, nt)
    ctx.count(f"iter:{'train' if train else 'eval'}")
    ctx.count("iter:b|n" if (b > 0 and n % b == 0) else ("iter:b=0" if b == 0 else ("iter:b>n" if b > n else "iter:incomplete-last-batch")))
    if impl["err0"] is not None or merr0 is not None:
        ctx.count(f"iter:init-err:{impl['err0']}")
        if impl["err0"] != merr0:
            ctx.disagree("flax.iter.init", case, impl["err0"], merr0, oracle=_oracle_iter)
        return
    cmp_impl = {"rows": impl["rows"], "err": impl["err"], "spe": impl["spe"], "ns": impl["ns"]}
    cmp_model = {"rows": m["rows"], "err": m["err"], "spe": m["spe"], "ns": m["ns"]}
    if impl["err"]:
        ctx.count(f"iter:next-err:{impl['err']}")
    if cmp_impl != cmp_model:
        ctx.disagree("flax.iter.next", case, cmp_impl, cmp_model, oracle=_oracle_iter)
        return
    if not impl["pairing"]:
        ctx.disagree("flax.iter.pairing", case, "rows differ between keys of the batch", "same rows for every key", oracle=_oracle_iter)
        return
    if impl["err"]:
        return  # state after a raised IndexError is not compared (the model's `next` returns no state on error)
    # the iterator's key must be the chain key after `splits` resets
    want_key = np.asarray(keys[m["splits"]]) if m["splits"] < len(keys) else None
    if want_key is None or not np.array_equal(impl["key"], want_key):
        ctx.disagree("flax.iter.key", case, impl["key"].tolist(), None if want_key is None else want_key.tolist(), oracle=_oracle_iter)
        return
    # spec = state machine (theorem C20_epochs) - also checked on the concrete case
    if spe >= 1:
        sp = model.call("specbatch", n=n, b=b, train=train, t=t, perms=perms)
        if sp != m["rows"]:
            raise common.Infra(f"model state machine and specBatch differ on {case}")


def _corr_iter(ctx, model):
    N = ctx.n(9, 12)
    ctx.extra["iter_grid"] = {"n_max": N, "b": "0..n+1", "modes": ["train", "eval"], "exhaustive": True}
    for n in range(0, N + 1):
        for b in range(0, n + 2):
            for train in (True, False):
                seed = int(ctx.rng.integers(0, 2**31 - 1))
                _iter_case(ctx, model, n, b, train, seed, use_jnp=bool((n + b) % 2))
    # default key (key=None -> PRNGKey(0)), and larger random sizes
    for n, b in [(5, 2), (6, 3), (4, 4)]:
        _iter_case(ctx, model, n, b, True, None, use_jnp=True)
    for _ in range(ctx.n(10, 60)):
        n = int(ctx.rng.integers(13, 80))
        b = int(ctx.rng.integers(1, n + 2))
        if ctx.rng.random() < 0.5:
            b = int(ctx.rng.integers(1, max(2, n // 4)))
        _iter_case(ctx, model, n, b, bool(ctx.rng.integers(0, 2)), int(ctx.rng.integers(0, 2**31 - 1)), use_jnp=True,
                   t=min(3 * (n // b) + 1, 40) if b <= n else 1)


# ----------------------------------------------------------------------------------------------
# FlaxMap


def _oracle_flaxmap(nets):
    def oracle(case):
        import jax.numpy as jnp
        from scico.flax import FlaxMap

        name, m, v = nets[case["net"]]
        x = jnp.asarray(np.asarray(case["x"], dtype=case["dtype"]).reshape(case["xshape"]))
        added = {2: (0, 3), 3: (0,)}.get(x.ndim, ())
        cshape = list(x.shape)
        for a in added:
            cshape.insert(a, 1)
        try:
            y4 = np.asarray(m.apply(v, x.reshape(cshape), train=False, mutable=False))
        except Exception:  # noqa: BLE001
            return None
        if y4.ndim != 4 or x.ndim not in (2, 3, 4):
            return None  # the property speaks about rank-preserving networks on rank 2/3/4 input
        if any(y4.shape[a] != 1 for a in added):
            want = "error"
        else:
            want = np.squeeze(y4, axis=added) if added else y4
        try:
            got = np.asarray(FlaxMap(m, v)(x))
        except Exception as e:  # noqa: BLE001
            got = "error"
            if isinstance(want, str):
                return None
            return {"net": name, "xshape": case["xshape"], "raised": repr(e)[:200], "expected_shape": list(want.shape)}
        if isinstance(want, str):
            return {"net": name, "xshape": case["xshape"], "returned_shape": list(got.shape), "expected": "rejection (added axis is not a singleton in the result)"}
        if got.shape != want.shape or not np.array_equal(got, want, equal_nan=True):
            return {"net": name, "xshape": case["xshape"], "returned_shape": list(got.shape), "expected_shape": list(want.shape),
                    "max_abs_diff": float(np.max(np.abs(got - want))) if got.shape == want.shape else None}
        return None

    return oracle


def _flaxmap_case(ctx, model, nets, key, x, oracle):
    from scico.flax import FlaxMap

    name, m, v = nets[key]
    xs = [int(s) for s in x.shape]
    case = {"kind": "flaxmap", "net": key, "xshape": xs, "dtype": str(x.dtype), "x": np.asarray(x).ravel().tolist()}
    pre = model.call("flaxmap.pre", xshape=xs)
    net_err = None
    try:
        y4 = np.asarray(m.apply(v, x.reshape(pre["shape"]), train=False, mutable=False))
    except Exception as e:  # noqa: BLE001
        net_err = type(e).__name__
    try:
        got = np.asarray(FlaxMap(m, v)(x))
        impl = ("ok", list(got.shape), str(got.dtype))
    except Exception as e:  # noqa: BLE001
        got = None
        impl = ("err", type(e).__name__ if net_err else common.err_kind(e))
    ctx.count(f"flaxmap:rank{x.ndim}")
    ctx.count(f"flaxmap:net:{name}")
    if net_err is not None:
        # the network itself rejects the canonical array (e.g. channel mismatch): the wrapper must propagate it
        ctx.case(case, None)
        ctx.count("flaxmap:network-rejects-canonical-input")
        if impl != ("err", net_err):
            def net_oracle(c, impl=impl, net_err=net_err, cshape=pre["shape"]):
                if impl[0] == "ok":
                    return {"net": c["net"], "xshape": c["xshape"], "canonical_shape": cshape, "network_on_canonical_array": net_err,
                            "wrapper_returned_shape": impl[1],
                            "what": "the network rejects the canonical 4-D array, yet the wrapper returned a result (it applied the network to something else)"}
                return None

            ctx.disagree("flax.flaxmap.net-error", case, list(impl), ["err", net_err], oracle=net_oracle)
        return
    try:
        mres = model.call("flaxmap", xshape=xs, yshape=[int(s) for s in y4.shape], n=int(y4.size))
        mm = ("ok", mres["shape"], str(y4.dtype))
    except ModelErr as e:
        mres = None
        mm = ("err", e.kind)
    changed = list(y4.shape) != pre["shape"]
    ctx.case(case, ("flaxmap", name, tuple(xs)) if (x.ndim in (2, 3) or changed) else None)
    if mm[0] == "err":
        ctx.count(f"flaxmap:err:{mm[1]}")
    if impl != mm:
        ctx.disagree("flax.flaxmap.shape", case, list(impl), list(mm), oracle=oracle)
        return
    if mres is not None:
        want = y4.ravel()[np.asarray(mres["data"], dtype=np.int64)] if y4.size else y4.ravel()
        if not np.array_equal(got.ravel(), want, equal_nan=True):
            ctx.disagree("flax.flaxmap.data", case, "values differ from the explicit 4-D application", "identical data", oracle=oracle)


def _corr_flaxmap(ctx, model):
    import jax.numpy as jnp
    import flax_nets
    from scico.flax import FlaxMap
    from scico.numpy import BlockArray

    nets = {}
    for dt, ch in [(jnp.float32, 1), (jnp.float64, 2)] + ([(jnp.float64, 1), (jnp.float32, 3)] if ctx.thorough else []):
        for name, m, v in flax_nets.shipped_nets(dt, ch, ctx.rng):
            nets[f"{name}/{np.dtype(dt).name}/c{ch}"] = (name, m, v)
    for name, m, v in flax_nets.custom_nets():
        nets[name] = (name, m, v)
    oracle = _oracle_flaxmap(nets)
    ctx.extra["flaxmap_nets"] = sorted(nets)

    def rnd(shape, dtype):
        return jnp.asarray(common.dyadic(ctx.rng, shape, bits=3, scale=2.0).astype(dtype))

    for key, (name, m, v) in nets.items():
        if "/" in key:  # shipped architecture
            dt = np.dtype(key.split("/")[1])
            ch = int(key.split("/c")[1])
            H, W = (4, 6) if ctx.rng.random() < 0.5 else (6, 4)
            if name in ("MoDLNet", "ODPNet"):
                H, W = 4, 6  # fixed by the forward operator inside the network
            shapes = [(H, W), (H, W, ch), (1, H, W, ch), (2, H, W, ch), (4, 4, ch)]
            if ch == 1:
                shapes.append((4, 4))
            # rank 3 is ALWAYS (H, W, C): a last axis that is not the channel count of the network must be rejected by the
            # network (channel mismatch), never re-interpreted as a batch of images
            shapes += [(5, 4, 6), (3, 4, 4 + ch)]
            for shp in shapes:
                _flaxmap_case(ctx, model, nets, key, rnd(shp, dt), oracle)
        else:
            shapes = [(3,), (1,), (4, 5), (1, 1), (2, 1), (4, 5, 2), (1, 5, 1), (4, 5, 1), (2, 4, 5, 1), (1, 4, 1, 1), (1, 4, 6, 3),
                      (1, 1, 2, 3, 1), (2, 2, 2, 2, 2), (3, 4, 6), (1, 2, 9), (2, 1, 5), (7, 1, 1)]
            for shp in shapes:
                _flaxmap_case(ctx, model, nets, key, rnd(shp, np.float64), oracle)
    # block arrays are rejected
    name, m, v = nets["Ident"]
    try:
        FlaxMap(m, v)(BlockArray([jnp.ones((2, 2)), jnp.ones((3,))]))
        impl = "ok"
    except Exception as e:  # noqa: BLE001
        impl = common.err_kind(e)
    try:
        model.call("flaxmap.block")
        mk = "ok"
    except ModelErr as e:
        mk = e.kind
    ctx.case({"kind": "flaxmap.block"}, None)
    if impl != mk:
        ctx.disagree("flax.flaxmap.block", {"kind": "flaxmap.block"}, impl, mk)


# ----------------------------------------------------------------------------------------------
# checkpoints


def _listing(wd):
    if not os.path.exists(wd):
        return None
    return sorted(int(p) for p in os.listdir(wd) if p.isdigit())


def _run_ckpt_impl(ops, exists, as_path):
    """execute a save/restore sequence on real orbax in a temporary directory; returns list of results"""
    import flax_nets
    from scico.flax.train.checkpoints import checkpoint_restore, checkpoint_save

    tmp = tempfile.mkdtemp(prefix="verif_c20_")
    out = []
    saved = {}
    try:
        wd = os.path.join(tmp, "ck")
        if exists:
            os.makedirs(wd)
        wdarg = Path(wd) if as_path else wd
        for o in ops:
            if o["k"] == "save":
                st = flax_nets.make_state(o["step"], o["tag"], o.get("opt", "SGDM"))
                saved[o["tag"]] = st
                try:
                    checkpoint_save(st, {"seed": 1, "opt_type": "SGD", "post_lst": [1, 2]}, wdarg)
                    out.append({"dir": _listing(wd)})
                except Exception as e:  # noqa: BLE001
                    out.append({"err": common.err_kind(e), "dir": _listing(wd)})
            else:
                cur = flax_nets.make_state(0, o["cur"], o.get("opt", "SGDM"))
                try:
                    r = checkpoint_restore(cur, wdarg, ok_no_ckpt=o["ok"])
                    tag = int(round(flax_nets.state_tag(r)))
                    ref = saved.get(tag, cur)
                    ident = flax_nets.tree_equal(
                        (int(r.step), r.params, r.opt_state, r.batch_stats), (int(ref.step), ref.params, ref.opt_state, ref.batch_stats)
                    )
                    out.append({"tag": tag, "identical": ident, "type": type(r).__name__})
                except Exception as e:  # noqa: BLE001
                    out.append({"err": common.err_kind(e)})
    finally:
        shutil.rmtree(tmp, ignore_errors=True)
    return out


def _oracle_ckpt(case):
    """property on the implementation: restore returns the most recent (largest-step) save, identical;
    missing checkpoint handled as documented"""
    ops, exists = case["ops"], case["exists"]
    res = _run_ckpt_impl(ops, exists, case.get("as_path", False))
    best = None  # (step, tag) of the accepted latest save
    for o, r in zip(ops, res):
        if o["k"] == "save":
            if "err" in r:
                return {"ops": ops, "exists": exists, "what": "checkpoint_save raised", "result": r}
            if best is None or o["step"] > best[0]:
                best = (o["step"], o["tag"])
        else:
            if best is None:
                want = {"tag": o["cur"]} if o["ok"] else {"err": "other"}
            else:
                want = {"tag": best[1]}
            got = {k: r[k] for k in ("tag", "err") if k in r}
            if got != want or r.get("identical") is False:
                return {"ops": ops, "exists": exists, "at": o, "returned": r, "expected": want,
                        "what": "restore did not return the most recent save / missing checkpoint not handled as documented"}
    return None


def _ckpt_case(ctx, model, ops, exists, as_path, corpus=False):
    case = {"kind": "ckpt", "ops": ops, "exists": exists, "as_path": as_path}
    impl = _run_ckpt_impl(ops, exists, as_path)
    mres = model.call("ckpt", keep=3, exists=exists, ops=[{k: v for k, v in o.items() if k != "opt"} for o in ops])
    nsave = sum(1 for o in ops if o["k"] == "save")
    ctx.case(case, ("ckpt", json.dumps(ops, sort_keys=True), exists) if nsave >= 2 else None)
    ctx.count(f"ckpt:saves={nsave}")
    ctx.count("ckpt:dir-exists" if exists else "ckpt:dir-missing")
    nckpt = 0
    for i, (o, a, m) in enumerate(zip(ops, impl, mres)):
        if o["k"] == "save":
            ok = a.get("dir") == m.get("dir") and "err" not in a
            if a.get("dir") == m.get("dir") and len(m["dir"]) == nckpt:
                ctx.count("ckpt:save-skipped(step<=latest)")
            nckpt = len(m["dir"]) if m.get("dir") is not None else 0
        else:
            ai = {k: a[k] for k in ("tag", "err") if k in a}
            ok = ai == m and a.get("identical", True)
            ctx.count("ckpt:restore:" + ("err" if "err" in m else ("latest" if nckpt else "passed-in")))
            if not ok and nckpt == 0 and not o["ok"] and "err" in m and a.get("tag") == o["cur"]:
                # directory exists, holds no checkpoint, a checkpoint is expected: documented FileNotFoundError, code returns the state
                known = any(oo["k"] == "save" for oo in ops[:i]) is False and (exists or False)
                if known:
                    ctx.disagree("flax.ckpt.restore", {**case, "at": i}, a, m, oracle=_oracle_ckpt, known_id=KNOWN_EMPTY)
                    continue
        if not ok:
            ctx.disagree("flax.ckpt." + o["k"], {**case, "at": i}, a, m, oracle=_oracle_ckpt)
            return


def _gen_ckpt_ops(rng, increasing):
    nsave = int(rng.integers(1, 7))
    if increasing:
        steps = sorted(int(s) for s in rng.choice(np.arange(0, 40), size=nsave, replace=False))
    else:
        steps = [int(s) for s in rng.integers(0, 12, size=nsave)]
    ops = []
    tag = 1
    opt = ["SGD", "SGDM", "ADAM"][int(rng.integers(0, 3))]
    if rng.random() < 0.5:
        ops.append({"k": "restore", "ok": bool(rng.integers(0, 2)), "cur": 900 + tag, "opt": opt})
    for s in steps:
        ops.append({"k": "save", "step": s, "tag": tag, "opt": opt})
        tag += 1
        if rng.random() < 0.4:
            ops.append({"k": "restore", "ok": bool(rng.integers(0, 2)), "cur": 900 + tag, "opt": opt})
    ops.append({"k": "restore", "ok": bool(rng.integers(0, 2)), "cur": 900 + tag, "opt": opt})
    return ops


def _ckpt_case_keep(ctx, model, ops, keep):
    """`checkpoint_save` with another `max_to_keep` (the theorems hold for every value >= 1, the code fixes 3): the options
    constructor seen by scico's module is substituted, everything else is the scico code path"""
    import orbax.checkpoint as ocp
    from scico.flax.train import checkpoints as ck

    real = ocp.CheckpointManagerOptions

    class _Opts:
        def __call__(self, *a, **k):
            if "max_to_keep" in k:
                k["max_to_keep"] = keep
            return real(*a, **k)

    class _Ns:
        def __getattr__(self, nm):
            return _Opts() if nm == "CheckpointManagerOptions" else getattr(ocp, nm)

    saved = ck.ocp
    ck.ocp = _Ns()
    try:
        impl = _run_ckpt_impl(ops, False, False)
    finally:
        ck.ocp = saved
    mres = model.call("ckpt", keep=keep, exists=False, ops=[{k: v for k, v in o.items() if k != "opt"} for o in ops])
    case = {"kind": "ckpt", "ops": ops, "exists": False, "max_to_keep": keep}
    ctx.case(case, ("ckpt-keep", keep, json.dumps(ops, sort_keys=True)))
    ctx.count(f"ckpt:max_to_keep={keep}")
    for i, (o, a, m) in enumerate(zip(ops, impl, mres)):
        ai = {"dir": a.get("dir")} if o["k"] == "save" else {k: a[k] for k in ("tag", "err") if k in a}
        mi = {"dir": m.get("dir")} if o["k"] == "save" else m
        if ai != mi or a.get("identical") is False or ("err" in a and o["k"] == "save"):
            ctx.disagree("flax.ckpt.keep", {**case, "at": i}, a, m)
            return


def _corr_ckpt(ctx, model):
    # boundary stream: missing / empty directory, both flags
    for exists in (False, True):
        for okf in (True, False):
            _ckpt_case(ctx, model, [{"k": "restore", "ok": okf, "cur": 5}], exists, as_path=exists)
    # the sequence of DESIGN's probe: non-increasing and repeated steps
    _ckpt_case(ctx, model, [{"k": "save", "step": s, "tag": i + 1} for i, s in enumerate([5, 2, 7, 9, 9, 1, 12])] + [{"k": "restore", "ok": False, "cur": 0}], False, False)
    for i in range(ctx.n(8, 50)):
        inc = ctx.rng.random() < 0.7
        _ckpt_case(ctx, model, _gen_ckpt_ops(ctx.rng, inc), bool(ctx.rng.integers(0, 2)), bool(ctx.rng.integers(0, 2)))
    for keep in ([1, 2, 5] if ctx.thorough else [int(ctx.rng.choice([1, 2, 5]))]):
        for _ in range(ctx.n(1, 4)):
            _ckpt_case_keep(ctx, model, _gen_ckpt_ops(ctx.rng, ctx.rng.random() < 0.6), keep)


# ----------------------------------------------------------------------------------------------
# trainer resume


def _train_chain(ctx, model, n, b, epochs_list, spc):
    import jax
    from scico import flax as sflax
    from scico.flax.train.trainer import BasicFlaxTrainer

    tmp = tempfile.mkdtemp(prefix="verif_c20_")
    case = {"kind": "train", "n": n, "b": b, "epochs": epochs_list, "spc": spc}
    try:
        wd = os.path.join(tmp, "wd")
        rng = np.random.default_rng(0)
        ds = {"image": rng.normal(size=(n, 4, 4, 1)).astype(np.float32), "label": rng.normal(size=(n, 4, 4, 1)).astype(np.float32)}
        mdir = None
        for ep in epochs_list:
            conf = {"seed": 0, "opt_type": "SGD", "batch_size": b, "num_epochs": ep, "base_learning_rate": 1e-2, "warmup_epochs": 0,
                    "log_every_steps": 10**6, "log": False, "checkpointing": True, "workdir": wd, "steps_per_checkpoint": spc}
            executed = []
            try:
                tr = BasicFlaxTrainer(conf, sflax.ConvBNNet(depth=2, channels=1, num_filters=2), ds, ds)
                off = int(tr.state.step)
                orig = tr.p_train_step

                def rec(state, batch, _orig=orig, _ex=executed):
                    _ex.append(int(np.asarray(jax.device_get(state.step)).ravel()[0]))
                    return _orig(state, batch)

                tr.p_train_step = rec
                tr.train()
            except Exception as e:  # noqa: BLE001  (valid configuration: the trainer must not raise)
                err = repr(e)[:200]
                ctx.case({**case, "run_epochs": ep}, ("train", n, b, ep, spc, "raised"))
                ctx.disagree("flax.train.raised", {**case, "run_epochs": ep}, err, "no exception",
                             oracle=lambda c: {"case": c, "raised": err, "what": "BasicFlaxTrainer construction / train() raised on a valid configuration"})
                return
            impl = {"executed": executed, "dir": _listing(wd), "offset": off, "N": int(tr.num_steps)}
            m = model.call("train", keep=3, dir=mdir, N=int(tr.num_steps), spc=spc)
            mm = {"executed": m["executed"], "dir": m["dir"], "offset": (m["executed"][0] if m["executed"] else impl["offset"]), "N": int(tr.num_steps)}
            ctx.case({**case, "run_epochs": ep}, ("train", n, b, ep, spc, off))
            ctx.count("train:resumed" if off > 0 else "train:fresh")
            if impl != mm:
                def oracle(c, impl=impl):
                    exp = list(range(impl["offset"], impl["N"]))
                    if impl["executed"] != exp or (impl["dir"] or [None])[-1] != max(impl["N"], impl["offset"]):
                        return {"case": c, "executed": impl["executed"], "expected_executed": exp, "dir": impl["dir"]}
                    return None

                ctx.disagree("flax.train.resume", {**case, "run_epochs": ep}, impl, mm, oracle=oracle)
                return
            mdir = m["dir"]
    finally:
        shutil.rmtree(tmp, ignore_errors=True)


def _corr_train(ctx, model):
    chains = [(6, 2, [1, 3, 3, 4], 2)]
    if ctx.thorough:
        chains += [(5, 2, [2, 2, 5], 3), (4, 4, [3, 7], 1), (7, 3, [1, 2, 6], 5)]
    else:
        chains += [(5, 2, [2, 4], 3)]
    for n, b, eps, spc in chains:
        _train_chain(ctx, model, n, b, eps, spc)


# ----------------------------------------------------------------------------------------------
# trainer sessions: derived counters, which batch each step consumes, logging / evaluation / checkpoint schedule,
# a second train() on the same object  (model: trainSession / trainAgain, theorems C20_train_session,
# C20_resume_chain, C20_train_fresh_start, C20_train_errors)


def _session_impl(conf_extra, n, n_test, b, ep, wd, prev_dir_exists, variables0, again, seed=0):
    """one real BasicFlaxTrainer: constructor + train() (+ a second train()); everything observable recorded"""
    import contextlib
    import io

    import jax
    from flax import jax_utils
    from scico import flax as sflax
    from scico.flax.train.trainer import BasicFlaxTrainer

    def ds(m):
        idx = np.arange(m, dtype=np.float32)
        return {"image": np.broadcast_to(idx[:, None, None, None], (m, 4, 4, 1)).copy(),
                "label": np.broadcast_to((7.0 * idx + 3.0)[:, None, None, None], (m, 4, 4, 1)).copy()}

    conf = {"seed": seed, "opt_type": "SGD", "batch_size": b, "num_epochs": ep, "base_learning_rate": 1e-3, "warmup_epochs": 0, "workdir": wd}
    conf.update(conf_extra)
    out = {}
    sink = io.StringIO()
    with contextlib.redirect_stdout(sink):
        try:
            tr = BasicFlaxTrainer(conf, sflax.ConvBNNet(depth=2, channels=1, num_filters=2), ds(n), ds(n_test), variables0=variables0)
        except Exception as e:  # noqa: BLE001
            return {"err": common.err_kind(e), "where": "init"}, None
        out["offset"] = int(tr.state.step)
        out["N"], out["spe"] = int(tr.num_steps), int(tr.steps_per_epoch)
        out["spc"], out["log_every"], out["steps_per_eval"] = int(tr.steps_per_checkpoint), int(tr.log_every_steps), int(tr.steps_per_eval)
        runs = []
        dvar = None
        for _ in range(2 if again else 1):
            rec = {"steps": [], "rows": [], "pair": True, "logged": [], "eval_rows": [], "ckpt": [], "epochs": [], "windows": []}
            o_train, o_eval, o_upd, o_ck = tr.p_train_step, tr.p_eval_step, tr.update_metrics, tr.checkpoint

            def w_train(state, batch, rec=rec, o=o_train):
                rec["steps"].append(int(np.asarray(jax.device_get(state.step)).ravel()[0]))
                img = np.asarray(batch["image"])[..., 0, 0, 0].ravel()
                lab = np.asarray(batch["label"])[..., 0, 0, 0].ravel()
                rec["rows"].append([int(v) for v in img])
                if not np.array_equal(lab, 7.0 * img + 3.0):
                    rec["pair"] = False
                return o(state, batch)

            def w_eval(state, batch, rec=rec, o=o_eval):
                rec["eval_rows"].append([int(v) for v in np.asarray(batch["image"])[..., 0, 0, 0].ravel()])
                return o(state, batch)

            def w_upd(state, step, tm, t0, rec=rec, o=o_upd):
                rec["logged"].append(int(step))
                rec["windows"].append([int(step), len(tm)])  # how many steps' metrics the call receives
                return o(state, step, tm, t0)

            def w_ck(state, rec=rec, o=o_ck):
                rec["ckpt"].append(int(np.asarray(jax.device_get(jax_utils.unreplicate(state).step))))
                return o(state)

            tr.p_train_step, tr.p_eval_step, tr.update_metrics, tr.checkpoint = w_train, w_eval, w_upd, w_ck
            o_ins = getattr(tr, "itstat_insert_func", None)
            if o_ins is not None:
                def w_ins(a, rec=rec, o=o_ins):
                    rec["epochs"].append(int(a.epoch))  # the epoch number reported for a logged step
                    return o(a)

                tr.itstat_insert_func = w_ins
            try:
                dvar, _ = tr.train()
            except Exception as e:  # noqa: BLE001
                rec["err"] = common.err_kind(e)
            finally:
                tr.p_train_step, tr.p_eval_step, tr.update_metrics, tr.checkpoint = o_train, o_eval, o_upd, o_ck
                if o_ins is not None:
                    tr.itstat_insert_func = o_ins
            rec["dir"] = _listing(wd)
            runs.append(rec)
            if "err" in rec:
                break
        out["runs"] = runs
    return out, dvar


def _session_case(ctx, model, name, n, n_test, b, ep, extra, pre=None, vars0=False, again=False):
    """`pre` = list of epochs of earlier checkpointing sessions run first in the same work directory"""
    import jax

    tmp = tempfile.mkdtemp(prefix="verif_c20_")
    case = {"kind": "session", "name": name, "n": n, "n_test": n_test, "b": b, "epochs": ep, "conf": {k: v for k, v in extra.items()},
            "pre": pre, "variables0": vars0, "again": again}
    try:
        wd = os.path.join(tmp, "wd")
        dvar = None
        for pe in pre or []:
            _, dvar = _session_impl({"checkpointing": True, "steps_per_checkpoint": 2, "log": False, "log_every_steps": 10**6}, n, n_test, b, pe, wd, None, None, False)
        mdir = _listing(wd)
        impl, _ = _session_impl(extra, n, n_test, b, ep, wd, None, dvar if vars0 else None, again)
        req = dict(keep=3, dir=mdir, len_train=n, len_test=n_test, batch_size=b, num_epochs=ep, spc=extra.get("steps_per_checkpoint"),
                   log_every=extra.get("log_every_steps"), steps_per_eval=extra.get("steps_per_eval"),
                   checkpointing=bool(extra.get("checkpointing", False)), has_vars0=bool(vars0), log=bool(extra.get("log", False)), again=again)
        try:
            m = model.call("session", **req)
            merr = None
        except ModelErr as e:
            m, merr = None, e.kind
        ctx.case(case, ("session", name))
        ctx.count("session:" + ("resumed" if impl.get("offset", 0) > 0 else "from-0"))
        ierr = impl.get("err") or next((r["err"] for r in impl.get("runs", []) if "err" in r), None)
        if merr is not None or ierr is not None:
            ctx.count(f"session:err:{ierr}")
            if merr != ierr:
                ctx.disagree("flax.session.error", case, ierr, merr)
            return
        if (impl["N"], impl["spe"]) != (m["N"], m["spe"]):
            ctx.disagree("flax.session.counters", case, [impl["N"], impl["spe"]], [m["N"], m["spe"]])
            return
        # the batches of this session's (re-started) training iterator, from jax.random directly
        key1 = jax.random.split(jax.random.PRNGKey(0))[0]
        nb = max((len(r["steps"]) for r in impl["runs"]), default=0) * (2 if again else 1) + 1
        spe = impl["spe"]
        keys, perms = _chain(key1, n, nb // max(spe, 1) + 2)
        sp = model.call("specbatch", n=n, b=b, train=True, t=nb, perms=perms) if spe > 0 else []
        consumed = 0  # batches already drawn from the iterator by an earlier train() of the same object
        econsumed = 0
        for which, (r, mo) in enumerate(zip(impl["runs"], [m["first"]] + ([m["second"]] if again else []))):
            evs = mo["events"]
            a = {"offset": impl["offset"], "steps": r["steps"], "logged": r["logged"], "ckpt": r["ckpt"], "dir": r["dir"],
                 "eval_batches": len(r["eval_rows"])}
            if extra.get("log") and r["epochs"] != [e[3] for e in evs if e[2]]:
                ctx.disagree("flax.session.epoch", {**case, "train_call": which}, r["epochs"], [e[3] for e in evs if e[2]])
                return
            ck = [e[0] + 1 for e in evs if e[4]] + [max(mo["offset"], m["N"])]
            mm = {"offset": mo["offset"], "steps": [e[0] for e in evs], "logged": [e[0] for e in evs if e[2]],
                  "ckpt": ck, "dir": mo["dir"], "eval_batches": mo["eval_batches"]}
            if r["windows"] != mo["windows"] or [e[0] for e in evs] != mo["loop_steps"]:
                def w_oracle(c, r=r, L=impl["log_every"], off=impl["offset"]):
                    bad = [w for w in r["windows"] if w[1] != min(L, w[0] + 1 - off) or (w[0] + 1) % L != 0]
                    return {"case": c, "update_metrics_calls": r["windows"], "wrong": bad,
                            "what": "update_metrics is not called at exactly the steps with log_every_steps | step+1, or does not receive "
                                    "the metrics of the steps since the previous call"} if bad or len(r["windows"]) != len(mo["windows"]) else None

                ctx.disagree("flax.session.windows", {**case, "train_call": which}, r["windows"], mo["windows"], oracle=w_oracle)
                return
            if a != mm:
                def oracle(c, a=a, N=impl["N"]):
                    exp = list(range(a["offset"], N))
                    if a["steps"] != exp:
                        return {"case": c, "executed": a["steps"], "expected_executed": exp}
                    return None

                ctx.disagree("flax.session.schedule", {**case, "train_call": which}, a, mm, oracle=oracle)
                return
            want_rows = [sp[e[1]] for e in evs]  # the model's batch index (a second train() continues the same iterator)
            if r["rows"] != want_rows or not r["pair"]:
                ctx.disagree("flax.session.batches", {**case, "train_call": which}, {"rows": r["rows"], "paired": r["pair"]}, {"rows": want_rows, "paired": True},
                             oracle=lambda c, r=r: ({"case": c, "what": "image and label rows delivered to the train step are not the same rows"} if not r["pair"] else None))
                return
            if r["eval_rows"]:
                se = n_test // b
                exp = [list(range(((econsumed + i) % se) * b, ((econsumed + i) % se) * b + b)) for i in range(len(r["eval_rows"]))]
                if r["eval_rows"] != exp:
                    ctx.disagree("flax.session.eval-order", {**case, "train_call": which}, r["eval_rows"], exp,
                                 oracle=lambda c, r=r, exp=exp: {"case": c, "eval_batches": r["eval_rows"], "expected": exp, "what": "evaluation batches are not in dataset order"})
                    return
            consumed += len(evs)
            econsumed += len(r["eval_rows"])
    finally:
        shutil.rmtree(tmp, ignore_errors=True)


def _corr_session(ctx, model):
    base = {"checkpointing": True, "steps_per_checkpoint": 2, "log": True, "log_every_steps": 4, "steps_per_eval": 2}
    cases = [
        ("resume+log+again", 6, 4, 2, 3, base, [1], False, True),
        ("variables0-no-restore", 6, 4, 2, 2, {**base, "log": False}, [2], True, False),
        ("spc=0", 6, 4, 2, 1, {**base, "steps_per_checkpoint": 0, "log": False}, None, False, False),
        ("batch>n", 3, 4, 4, 2, {"checkpointing": True, "log": False}, None, False, False),
        # default periods (10 and 20 epochs): 1 step per epoch, 21 epochs -> checkpoints at 10, 20, 21 and one logged step
        ("defaults", 3, 3, 2, 21, {"checkpointing": True, "log": True}, None, False, False),
    ]
    if ctx.thorough:
        cases += [
            ("no-checkpointing", 6, 4, 2, 2, {"checkpointing": False, "log": False, "steps_per_checkpoint": 2, "log_every_steps": 3}, [1], False, False),
            ("log_every=0", 6, 4, 2, 1, {**base, "log_every_steps": 0}, None, False, False),
            ("defaults-long", 4, 4, 2, 11, {"checkpointing": True, "log": True}, None, False, False),
            ("target-below-latest", 6, 4, 2, 1, {**base, "log": False}, [3], False, True),
            ("incomplete-batch+eval-default", 7, 5, 2, 2, {"checkpointing": True, "log": True, "log_every_steps": 2, "steps_per_checkpoint": 3}, None, False, False),
        ]
    for name, n, nt, b, ep, extra, pre, v0, again in cases:
        _session_case(ctx, model, name, n, nt, b, ep, extra, pre, v0, again)


# ----------------------------------------------------------------------------------------------
# variables


def _corr_vars(ctx, model):
    import flax_nets
    from scico.flax import load_variables, save_variables

    tmp = tempfile.mkdtemp(prefix="verif_c20_")
    try:
        for i in range(ctx.n(12, 80)):
            wp, wb, ex = ctx.rng.random() < 0.85, ctx.rng.random() < 0.8, ctx.rng.random() < 0.3
            v = flax_nets.random_var_tree(ctx.rng, wp, wb, ex)
            fn = os.path.join(tmp, f"v{i}.mpk")
            case = {"kind": "vars", "keys": list(v.keys())}
            try:
                save_variables(v, fn)
                r = load_variables(fn)
                impl = ("ok", sorted(r.keys()))
            except Exception as e:  # noqa: BLE001
                r = None
                impl = ("err", common.err_kind(e))
            try:
                m = model.call("vars", keys=list(v.keys()))
                mm = ("ok", sorted(k for k, _ in m))
            except ModelErr as e:
                mm = ("err", e.kind)
            ctx.case(case, ("vars", i) if (wp and wb) else None)
            ctx.count("vars:" + (mm[0] if mm[0] == "ok" else "err:" + mm[1]))
            if impl != mm:
                ctx.disagree("flax.vars.keys", case, list(impl), list(mm))
                continue
            if r is not None and not flax_nets.tree_equal(r, {"params": v["params"], "batch_stats": v["batch_stats"]}):
                ctx.disagree("flax.vars.roundtrip", case, "reloaded tree differs", "identical params and batch_stats",
                             oracle=lambda c: {"keys": c["keys"], "what": "load_variables(save_variables(v)) != v"})
    finally:
        shutil.rmtree(tmp, ignore_errors=True)


# ----------------------------------------------------------------------------------------------


def _run_corpus(ctx, model):
    d = common.CORPUS_DIR / PROP
    if not d.exists():
        return
    for f in sorted(d.glob("*.json")):
        c = json.loads(f.read_text())
        c = c.get("case", c)
        ctx.count("corpus")
        if c["kind"] == "iter":
            _iter_case(ctx, model, c["n"], c["b"], c["train"], c.get("seed"), c.get("jnp", True), c.get("t"))
        elif c["kind"] == "ckpt":
            _ckpt_case(ctx, model, c["ops"], c["exists"], c.get("as_path", False))
        elif c["kind"] == "train":
            _train_chain(ctx, model, c["n"], c["b"], c["epochs"], c["spc"])


def generate(ctx):
    import flax_translate

    c = flax_translate.write()
    ctx.extra["constants_from_source"] = {k: (v if isinstance(v, (int, bool, str)) else list(v)) for k, v in c.items()}
    return [("Scico.Generated.FlaxTables", "normalised source of the 13 functions the model follows = pinned source; checkpoint options, default "
             "period factors, squeeze axes, default seed = model constants")]


def correspond(ctx, model):
    common.setup_scico()
    _run_corpus(ctx, model)
    _corr_iter(ctx, model)
    _corr_flaxmap(ctx, model)
    _corr_vars(ctx, model)
    _corr_ckpt(ctx, model)
    _corr_train(ctx, model)
    _corr_session(ctx, model)


def findings(ctx, model):
    if ctx.is_known(KNOWN_EMPTY):
        r = _run_ckpt_impl([{"k": "restore", "ok": False, "cur": 5}], True, False)[0]
        ctx.known_finding(KNOWN_EMPTY, r.get("tag") == 5, "existing empty directory, ok_no_ckpt=False returns the passed-in state")


def _targeted(ctx, changed):
    """panels that exercise exactly the functions whose pinned source changed; each evaluates the PROPERTY on the implementation"""
    import jax.numpy as jnp

    ctx.extra["search_targets"] = changed
    if any(c.startswith("IterateData") or c == "create_input_iter" for c in changed):
        for n in range(1, 9):
            for b in range(1, n + 1):
                for train in (True, False):
                    ctx.count("search:targeted:iter")
                    r = _oracle_iter({"n": n, "b": b, "train": train, "seed": 17 * n + b, "jnp": bool((n + b) % 2)})
                    if r is not None:
                        return r
    if "FlaxMap.__call__" in changed:
        import flax_nets

        nets = {name: (name, m, v) for name, m, v in flax_nets.custom_nets()}
        oracle = _oracle_flaxmap(nets)
        for key in nets:
            for shp in [(4, 5), (1, 1), (2, 1), (4, 5, 2), (1, 5, 1), (4, 5, 1), (3, 4, 6), (1, 2, 9), (7, 1, 1), (2, 4, 5, 1), (1, 4, 1, 1), (1, 4, 6, 3)]:
                ctx.count("search:targeted:flaxmap")
                x = np.arange(int(np.prod(shp)), dtype=np.float64).reshape(shp) / 4.0
                r = oracle({"net": key, "xshape": list(shp), "dtype": "float64", "x": x.ravel().tolist()})
                if r is not None:
                    return r
    if any(c.startswith("checkpoint_") for c in changed):
        panel = [([{"k": "restore", "ok": okf, "cur": 5}], ex) for ex in (False, True) for okf in (True, False)]
        panel += [([{"k": "save", "step": st, "tag": i + 1} for i, st in enumerate(seq)] + [{"k": "restore", "ok": False, "cur": 0}], False)
                  for seq in ([3], [1, 2], [1, 2, 3, 4], [2, 5, 9, 11, 20], [0, 1])]
        for ops, ex in panel:
            ctx.count("search:targeted:ckpt")
            r = _oracle_ckpt({"ops": ops, "exists": ex})
            if r is not None:
                return r
    if any(c.endswith("_variables") for c in changed):
        import flax_nets
        from scico.flax import load_variables, save_variables

        tmp = tempfile.mkdtemp(prefix="verif_c20_")
        try:
            for i in range(6):
                ctx.count("search:targeted:vars")
                v = flax_nets.random_var_tree(np.random.default_rng(i), True, True, i % 2 == 0)
                fn = os.path.join(tmp, f"v{i}.mpk")
                save_variables(v, fn)
                r = load_variables(fn)
                if not flax_nets.tree_equal(r, {"params": v["params"], "batch_stats": v["batch_stats"]}):
                    return {"keys": list(v), "what": "load_variables(save_variables(v)) != v (params / batch_stats)"}
        finally:
            shutil.rmtree(tmp, ignore_errors=True)
    if any(c.startswith("BasicFlaxTrainer") for c in changed):
        # the property on the real trainer, no model involved: executed steps = offset..N-1 (offset = latest checkpoint), update_metrics at the
        # steps with L | s+1 receiving min(L, s+1-offset) entries, checkpoints at spc | s+1, at N and finally, latest step afterwards = N
        base = {"checkpointing": True, "steps_per_checkpoint": 2, "log": True, "log_every_steps": 4, "steps_per_eval": 2}
        for (n, b, eps, extra) in [(6, 2, [1, 3], base), (5, 2, [2, 4], {**base, "steps_per_checkpoint": 3, "log_every_steps": 3}),
                                   (3, 2, [21], {"checkpointing": True, "log": True})]:
            tmp = tempfile.mkdtemp(prefix="verif_c20_")
            try:
                wd = os.path.join(tmp, "wd")
                latest = 0
                for ep in eps:
                    ctx.count("search:targeted:trainer")
                    impl, _ = _session_impl(extra, n, n, b, ep, wd, None, None, False)
                    if "err" in impl or "err" in impl["runs"][0]:
                        return {"n": n, "b": b, "epochs": ep, "conf": extra, "raised": impl.get("err") or impl["runs"][0]["err"]}
                    r, N, L, spc = impl["runs"][0], (n // b) * ep, impl["log_every"], impl["spc"]
                    want_steps = list(range(latest, N))
                    want_w = [[st, min(L, st + 1 - latest)] for st in want_steps if (st + 1) % L == 0]
                    want_ck = [st + 1 for st in want_steps if (st + 1) % spc == 0 or st + 1 == N] + [max(latest, N)]
                    if impl["offset"] != latest or r["steps"] != want_steps or r["windows"] != want_w or r["ckpt"] != want_ck or (r["dir"] or [None])[-1] != max(latest, N):
                        return {"n": n, "b": b, "epochs": ep, "conf": {k: v for k, v in extra.items()}, "latest_before": latest, "offset": impl["offset"],
                                "executed": r["steps"], "expected_executed": want_steps, "update_metrics": r["windows"], "expected_update_metrics": want_w,
                                "checkpoints": r["ckpt"], "expected_checkpoints": want_ck, "dir": r["dir"]}
                    latest = max(latest, N)
            finally:
                shutil.rmtree(tmp, ignore_errors=True)
    return None


def search(ctx, model, why):
    """failing-input search on the implementation only (property oracles); after a broken generated obligation the functions whose
    pinned source changed are exercised first (targeted panels)"""
    common.setup_scico()
    if why and "FlaxTables" in str(why.get("module", "")):
        import cache_translate
        import flax_translate

        changed = cache_translate.changed_rows(common.REPO, flax_translate.PINNED, common.VERIF / "lean" / "Scico" / "Model" / "Flax.lean")
        r = _targeted(ctx, changed)
        if r is not None:
            return r
    for _ in range(ctx.n(10, 60)):
        n = int(ctx.rng.integers(1, 120))
        b = int(ctx.rng.integers(1, n + 1))
        c = {"n": n, "b": b, "train": bool(ctx.rng.integers(0, 2)), "seed": int(ctx.rng.integers(0, 2**31 - 1)), "jnp": True}
        if (n // b) * 3 > 90:
            continue
        r = _oracle_iter(c)
        ctx.count("search:iter")
        if r is not None:
            return r
    for _ in range(ctx.n(3, 15)):
        c = {"ops": _gen_ckpt_ops(ctx.rng, True), "exists": False}
        r = _oracle_ckpt(c)
        ctx.count("search:ckpt")
        if r is not None:
            return r
    return None


def replay(ctx, model, case):
    common.setup_scico()
    c = case.get("case", case)
    kind = c.get("kind")
    r = None
    if kind == "iter":
        r = _oracle_iter(c)
    elif kind == "ckpt":
        r = _oracle_ckpt(c)
    print("replay:", "property FAILS on implementation:" if r else "no failure at this input", r)
    if r:
        ctx.violation({"kind": "failing-input", "case": c, "failing": r}, True, "replay")
