"""Translator of the StepSize engine (C16, DESIGN §6.3): data of `scico/optimize/_pgmaux.py`, `_pgm.py` that the Lean model
copies -> lean/Scico/Generated/StepSizeTables.lean.   Reads with `ast` only (nothing is imported or executed).

* class table: every step-size class, its base class and the parameters of its constructor with their default values
  (kappa, gamma_u, gamma_d, maxiter) as typed literals;
* dispatch of `PGM.step` / `AcceleratedPGM.step`: the argument of `step_size.update(...)`, the classes of the `isinstance`
  tests (which policies receive `self.x`, which one hands back `step_size.Z`);
* statement skeletons (nesting depth, normalised text) of every method the model transcribes.

The generated module states `classes = Scico.StepSize.policyClasses`, `dispatch = Scico.StepSize.dispatch`,
`skeletons = Scico.StepSize.sourceSkeletons` (the tables of `lean/Scico/Model/StepSizeSource.lean`), closed by `decide`.
`python3 harness/stepsize_translate.py --model` prints the tables in the form the model file holds them.
"""

from __future__ import annotations

import ast
from decimal import Decimal
from pathlib import Path

import common

OUT = common.LEAN_DIR / "Scico" / "Generated" / "StepSizeTables.lean"

AUX = "scico/optimize/_pgmaux.py"
PGM = "scico/optimize/_pgm.py"

CLASSES = ["PGMStepSize", "BBStepSize", "AdaptiveBBStepSize", "LineSearchStepSize", "RobustLineSearchStepSize"]

# (key, file, class, function)
SKELETONS = (
    [(f"{c}.{m}", AUX, c, m) for c in CLASSES for m in ("__init__", "_set_g_prox", "internal_init", "update")]
    + [("PGM.__init__", PGM, "PGM", "__init__"), ("PGM.f_quad_approx", PGM, "PGM", "f_quad_approx"), ("PGM.step", PGM, "PGM", "step"),
       ("AcceleratedPGM.__init__", PGM, "AcceleratedPGM", "__init__"), ("AcceleratedPGM.step", PGM, "AcceleratedPGM", "step")]
)


class Untranslatable(common.Infra):
    pass


# --------------------------------------------------------------------------
# generic pieces (also used by estim_translate.py)


def lean_str(x: str) -> str:
    return '"' + x.replace("\\", "\\\\").replace('"', '\\"') + '"'


def skeleton(stmts, depth=0, out=None):
    """normalised statement list: (nesting depth, text).  Docstrings and comments vanish, annotations are dropped, a `raise`
    keeps the exception class only (messages are not part of the behaviour compared), nested `def`s are descended into."""
    out = [] if out is None else out
    for st in stmts:
        if isinstance(st, ast.Expr) and isinstance(st.value, ast.Constant) and isinstance(st.value.value, str):
            continue
        if isinstance(st, ast.If):
            node, kw = st, "if"
            while True:
                out.append((depth, f"{kw} {ast.unparse(node.test)}:"))
                skeleton(node.body, depth + 1, out)
                if len(node.orelse) == 1 and isinstance(node.orelse[0], ast.If):
                    node, kw = node.orelse[0], "elif"
                    continue
                if node.orelse:
                    out.append((depth, "else:"))
                    skeleton(node.orelse, depth + 1, out)
                break
        elif isinstance(st, ast.For):
            out.append((depth, f"for {ast.unparse(st.target)} in {ast.unparse(st.iter)}:"))
            skeleton(st.body, depth + 1, out)
            if st.orelse:
                out.append((depth, "else:"))
                skeleton(st.orelse, depth + 1, out)
        elif isinstance(st, ast.While):
            out.append((depth, f"while {ast.unparse(st.test)}:"))
            skeleton(st.body, depth + 1, out)
        elif isinstance(st, ast.FunctionDef):
            out.append((depth, f"def {st.name}({', '.join(a.arg for a in st.args.args)}):"))
            skeleton(st.body, depth + 1, out)
        elif isinstance(st, ast.Raise):
            exc = st.exc.func if isinstance(st.exc, ast.Call) else st.exc
            out.append((depth, "raise " + (ast.unparse(exc) if exc is not None else "")))
        elif isinstance(st, ast.AnnAssign):
            out.append((depth, f"{ast.unparse(st.target)} = {ast.unparse(st.value)}" if st.value is not None else ast.unparse(st.target)))
        elif isinstance(st, (ast.With, ast.Try)):
            raise Untranslatable(f"unexpected statement kind {type(st).__name__}: {ast.unparse(st)[:80]}")
        else:
            out.append((depth, ast.unparse(st)))
    return out


def find_function(tree, cname, fname):
    body = tree.body
    if cname is not None:
        cls = [n for n in tree.body if isinstance(n, ast.ClassDef) and n.name == cname]
        if not cls:
            return None
        body = cls[0].body
    for n in body:
        if isinstance(n, ast.FunctionDef) and n.name == fname:
            return n
    return None


def pylit(node):
    """typed literal of a default value: ("none",) | ("int", n) | ("dec", mantissa, exponent) [= mantissa·10^-exponent, as written]
    | ("other", source text)"""
    neg = False
    n = node
    if isinstance(n, ast.UnaryOp) and isinstance(n.op, ast.USub):
        neg, n = True, n.operand
    if isinstance(n, ast.Constant):
        v = n.value
        if v is None and not neg:
            return ("none",)
        if isinstance(v, bool):
            return ("other", ast.unparse(node))
        if isinstance(v, int):
            return ("int", -v if neg else v)
        if isinstance(v, float):
            d = Decimal(ast.unparse(n))
            sign, digits, exp = d.as_tuple()
            mant = int("".join(map(str, digits)))
            if exp > 0:
                mant, exp = mant * 10 ** exp, 0
            return ("dec", -mant if neg else mant, -exp)
    return ("other", ast.unparse(node))


def lean_lit(l) -> str:
    if l[0] == "none":
        return "PyLit.none"
    if l[0] == "int":
        return f"PyLit.int ({l[1]})"
    if l[0] == "dec":
        return f"PyLit.dec ({l[1]}) {l[2]}"
    return f"PyLit.other {lean_str(l[1])}"


def signature(fn):
    """[(parameter, default literal | ("required",))] without `self`"""
    a = fn.args
    names = [x.arg for x in a.args]
    defaults = [None] * (len(names) - len(a.defaults)) + list(a.defaults)
    out = []
    for n, d in zip(names, defaults):
        if n == "self":
            continue
        out.append((n, ("required",) if d is None else pylit(d)))
    for x, d in zip(a.kwonlyargs, a.kw_defaults):
        out.append((x.arg, ("required",) if d is None else pylit(d)))
    return out


def lean_sig(sig) -> str:
    return "[" + ", ".join(f"({lean_str(n)}, {'PyLit.required' if l[0] == 'required' else lean_lit(l)})" for n, l in sig) + "]"


def lean_skeletons(sk) -> str:
    rows = []
    for key, lines in sk:
        body = ",\n    ".join(f"({d}, {lean_str(t)})" for d, t in lines)
        rows.append(f"  ({lean_str(key)}, [\n    {body}])" if lines else f"  ({lean_str(key)}, [])")
    return "[\n" + ",\n".join(rows) + "]"


# --------------------------------------------------------------------------
# StepSize tables


def _isinstance_classes(test, where):
    """classes of `isinstance(self.step_size, C)` / `isinstance(self.step_size, (C1, C2))`, sorted"""
    if not (isinstance(test, ast.Call) and isinstance(test.func, ast.Name) and test.func.id == "isinstance" and len(test.args) == 2
            and ast.unparse(test.args[0]) == "self.step_size"):
        raise Untranslatable(f"{where}: expected isinstance(self.step_size, ...), got {ast.unparse(test)}")
    c = test.args[1]
    elts = c.elts if isinstance(c, ast.Tuple) else [c]
    if not all(isinstance(e, ast.Name) for e in elts):
        raise Untranslatable(f"{where}: class list {ast.unparse(c)}")
    return sorted(e.id for e in elts)


def _update_arg(stmt, where):
    """X of `self.L = self.step_size.update(X)`"""
    if not (isinstance(stmt, ast.Assign) and ast.unparse(stmt.targets[0]) == "self.L" and isinstance(stmt.value, ast.Call)
            and ast.unparse(stmt.value.func) == "self.step_size.update" and len(stmt.value.args) == 1):
        raise Untranslatable(f"{where}: expected self.L = self.step_size.update(...), got {ast.unparse(stmt)}")
    return ast.unparse(stmt.value.args[0])


def read_tables(repo: Path | None = None):
    repo = Path(repo) if repo else common.REPO
    trees = {p: ast.parse((repo / p).read_text()) for p in (AUX, PGM)}
    out = {"classes": [], "dispatch": {}, "skeletons": []}
    # classes defined in _pgmaux.py deriving (transitively) from PGMStepSize: every one must be known to the model
    for n in trees[AUX].body:
        if isinstance(n, ast.ClassDef):
            bases = [ast.unparse(b) for b in n.bases]
            if len(bases) > 1:
                raise Untranslatable(f"{AUX}: class {n.name} has several bases")
            init = find_function(trees[AUX], n.name, "__init__")
            out["classes"].append((n.name, bases[0] if bases else "", signature(init) if init is not None else []))
    # dispatch
    step = find_function(trees[PGM], "PGM", "step")
    calls = [s for s in step.body if isinstance(s, ast.Assign) and "step_size.update" in ast.unparse(s)]
    if len(calls) != 1:
        raise Untranslatable("PGM.step: expected exactly one call of step_size.update")
    d = {"pgmArg": _update_arg(calls[0], "PGM.step")}
    astep = find_function(trees[PGM], "AcceleratedPGM", "step")
    ifs = [s for s in astep.body if isinstance(s, ast.If)]
    if len(ifs) != 2:
        raise Untranslatable("AcceleratedPGM.step: expected two if statements")
    first, second = ifs
    if len(first.body) != 1 or len(first.orelse) != 1:
        raise Untranslatable("AcceleratedPGM.step: first if is not a two-way choice of the update argument")
    d["apgmArgClasses"] = _isinstance_classes(first.test, "AcceleratedPGM.step")
    d["apgmArgThen"] = _update_arg(first.body[0], "AcceleratedPGM.step")
    d["apgmArgElse"] = _update_arg(first.orelse[0], "AcceleratedPGM.step")
    d["apgmZClasses"] = _isinstance_classes(second.test, "AcceleratedPGM.step")
    zs = [ast.unparse(s.value) for s in second.body if isinstance(s, ast.Assign) and ast.unparse(s.targets[0]) == "self.x"]
    if len(zs) != 1:
        raise Untranslatable("AcceleratedPGM.step: robust branch does not assign self.x once")
    d["apgmZThen"] = zs[0]
    out["dispatch"] = d
    # skeletons
    for key, path, cname, fname in SKELETONS:
        fn = find_function(trees[path], cname, fname)
        out["skeletons"].append((key, skeleton(fn.body) if fn is not None else []))
    return out


def lean_classes(cl) -> str:
    return "[\n" + ",\n".join(f"  ({lean_str(n)}, {lean_str(b)}, {lean_sig(s)})" for n, b, s in cl) + "]"


def lean_dispatch(d) -> str:
    ls = lambda xs: "[" + ", ".join(lean_str(x) for x in xs) + "]"  # noqa: E731
    return ("{ pgmArg := " + lean_str(d["pgmArg"]) + ", apgmArgClasses := " + ls(d["apgmArgClasses"]) + ", apgmArgThen := " + lean_str(d["apgmArgThen"])
            + ",\n    apgmArgElse := " + lean_str(d["apgmArgElse"]) + ", apgmZClasses := " + ls(d["apgmZClasses"]) + ", apgmZThen := " + lean_str(d["apgmZThen"]) + " }")


def render(t) -> str:
    return "\n".join([
        "/- GENERATED by harness/stepsize_translate.py from scico/optimize/_pgmaux.py, _pgm.py — rewritten on every run, do not edit. -/",
        "import Scico.Model.StepSizeSource",
        "",
        "namespace Scico.Generated.StepSizeTables",
        "open Scico.StepSize",
        "",
        "/-- step-size classes: name, base class, constructor parameters with defaults -/",
        "def classes : List (String × String × List (String × PyLit)) := " + lean_classes(t["classes"]),
        "",
        "/-- which argument `step_size.update` receives and which classes the `isinstance` tests name -/",
        "def dispatch : Dispatch :=\n  " + lean_dispatch(t["dispatch"]),
        "",
        "/-- normalised statement lists (nesting depth, text) of the methods the model transcribes -/",
        "def skeletons : List (String × List (Nat × String)) := " + lean_skeletons(t["skeletons"]),
        "",
        "theorem classes_ok : classes = policyClasses := by decide +kernel",
        "theorem dispatch_ok : dispatch = Scico.StepSize.dispatch := by decide +kernel",
        "theorem skeletons_ok : skeletons = sourceSkeletons := by decide +kernel",
        "",
        "end Scico.Generated.StepSizeTables",
        "",
    ])


def render_model(t) -> str:
    """the data part of lean/Scico/Model/StepSizeSource.lean"""
    return "\n".join([
        "def policyClasses : List (String × String × List (String × PyLit)) := " + lean_classes(t["classes"]),
        "",
        "def dispatch : Dispatch :=\n  " + lean_dispatch(t["dispatch"]),
        "",
        "def sourceSkeletons : List (String × List (Nat × String)) := " + lean_skeletons(t["skeletons"]),
        "",
    ])


def generate(repo: Path | None = None):
    t = read_tables(repo)
    txt = render(t)
    OUT.parent.mkdir(parents=True, exist_ok=True)
    if not OUT.exists() or OUT.read_text() != txt:
        OUT.write_text(txt)
    return t


PINNED = Path(__file__).resolve().parent / "stepsize_pinned.json"


def _flat(t):
    """tables as {row key: value} for comparison"""
    import json as _json

    out = {}
    for k, v in t.items():
        if k == "skeletons":
            for name, lines in v:
                out["skeleton:" + name] = _json.dumps(lines)
        elif k == "signatures":
            for name, sig in v:
                out["signature:" + name] = _json.dumps(sig)
        elif k == "classes":
            for row in v:
                out["class:" + row[0]] = _json.dumps(row)
        else:
            out[k] = _json.dumps(v, default=str)
    return out


def write_pinned(repo=None):
    """snapshot of the tables the model file was refreshed from (written together with `--model`)"""
    import json as _json

    PINNED.write_text(_json.dumps(_flat(read_tables(repo)), indent=0, sort_keys=True))


def changed_keys(repo=None):
    """rows of the current source tables that differ from the pinned snapshot (= from the model's tables)"""
    import json as _json

    cur = _flat(read_tables(repo))
    old = _json.loads(PINNED.read_text()) if PINNED.exists() else {}
    return sorted(k for k in set(cur) | set(old) if cur.get(k) != old.get(k))


if __name__ == "__main__":
    import sys

    if "--model" in sys.argv:
        print(render_model(read_tables()))
        write_pinned()
    else:
        import json

        print(json.dumps(read_tables(), indent=1, default=str))
