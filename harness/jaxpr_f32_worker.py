"""Default-precision worker of C06 (run as a subprocess WITHOUT jax_enable_x64: float32 / complex64 throughout, Python
scalars weakly typed - the mode in which the library runs unless the caller opts into x64).

For every item [class, configuration] (dtypes of the configuration mapped to single precision) the operator is built and, for
the views eval and adj: the map is traced and translated (harness/jaxpr_ir.py), the structural verdict is computed, membership
of every equation in the proved family is checked (harness/jaxpr_family.py), the linearity probe of c06.py runs at the
single-precision tolerance (incl. the reused-buffer history), and the returned dtype must be the declared one and stay
32-bit.  Nothing may raise for conforming inputs.  The structural signature of the program (primitive names in order, without
literals and dtype conversions) is returned so that the parent can compare it with the x64 trace of the same configuration.
Reads {"repo", "items", "seed"} on stdin, prints {"results": [...]} on stdout."""

import json
import os
import sys
import warnings

os.environ["JAX_PLATFORMS"] = "cpu"
os.environ.pop("JAX_ENABLE_X64", None)
req = json.loads(sys.stdin.read())
sys.path.insert(0, req["repo"])
sys.path.insert(0, os.path.dirname(os.path.abspath(__file__)))
warnings.simplefilter("ignore")
import numpy as np  # noqa: E402

import jax  # noqa: E402

assert not jax.config.jax_enable_x64

import c06  # noqa: E402
import jaxpr_family as fam  # noqa: E402
import jaxpr_ir as ir  # noqa: E402
import jaxpr_ops as ops  # noqa: E402
import translate_jaxpr as tr  # noqa: E402

SINGLE = {"float64": "float32", "complex128": "complex64"}


def single(c):
    if isinstance(c, dict):
        return {k: (SINGLE.get(v, v) if "dtype" in k and isinstance(v, str) else single(v)) for k, v in c.items()}
    if isinstance(c, list):
        return [single(v) for v in c]
    return c


def signature(prog):
    return [p.split("#")[0] for c, p, _, _ in prog.eqns if not c.startswith("lit") and not p.startswith("convert_element_type")]


def is32(dt):
    dt = np.dtype(dt)
    return dt.itemsize <= (8 if dt.kind == "c" else 4)


out = []
rng = np.random.Generator(np.random.PCG64([int(req.get("seed", 0)), 32]))
for name, c in req["items"]:
    cs = single(c)
    try:
        A = ops.build(name, cs)
    except ops.NotPresentedAsLinear:
        out.append({"cls": name, "config": c, "view": "eval", "status": "not-presented"})
        continue
    except Exception as e:  # noqa: BLE001
        out.append({"cls": name, "config": c, "view": "eval", "status": "build-raised", "detail": repr(e)[:300]})
        continue
    fld = tr.field_of(A)
    for view, fn, shp, dt in ops.views(A, ["eval", "adj"]):
        rec = {"cls": name, "config": c, "view": view, "field": fld}
        out.append(rec)
        if isinstance(fn, Exception):
            rec.update(status="view-raised", detail=repr(fn)[:300])
            continue
        try:
            rec["in_dtype"] = np.dtype(dt).name
            info = {}
            bad, nontrivial = c06.probe(fn, shp, dt, rng, fld, "random", info)
            rec["probe_bad"] = bad
            rec["inplace"] = info.get("inplace")
            x = [c06._rand_leaf(rng, s, dt, "random") for s in ops.leaf_shapes(shp)]
            y = c06._apply(fn, shp, x)
            declared = A.output_dtype if view == "eval" else A.input_dtype
            rec["dtype_ok"] = bool(all(is32(t.dtype) for t in y) and is32(dt) and (ops.is_nested(shp) or isinstance(declared, (tuple, list)) or all(np.dtype(t.dtype) == np.dtype(declared) for t in y)))
            rec["dtypes"] = [np.dtype(dt).name] + [np.dtype(t.dtype).name for t in y] + [str(np.dtype(declared)) if not isinstance(declared, (tuple, list)) else "block"]
            closed, how = tr.trace_view(A, view, fn, shp, dt)
            prog = ir.translate(closed, keep=True)
            tag = ir.check(prog)
            rec.update(status="ok", tag=ir.tag_str(tag), acceptable=tr.acceptable(tag, fld), in_family=fam.program_in_family(prog), sig=signature(prog), neqns=len(prog.eqns))
        except ir.NotTranslatable as e:
            rec.update(status="not-translatable", detail=str(e)[:200])
        except Exception as e:  # noqa: BLE001
            rec.update(status="raised", detail=repr(e)[:300])
print(json.dumps({"results": out}, default=str))
