"""C15 - solver driver: iteration count, statistics, callbacks, resumption, NaN stop, interval timer.

Correspondence (exact, integer ticks): random histories of solve(callback)/step()/tick on REAL optimiser objects
of all optimiser classes with a fake clock versus the Lean model `Scico.Driver.solve`; random Timer call
sequences on `scico.util.Timer` versus the Lean model *and* the history-based stop-watch specification.
"""

from __future__ import annotations

import copy
import json

import common
import driver_gen as G
import driver_opt as D
import driver_translate
from common import ModelErr

PROP = "C15"
CLAIMED = True
ENGINE = "Driver"
DESIGN_REF = "DESIGN.md §5.9"
TECHNIQUE = (
    "Lean 4 proof: refinement of the Timer state machine to a history-based ideal stop-watch (induction over call "
    "histories), induction over the solve loop (count, numbering, records, callbacks, resumption, NaN stop) + exact "
    "replay of random call histories on the real optimiser classes with a fake integer clock"
)
LEVEL_TEXT = (
    "Lean theorems for all call histories of unbounded length: Timer.elapsed equals an ideal stop-watch defined on the "
    "history alone (KeyError characterised, partial mutation included); solve() performs exactly maxiter iterations "
    "numbered consecutively, one record per iteration with the accessor values after that iteration, callback once per "
    "iteration with its ticks excluded from the reported time, any list of solve() calls with pauses = one solve() with the "
    "total count, NaN stop at the first iteration leaving any block of any working variable non-finite, maxiter=0 changes "
    "nothing; callbacks that assign itnum/maxiter cannot change the iteration count or the numbering of a call (simulation) and "
    "their effect on the counter is given in closed form; ContextTimer (both actions), the table Timer.__str__ prints, "
    "history(transpose=True), the display of IterationStats (closed form of the output, visible lines on an ideal terminal). "
    "The statistics-column / working-variable tables of the model are regenerated from the source by an ast translator and "
    "compared by the Lean kernel on every run. The model is tied to scico.util.Timer / ContextTimer / Optimizer.solve / "
    "IterationStats / the seven optimiser classes by exact replay of random histories."
)
LEVEL_NOTE = (
    "Trusted: Lean kernel (axioms propext, Classical.choice, Quot.sound); the hand-written model is tied to the code only by "
    "differential testing (<=12 / <=200 operations per history, problem sizes 2-4); step() and the accessors are "
    "parameters of the theorems (their numerics are C11's business); callbacks that assign nanstop/timer/itstat_object are "
    "outside the model; clock assumed non-decreasing with integer ticks; the printed text is compared as a sequence of "
    "(header | record n with its terminator | line feed) events rendered with scico's own format strings; two findings of the "
    "tree as it is (Timer.__str__ with a running timer, counter after a callback assigned maxiter<=0) are modelled at their "
    "documented/repaired behaviour and listed as known findings."
)
PROP_MODULES = ["Scico.Props.C15"]
EXTRA_TARGETS = ["Drv.Driver"]
DRIVER = "Driver"
FILES = [
    "scico/util.py",
    "scico/diagnostics.py",
    "scico/optimize/_common.py",
    "scico/optimize/_admm.py",
    "scico/optimize/_ladmm.py",
    "scico/optimize/_padmm.py",
    "scico/optimize/_primaldual.py",
    "scico/optimize/_pgm.py",
]
RULE = (
    "sessions: a random tiny problem (class, size 2-4, plain/block variables, sub-problem solver, NaN/Inf planted at a chosen "
    "iteration/functional/block/index, iter0, nanstop, statistics options) and a random history of solve(maxiter 0..4, "
    "callback or not)/step()/tick/nanstop operations with random integer step and callback durations; non-trivial when "
    "the history performs >=1 iteration inside solve; 30% of the sessions let random callback invocations assign "
    "optimizer.itnum / optimizer.maxiter; display options period 1-4 x shift_cycles x overwrite; distinct by (class, block, "
    "solver, nan spec, kwargs, ops, assignments). "
    "timer: random constructor arguments and call sequences over labels a,b,all,main,zz (None/single/list/tuple "
    "arguments also for the constructor, unknown labels, duplicates, ContextTimer enter/exit with both actions, str(timer)) "
    "on a random non-decreasing clock; non-trivial when >=1 elapsed query returns "
    "a positive value or a KeyError occurs; distinct by (cfg, calls)."
)
ASSUMPTIONS = [
    "the clock is non-decreasing and read only through scico.util.timer (fake clock with integer ticks)",
    "step() and the accessors are deterministic functions of the optimiser state (twin object driven by raw step() calls is the reference)",
    "callbacks may assign optimizer.itnum / optimizer.maxiter (modelled) but not nanstop / timer / itstat_object",
    "IterationStats period >= 1 (period 0 raises ZeroDivisionError in insert)",
]

MAX_OPS_QUICK, MAX_OPS_THOROUGH = 12, 200


def generate(ctx):
    """translator: statistics-field / working-variable tables of the optimiser classes, read from the working tree
    with `ast`, against the model's tables (one `decide` obligation)"""
    driver_translate.generate()
    driver_translate.generate_source()
    return [("Scico.Generated.DriverSource",
             "normalised statement lists of Optimizer.solve / __init__, itstat_func_and_object, _all_finite, every Timer and "
             "ContextTimer method, IterationStats.insert/end/history; signatures with default values; kwargs.pop defaults of "
             "Optimizer.__init__ - equal to the model's transcription (sourceSkeletons, sourceSignatures, optionDefaults)"),
            ("Scico.Generated.DriverFields",
             "statistics columns (name, format, attribute expression, per class and sub-problem-solver branch), assembly of the "
             "statistics function, and the arguments of _all_finite in every _working_vars_finite equal the model's tables")]


# --------------------------------------------------------------------------------------------------
# sessions


def model_options(model, kw):
    """Optimizer keyword handling through the model (`parseKwargs`)"""
    pairs = []
    for k, v in kw.items():
        if k == "itstat_options":
            pairs.append([k, 1])
        else:
            pairs.append([k, int(v)])
    return model.call("kwargs", kw=pairs)


def eval_session(model, case):
    """run one session on the real code, the twin and the model; returns (mismatch|None, bundle)"""
    spec, ops = case["spec"], case["ops"]
    st, ct, clock0 = case["step_ticks"], case["cb_ticks"], case.get("clock0", 0)
    n = D.max_steps(ops)
    if len(st) < n + 1 or len(ct) < n + 1:
        raise common.Infra("tick tables shorter than the history")
    twin = D.twin_tables(spec, n)
    s0 = D.build(spec)
    min0 = D.flat(s0.minimizer())
    ctl = case.get("ctl")
    nans = case.get("nans")
    real = D.run_history(spec, ops, st, ct, clock0, ctl=ctl, nans=nans)
    opts = model_options(model, spec.get("kwargs", {}))
    mres = model.call(
        "session", iter0=opts["iter0"], nanstop=opts["nanstop"], clock=clock0, ops=ops, stepTicks=st[: n + 1], cbTicks=ct[: n + 1],
        vars=twin["fin"] + [[]], ctl=[None if c == "raise" else c for c in (ctl or [])], raises=[c == "raise" for c in (ctl or [])], nans=(nans or []), disp=D.display_opts(spec.get("kwargs", {}).get("itstat_options")),
    )
    bundle = {"twin": twin, "real": real, "model": mres, "min0": min0}
    custom = spec.get("kwargs", {}).get("itstat_options") in ("custom", "custom-same")
    if real["fresh_len"] != 0:
        return {"op_index": -1, "op": "constructor", "what": "records of a freshly constructed optimiser", "impl": real["fresh_len"], "model": 0}, bundle
    if real["opts_unchanged"] is not True:
        return {"op_index": -1, "op": "constructor", "what": "caller's itstat_options object unchanged", "impl": False, "model": True}, bundle
    nrows = 0
    for idx, (o, ob, mo) in enumerate(zip(ops, real["obs"], mres)):
        def mm(what, impl, mod):
            return {"op_index": idx, "op": o, "what": what, "impl": impl, "model": mod}

        if o["op"] == "step":
            for key in ("itnum", "clock", "steps", "nrows"):
                if ob[key] != mo[key]:
                    return mm(key, ob[key], mo[key]), bundle
        elif o["op"] == "tick":
            for key in ("clock", "elapsed"):
                if ob[key] != mo[key]:
                    return mm(key, ob[key], mo[key]), bundle
        elif o["op"] == "solve":
            for key in ("outcome", "itnum", "clock", "steps", "elapsed", "running", "nanstop") + (("maxiter",) if ob["outcome"] == "ok" else ()):
                if ob[key] != mo[key]:
                    return mm(key, ob[key], mo[key]), bundle
            if len(ob["rows"]) != len(mo["rows"]):
                return mm("number of records", len(ob["rows"]), len(mo["rows"])), bundle
            for q, (r, m) in enumerate(zip(ob["rows"], mo["rows"])):
                if r[0] != m[0]:
                    return mm(f"record {q} Iter", r[0], m[0]), bundle
                if r[1] != m[1]:
                    return mm(f"record {q} Time", r[1], m[1]), bundle
                if custom:
                    want_c = [nrows + q] + [-float(c) for c in range(3, len(r))]
                    if list(r[2:]) != want_c:
                        return mm(f"record {q} custom fields", r[2:], want_c), bundle
                else:
                    acc = twin["acc"][m[2] - 1]
                    if [a for a, _ in acc] != real["names"][2:]:
                        return mm("statistics columns", real["names"][2:], [a for a, _ in acc]), bundle
                    if len(r) - 2 != len(acc) or not all(D.same_value(a, b[1]) for a, b in zip(r[2:], acc)):
                        return mm(f"record {q} fields vs accessor values after {m[2]} steps", r[2:], [b[1] for b in acc]), bundle
            if len(ob["cbs"]) != len(mo["cbs"]):
                return mm("number of callback invocations", len(ob["cbs"]), len(mo["cbs"])), bundle
            for q, (c, m) in enumerate(zip(ob["cbs"], mo["cbs"])):
                got = [c["itnum"], c["k"], c["enter"], c["leave"]]
                if got != m:
                    return mm(f"callback {q} (itnum, steps, enter, leave)", got, m), bundle
                if not c["same_obj"]:
                    return mm(f"callback {q} argument is the optimiser", False, True), bundle
                if c["nrows"] != nrows + q + 1:
                    return mm(f"callback {q} sees records", c["nrows"], nrows + q + 1), bundle
                if not D.same_flat(c["min"], twin["min"][m[1] - 1]):
                    return mm(f"callback {q} sees state after {m[1]} steps", c["min"], twin["min"][m[1] - 1]), bundle
            # what was printed: the model's events rendered with the object's own header and row texts
            text = ""
            for ev in mo["printed"]:
                if ev == "header":
                    text += str(real["header"]) + "\n"
                elif ev == "newline":
                    text += "\n"
                else:
                    text += ob.get("row_text", {}).get(ev[0], f"<no record {ev[0]}>") + ("\n" if ev[1] else "\r")
            if ob["printed_text"] != text:
                return mm("printed text", ob["printed_text"], text), bundle
            if ob["outcome"] == "ok":
                want = twin["min"][mo["ret"] - 1] if mo["ret"] > 0 else min0
                if not D.same_flat(ob["ret"], want):
                    return mm("returned minimiser", ob["ret"], want), bundle
            nrows += len(ob["rows"])
    if real["transpose_ok"] is not True:
        return {"op_index": len(ops), "op": "history(transpose=True)", "what": "transpose", "impl": real["transpose_ok"], "model": True}, bundle
    return None, bundle


def classify_known(case, mis, bundle):
    """is this disagreement exactly one of the two defects of the pinned tree?"""
    o = mis.get("op")
    if not isinstance(o, dict) or o.get("op") != "solve":
        return None
    mo = bundle["model"][mis["op_index"]]
    if mis["what"] == "itnum" and int(o["maxiter"]) <= 0 and mis["impl"] == mo.get("itnum_pinned") and mis["impl"] == mis["model"] + 1:
        return "maxiter0-itnum"
    if mis["what"] == "itnum" and case.get("ctl") and mis["impl"] == mo.get("itnum_late") and mis["impl"] == mis["model"] - 1:
        # the tree as it is decides the final increment on the maxiter the callbacks left
        return "callback-maxiter-counter"
    if mis["what"] == "outcome" and mis["model"] == "nan" and mis["impl"] == "ok":
        # the model stopped at a step where only block-array variables hold non-finite values
        k = mo["steps"]
        vs = bundle["twin"]["fin"][k - 1]
        plain_bad = any(("p" in v) and not all(v["p"]) for v in vs)
        block_bad = any(("b" in v) and any(not all(b) for b in v["b"]) for v in vs)
        if block_bad and not plain_bad:
            return "nanstop-block"
    return None


def session_oracle(case):
    spec, ops = case["spec"], case["ops"]
    dopt = D.display_opts(spec.get("kwargs", {}).get("itstat_options"))
    if dopt["display"] and dopt["period"] == 0:
        return None  # every insert raises ZeroDivisionError: the property makes no claim (C15_period_zero characterises it)
    st, ct, clock0 = case["step_ticks"], case["cb_ticks"], case.get("clock0", 0)
    n = D.max_steps(ops)
    twin = D.twin_tables(spec, n)
    min0 = D.flat(D.build(spec).minimizer())
    real = D.run_history(spec, ops, st, ct, clock0, ctl=case.get("ctl"), nans=case.get("nans"))
    r = G.solve_oracle(spec, ops, st, ct, real["obs"], twin, min0, ctl=case.get("ctl"), nans=case.get("nans"))
    if r is None and real["fresh_len"] != 0:
        r = {"fails": f"a freshly constructed optimiser already holds {real['fresh_len']} statistics records"}
    if r is None and real["opts_unchanged"] is not True:
        r = {"fails": "constructing the optimiser(s) modified the caller's itstat_options dictionary"}
    if r is None and real["transpose_ok"] is not True:
        r = {"fails": "history(transpose=True) is not the transpose of history()"}
    if r is not None:
        r = {"spec": spec, "ops": ops, "step_ticks": st, "cb_ticks": ct, **({"ctl": case["ctl"]} if case.get("ctl") else {}),
             **({"nans": case["nans"]} if case.get("nans") else {}), **r}
    return r


def shrink_session(model, case, mis):
    """delta-debug the operation list while the same kind of mismatch persists"""
    what = mis["what"].split(" ")[0]

    def still(ops):
        if not ops:
            return False
        c = dict(case, ops=ops)
        try:
            m, _ = eval_session(model, c)
        except Exception:  # noqa: BLE001
            return False
        return m is not None and m["what"].split(" ")[0] == what

    ops = common.shrink_list(case["ops"], still, max_steps=40)
    small = dict(case, ops=ops)
    # then try to drop the NaN plant / options
    for key in ("nan",):
        c2 = copy.deepcopy(small)
        c2["spec"][key] = None
        if still(c2["ops"]) and eval_session(model, c2)[0] is not None:
            small = c2
    return small


def session_key(case):
    sp = case["spec"]
    return json.dumps([sp["cls"], sp["block"], sp.get("solver"), sp.get("nan"), sp.get("kwargs"), sp.get("reuse"), case["ops"], case.get("ctl"), case.get("nans")], sort_keys=True)


def check_session(ctx, model, case, origin="gen"):
    mis, bundle = eval_session(model, case)
    spec, ops = case["spec"], case["ops"]
    iters = sum(len(o.get("rows", [])) for o in bundle["real"]["obs"])
    ctx.case({"kind": "session", "cls": spec["cls"], "ops": len(ops), "origin": origin}, session_key(case) if iters > 0 else None, sample_every=50)
    ctx.count(f"session:class={spec['cls']}")
    ctx.count(f"session:block={spec['block']}")
    ctx.count(f"session:ops<={(len(ops) + 9) // 10 * 10}")
    for o, ob in zip(ops, bundle["real"]["obs"]):
        if o["op"] == "solve":
            ctx.count(f"solve:outcome={ob['outcome']}")
            ctx.count(f"solve:maxiter={o['maxiter']}")
            ctx.count(f"solve:callback={o['cb']}")
    ctx.count("session:records", iters)
    if spec.get("kwargs", {}).get("itstat_options"):
        ctx.count(f"session:itstat_options={spec['kwargs']['itstat_options'].split(':')[0]}")
        dopt = D.display_opts(spec["kwargs"]["itstat_options"])
        if dopt["display"]:
            ctx.count(f"display:period={dopt['period']} shift={int(dopt['shift_cycles'])} overwrite={int(dopt['overwrite'])}")
            ctx.count("display:characters compared", sum(len(c.get("printed_text", "")) for c in bundle["real"]["obs"] if c.get("op") == "solve"))
    if case.get("nans"):
        ctx.count("session:callbacks assign nanstop")
    if spec.get("reuse"):
        ctx.count(f"session:optimisers built earlier from the same options object={spec['reuse']}")
    if case.get("ctl"):
        for c in bundle["real"]["obs"]:
            if c.get("op") == "solve" and c["outcome"] == "cbraise":
                ctx.count("solve:callback raised")
        ctx.count("session:callbacks assign itnum/maxiter")
        ncb = sum(len(c.get("cbs", [])) for c in bundle["real"]["obs"] if c.get("op") == "solve")
        ctx.count("session:callback invocations that assign", sum(1 for j in range(min(ncb, len(case["ctl"]))) if case["ctl"][j] is not None))
    if mis is None:
        return True
    kid = classify_known(case, mis, bundle)
    if kid is not None and ctx.is_known(kid):
        ctx.disagree("driver.session", case, mis["impl"], mis["model"], known_id=kid)
        return True
    small = shrink_session(model, case, mis)
    mis2, _ = eval_session(model, small)
    mis2 = mis2 or mis
    def around(c):
        # the property oracle at the shrunk history, at the original one, and at the shrunk history followed by a
        # pause and one more iteration (exposes state left behind by solve, e.g. a timer that keeps running)
        probe = dict(c, ops=list(c["ops"]) + [{"op": "tick", "d": 3}, {"op": "solve", "maxiter": 1, "cb": False}],
                     step_ticks=list(c["step_ticks"]) + [1, 1], cb_ticks=list(c["cb_ticks"]) + [1, 1],
                     **({"ctl": list(c["ctl"]) + [None, None]} if c.get("ctl") else {}))
        for cand in (c, case, probe):
            r = session_oracle(cand)
            if r is not None:
                return r
        return None

    ctx.disagree("driver.session", small, {"what": mis2["what"], "op_index": mis2["op_index"], "value": mis2["impl"]},
                 {"what": mis2["what"], "value": mis2["model"]}, oracle=around)
    return False


def check_session_exhaustive(ctx, model, depth):
    """EVERY history of <= depth operations over a 9-operation alphabet (solve with maxiter 0/1/2 with and without
    callback, a direct step(), switching nanstop on/off) on a PGM problem whose second step makes x non-finite,
    nanstop initially on, iter0 = 3"""
    import itertools

    alphabet = [{"op": "solve", "maxiter": m, "cb": cb} for m in (0, 1, 2) for cb in (False, True)]
    alphabet += [{"op": "step"}, {"op": "nanstop", "v": False}, {"op": "nanstop", "v": True}]
    spec = {"cls": "pgm", "n": 2, "block": True, "has_eval": True,
            "nan": {"at": 2, "who": "g", "pos": [1, 0], "val": "inf", "sanitise": True},
            "kwargs": {"iter0": 3, "nanstop": True}}
    n = 0
    for d in range(1, depth + 1):
        for seq in itertools.product(range(len(alphabet)), repeat=d):
            ops = [dict(alphabet[i]) for i in seq]
            if not any(o["op"] == "solve" for o in ops):
                continue
            k = D.max_steps(ops)
            case = {"kind": "session", "spec": spec, "ops": ops, "step_ticks": [1 + (q % 3) for q in range(k + 1)],
                    "cb_ticks": [5 + q for q in range(k + 1)], "clock0": 2}
            ok = check_session(ctx, model, case, origin="exhaustive")
            n += 1
            if not ok and len(ctx.violations) >= 3:
                return
    ctx.count("session:exhaustive histories", n)
    ctx.extra["session_exhaustive_scope"] = {"exhaustive": True, "histories": n, "depth": depth, "alphabet": alphabet, "spec": spec}


def gen_session(ctx, cls=None, max_ops=None):
    rng = ctx.rng
    spec = G.gen_spec(rng, cls=cls)
    ops = G.gen_ops(rng, max_ops or MAX_OPS_QUICK)
    n = D.max_steps(ops)
    st, ct = G.gen_ticks(rng, n)
    case = {"kind": "session", "spec": spec, "ops": ops, "step_ticks": st, "cb_ticks": ct, "clock0": int(rng.integers(0, 50))}
    ctl = G.gen_ctl(rng, n)
    if ctl is not None:
        case["ctl"] = ctl
    elif rng.random() < 0.3:
        case["nans"] = G.gen_nans(rng, n)  # callbacks that assign optimizer.nanstop (and nothing else)
    return case


# --------------------------------------------------------------------------------------------------
# timer


def model_timer(model, cfg, calls):
    mc = []
    for c in calls:
        m = {"t": c["t"], "op": c["op"], "arg": c.get("arg")}
        if c["op"] == "elapsed":
            m["total"] = c["total"]
        if c["op"] in ("ctx_enter", "ctx_exit"):
            m["action"] = c["action"]
        mc.append(m)
    r = model.call("timer", init=cfg["init"], dflt=cfg["dflt"], all=cfg["all"], calls=mc)
    if r["model"] != r["spec"]:
        raise common.Infra(f"Lean model and Lean stop-watch specifications (tick counting / gap summing) differ (contradicts C15_timer_refines_stopwatch / _clock / C15_timer_str): {cfg} {calls} {r}")
    return r


def model_str_rows(extra):
    """rows of the model's `Timer.strRows` with the numbers as `Timer.__str__` prints them"""
    return [[l, D.fmt_ticks(a), None if c is None else D.fmt_ticks(c)] for l, a, c in extra["rows"]]


def eval_timer(model, case):
    """-> (mismatch | None, implementation results, indices of `str` calls that hit the known TypeError)"""
    cfg, calls = case["cfg"], case["calls"]
    impl, keys = D.run_timer(cfg, calls)
    r = model_timer(model, cfg, calls)
    known = []
    for i, (a, b) in enumerate(zip(impl, r["model"])):
        if calls[i]["op"] == "str":
            want = model_str_rows(r["extra"][i])
            if a == "TypeError" and not r["extra"][i]["pinned_ok"]:
                known.append(i)  # some timer is running: the tree as it is cannot print the table
            elif a != want:
                return {"call_index": i, "call": calls[i], "what": "table", "impl": a, "model": want}, impl, known
        elif a != b:
            return {"call_index": i, "call": calls[i], "what": "result", "impl": a, "model": b}, impl, known
        if keys[i] != r["keys"][i]:
            return {"call_index": i, "call": calls[i], "what": "labels", "impl": keys[i], "model": r["keys"][i]}, impl, known
    return None, impl, known


def timer_oracle(case):
    cfg, calls = case["cfg"], case["calls"]
    impl, keys = D.run_timer(cfg, calls)
    want, want_keys = G.timer_oracle(cfg, calls, with_keys=True)
    for i, (a, b) in enumerate(zip(impl, want)):
        if a != b:
            return {"cfg": cfg, "calls": calls[: i + 1], "call_index": i, "timer_returned": a, "ideal_stopwatch": b,
                    "fails": ("str(timer) raised TypeError; the documented table of the ideal stop-watch is given" if a == "TypeError" else
                              "Timer result differs from the ideal stop-watch (-1 = KeyError)")}
        if keys[i] != want_keys[i]:
            return {"cfg": cfg, "calls": calls[: i + 1], "call_index": i, "labels_returned": keys[i], "labels_expected": want_keys[i],
                    "fails": "Timer.labels() is not the list of labels given to the constructor or started so far"}
    return None


def check_timer(ctx, model, case, origin="gen"):
    mis, impl, known = eval_timer(model, case)
    calls = case["calls"]
    nt = any((c["op"] == "elapsed" and r > 0) or r == -1 for c, r in zip(calls, impl) if not isinstance(r, (list, str, dict)))
    ctx.case({"kind": "timer", "calls": len(calls), "origin": origin}, json.dumps(case, sort_keys=True) if nt else None, sample_every=200)
    ctx.count(f"timer:calls<={(len(calls) + 9) // 10 * 10}")
    for c, r in zip(calls, impl):
        if c["op"] == "str":
            ctx.count("timer:str:" + ("TypeError" if r == "TypeError" else "rows<=%d" % ((len(r) + 1) // 2 * 2) if isinstance(r, list) else "unparsed"))
            continue
        ctx.count(f"timer:{c['op']}:{'KeyError' if r == -1 else 'ok'}")
        a = c.get("arg")
        ctx.count("timer:arg=" + ("None" if a is None else "list" if isinstance(a, list) else "all-label" if a == case["cfg"]["all"] else "label"))
    if case["cfg"].get("init_tuple"):
        ctx.count("timer:constructor labels as tuple")
    if known:
        if ctx.is_known("timer-str-running"):
            ctx.suppressed += len(known)
            ctx.known_finding("timer-str-running", True)
        else:
            i = known[0]
            small = dict(case, calls=calls[: i + 1])
            ctx.disagree("driver.timer", small, {"what": "table", "call_index": i, "value": "TypeError"},
                         {"what": "table", "value": "rows"}, oracle=timer_oracle)
            return False
    if mis is None:
        return True

    def still(cs):
        if not cs:
            return False
        try:
            return eval_timer(model, dict(case, calls=cs))[0] is not None
        except common.Infra:
            return False

    small = dict(case, calls=common.shrink_list(calls, still, max_steps=150))
    mis2, _, _ = eval_timer(model, small)
    mis2 = mis2 or mis
    ctx.disagree("driver.timer", small, {"what": mis2["what"], "call_index": mis2["call_index"], "value": mis2["impl"]},
                 {"what": mis2["what"], "value": mis2["model"]}, oracle=timer_oracle)
    return False


def check_timer_float(ctx, model, max_ops):
    """the real `Timer` on a FLOAT clock (dyadic values k * 2^-e, possibly below zero, so every float operation is
    exact) against the generic-clock model at tau = Int (values scaled by 2^e) and its gap-summing specification"""
    rng = ctx.rng
    for _ in range(ctx.n(250, 1500)):
        cfg, calls = G.gen_timer_case(rng, max_ops)
        calls = [c for c in calls if c["op"] != "str"]
        if not calls:
            continue
        e = int(rng.integers(0, 11))
        off = int(rng.integers(-200, 50))
        scale = 2.0 ** (-e)
        fcalls = [dict(c, t=(c["t"] + off) * scale) for c in calls]
        impl, keys = D.run_timer(cfg, fcalls)
        mc = []
        for c in calls:
            m = {"t": c["t"] + off, "op": c["op"], "arg": c.get("arg")}
            if c["op"] == "elapsed":
                m["total"] = c["total"]
            if c["op"] in ("ctx_enter", "ctx_exit"):
                m["action"] = c["action"]
            mc.append(m)
        r = model.call("timerz", init=cfg["init"], dflt=cfg["dflt"], all=cfg["all"], calls=mc)
        if r["model"] != r["spec"]:
            raise common.Infra(f"Lean generic-clock model and gap-summing specification differ (contradicts C15_timer_refines_stopwatch_clock): {cfg} {mc} {r}")
        nt = False
        for i, (a, b) in enumerate(zip(impl, r["model"])):
            want = -1 if b == "key" else b * scale
            got = float(a) if not isinstance(a, str) else a
            if calls[i]["op"] == "elapsed" and b != "key" and b != 0:
                nt = True
            if got != want:
                case = {"kind": "timer", "cfg": cfg, "calls": fcalls[: i + 1]}
                ctx.case({"kind": "timer-float", "calls": len(calls)}, None)
                ctx.disagree("driver.timer_float", case, {"call_index": i, "value": a}, {"value": want, "scale": scale},
                             oracle=timer_float_oracle)
                break
        else:
            ctx.case({"kind": "timer-float", "calls": len(calls), "exp": e, "offset": off}, json.dumps([cfg, mc, e]) if nt else None, sample_every=300)
            ctx.count(f"timer-float:2^-{e}")
            ctx.count("timer-float:clock starts below zero" if off + calls[0]["t"] < 0 else "timer-float:clock starts at or above zero")


def timer_float_oracle(case):
    """ideal stop-watch on the float history by summing the running intervals (no model): dyadic values, exact"""
    cfg, calls = case["cfg"], case["calls"]
    impl, _ = D.run_timer(cfg, calls)
    init = cfg["init"]
    existing = [] if init is None else ([init] if isinstance(init, str) else list(init))
    st = {}  # label -> [running since | None, accumulated, start of the trailing run | None]
    for i, c in enumerate(calls):
        t, op, arg = c["t"], c["op"], c.get("arg")
        if op in ("ctx_enter", "ctx_exit"):
            op = "start" if (c["action"] == "StartStop") == (op == "ctx_enter") else "stop"
        want = 0
        if op == "elapsed":
            lbl = cfg["dflt"] if arg is None else arg
            if lbl not in existing:
                want = 0 if arg is None else -1
            else:
                since, acc = st.get(lbl, [None, 0.0])
                cur = 0.0 if since is None else t - since
                want = cur + (acc if c["total"] else 0.0)
        elif op == "start":
            for l in ([cfg["dflt"]] if arg is None else [arg] if isinstance(arg, str) else list(arg)):
                if l not in existing:
                    existing.append(l)
                v = st.setdefault(l, [None, 0.0])
                if v[0] is None:
                    v[0] = t
        else:
            one = cfg["dflt"] if arg is None else arg
            ls = (list(dict.fromkeys(existing)) if one == cfg["all"] else [one]) if isinstance(one, str) else list(one)
            for l in ls:
                if l not in existing:
                    want = -1
                    break
                v = st.setdefault(l, [None, 0.0])
                if op == "stop":
                    if v[0] is not None:
                        v[1] += t - v[0]
                        v[0] = None
                else:
                    v[0], v[1] = None, 0.0
        got = impl[i]
        if float(got) != float(want):
            return {"cfg": cfg, "calls": calls[: i + 1], "call_index": i, "timer_returned": got, "ideal_stopwatch": want,
                    "fails": "Timer on a float clock differs from the ideal stop-watch (-1 = KeyError)"}
    return None


def check_timer_exhaustive(ctx, model, depth=3):
    import itertools

    args = [None, "a", "all", ["a", "zz", "b"], "zz"]
    alphabet = [(op, a) for op in ("start", "stop", "reset") for a in args]
    queries = [None, "a", "b", "zz", "all"]
    cfg = {"init": "b", "dflt": "main", "all": "all"}
    n = 0
    for d in range(1, depth + 1):
        for seq in itertools.product(alphabet, repeat=d):
            calls = []
            t = 0
            for op, a in seq:
                t += 2
                calls.append({"t": t, "op": op, "arg": a})
                for q in queries:
                    for tot in (True, False):
                        calls.append({"t": t + 1, "op": "elapsed", "arg": q, "total": tot})
            ok = check_timer(ctx, model, {"kind": "timer", "cfg": cfg, "calls": calls}, origin="exhaustive")
            n += 1
            if not ok and len(ctx.violations) >= 3:
                return
    ctx.count("timer:exhaustive histories", n)
    ctx.extra["timer_exhaustive_scope"] = {
        "exhaustive": True, "histories": n, "depth": depth, "alphabet": [[op, a] for op, a in alphabet],
        "queries_after_every_call": [[q, tot] for q in queries for tot in (True, False)], "cfg": cfg,
    }


# --------------------------------------------------------------------------------------------------
# constructor keywords, statistics columns, finiteness test


def check_kwargs(ctx, model):
    rng = ctx.rng
    for cls in D.CLASSES:
        for rep in range(ctx.n(2, 6)):
            spec = G.gen_spec(rng, cls=cls, force_nan=False)
            kw = dict(spec["kwargs"])
            bad = rng.random() < 0.3
            extra = {"maxiters": 3} if bad else {}
            case = {"kind": "kwargs", "spec": spec, "extra": extra}
            try:
                s = D.build(spec, **extra)
                impl = {"iter0": int(s.itnum), "maxiter": int(s.maxiter), "nanstop": bool(s.nanstop)}
            except TypeError:
                impl = "type"
                s = None
            try:
                m = model_options(model, {**kw, **extra})
                mod = {"iter0": m["iter0"], "maxiter": m["maxiter"], "nanstop": m["nanstop"]}
            except ModelErr as e:
                mod = e.kind
            ctx.case(case, json.dumps(case, sort_keys=True) if kw else None)
            ctx.count(f"kwargs:{'rejected' if impl == 'type' else 'accepted'}")
            if impl != mod:
                ctx.disagree("driver.kwargs", case, impl, mod)
                continue
            if s is not None:
                names = list(s.itstat_object.fieldname)
                if kw.get("itstat_options") in ("custom", "custom-same"):
                    continue
                fg, fh, gs = D.functional_flags(spec)
                evaluable = bool(model.call("objeval", cls=cls, fgiven=fg, fhas=fh, gs=gs))
                real_ev = bool(s._objective_evaluatable())
                ctx.count(f"objective evaluable:{real_ev}")
                if real_ev != evaluable or evaluable != D.objective_evaluable(spec):
                    ctx.disagree("driver.fields", dict(case, what="_objective_evaluatable"), real_ev, evaluable,
                                 oracle=lambda c, r=real_ev, d=D.objective_evaluable(spec): {**c, "fails": f"_objective_evaluatable() = {r} although "
                                 f"{'every' if d else 'not every'} functional of the problem can be evaluated"} if r != d else None)
                    continue
                want = model.call("fields", cls=cls, solver=spec.get("solver", "other"), obj=evaluable)
                ctx.count("fields:checked")
                if names != want:
                    ctx.disagree("driver.fields", case, names, want)
                    continue
                # the statistics function the constructor assembled evaluates exactly the model's attribute
                # expressions, in column order: same bytecode as the model's source text compiled here
                fs = model.call("fieldspecs", cls=cls, solver=spec.get("solver", "other"), obj=evaluable)
                scope = {}
                exec(fs["source"], scope)  # noqa: S102 - the model's rendering of scico's own generated function
                ref, real = scope["itstat_func"].__code__, s.itstat_insert_func.__code__
                got = [list(real.co_names), real.co_code.hex(), [repr(c) for c in real.co_consts]]
                exp = [list(ref.co_names), ref.co_code.hex(), [repr(c) for c in ref.co_consts]]
                ctx.count("fields:statistics function compared")
                if got != exp:
                    ctx.disagree("driver.fields", dict(case, what="statistics function"), got[0], exp[0])
                doc = {"admm": ["x", "*z_list", "*u_list"], "ladmm": ["x", "z", "u"], "padmm": ["x", "z", "u"], "nlpadmm": ["x", "z", "u"],
                       "pdhg": ["x", "z"], "pgm": ["x"], "apgm": ["x", "v"]}[cls]
                if fs["vars"] != doc:
                    ctx.disagree("driver.fields", dict(case, what="working variables"), doc, fs["vars"])


def check_itstat_setup(ctx, model):
    """`itstat_func_and_object` called 1-3 times with the SAME options object (None, {}, or a random selection of
    keys in random order) against the model's pure function: which insertion function, which IterationStats
    arguments, and the caller's dictionary afterwards (same keys, same order, same value objects)"""
    from scico.optimize._common import itstat_func_and_object

    rng = ctx.rng
    dflt_fields = {"Iter": "%d", "Time": "%8.2e"}
    custom_fields = {"Iter": "%d", "Row": "%d", "Extra": "%8.2e"}

    def custom_func(obj):
        return (0, 0, 0.0)

    pool = [("fields", custom_fields, 11), ("itstat_func", custom_func, 12), ("display", True, 1), ("display", False, 0),
            ("period", 3, 3), ("overwrite", False, 0), ("colsep", 4, 4), ("shift_cycles", False, 0), ("ident", None, -1)]
    for _ in range(ctx.n(120, 600)):
        r = rng.random()
        if r < 0.08:
            user, toks = None, None
        elif r < 0.16:
            user, toks = {}, []
        else:
            user, toks = {}, []
            for i in rng.permutation(len(pool)):
                k, v, t = pool[int(i)]
                if k not in user and rng.random() < 0.45:
                    user[k] = v
                    toks.append([k, t])
        n = int(rng.integers(1, 4))
        snap = None if user is None else list(user.items())
        impl = []
        for _b in range(n):
            f, obj = itstat_func_and_object(dict(dflt_fields), ["itnum", "timer.elapsed()"], user)
            kw = {"fields": 11 if obj.fieldname == list(custom_fields) else 1 if obj.fieldname == list(dflt_fields) else -9,
                  "display": int(bool(obj.display)), "period": int(obj.period), "overwrite": int(bool(obj.overwrite)),
                  "colsep": int(obj.colsep), "shift_cycles": int(obj.period_offset == 1)}
            impl.append({"func": 12 if f is custom_func else 2, "kwargs": kw})
        after_ok = user is None or (list(user.keys()) == [k for k, _ in snap] and all(user[k] is v for k, v in snap))
        m = model.call("itstat_setup", user=toks, n=n, fields=1, func=2, display=0)
        want = []
        for sset in m["setups"]:
            kw = {"period": 1, "overwrite": 1, "colsep": 2, "shift_cycles": 1}
            kw.update({k: v for k, v in sset["kwargs"] if k != "ident"})
            want.append({"func": sset["func"], "kwargs": kw})
        case = {"kind": "itstat_setup", "user": toks, "n": n}
        ctx.case(case, json.dumps(case, sort_keys=True) if toks else None, sample_every=100)
        ctx.count(f"options:objects built from one dict={n}")
        ctx.count("options:" + ("None" if toks is None else "empty" if not toks else "fields+func" if {"fields", "itstat_func"} <= {k for k, _ in toks} else "other"))

        def oracle(c, after_ok=after_ok, impl=impl):
            if not after_ok:
                return {**c, "fails": "itstat_func_and_object modified the caller's itstat_options dictionary"}
            if any(i != impl[0] for i in impl):
                return {**c, "fails": "optimisers built from the same options object got different statistics set-ups", "setups": impl}
            return None

        if impl != want or not after_ok or m["user_after"] != toks:
            ctx.disagree("driver.options", case, {"setups": impl, "dict_unchanged": after_ok}, {"setups": want, "dict_unchanged": m["user_after"] == toks},
                         oracle=oracle)


def check_finite(ctx, model):
    """`_working_vars_finite` of every class with a non-finite value planted directly in each entry of each
    block of each working variable (boundary stream: one bad entry at a time, and none)"""
    import numpy as np
    import scico.numpy as snp
    from scico.numpy import BlockArray

    rng = ctx.rng
    for cls in D.CLASSES:
        for block in (False, True):
            if cls == "nlpadmm" and block:
                continue
            spec = {"cls": cls, "n": 2 + int(rng.integers(2)), "block": block, "nan": None, "kwargs": {}, "solver": "linearScicoCG"}
            s = D.build(spec)
            names = {"admm": ["x", "z_list", "u_list"], "ladmm": ["x", "z", "u"], "padmm": ["x", "z", "u"], "nlpadmm": ["x", "z", "u"],
                     "pdhg": ["x", "z"], "pgm": ["x"], "apgm": ["x", "v"]}[cls]
            slots = []  # (attribute, list index or None)
            for a in names:
                v = getattr(s, a)
                if isinstance(v, list):
                    slots += [(a, i) for i in range(len(v))]
                else:
                    slots.append((a, None))

            def get(sl):
                v = getattr(s, sl[0])
                return v[sl[1]] if sl[1] is not None else v

            def put(sl, val):
                if sl[1] is not None:
                    l = list(getattr(s, sl[0]))
                    l[sl[1]] = val
                    setattr(s, sl[0], l)
                else:
                    setattr(s, sl[0], val)

            positions = [None]
            for sl in slots:
                v = get(sl)
                if isinstance(v, BlockArray):
                    positions += [(sl, b, i) for b in range(len(v)) for i in range(v[b].size)]
                else:
                    positions += [(sl, None, i) for i in range(v.size)]
            if not ctx.thorough and len(positions) > 9:
                idx = sorted(int(i) for i in rng.choice(len(positions) - 1, size=8, replace=False))
                positions = [None] + [positions[1 + i] for i in idx]
            # every position once with a non-finite value and once with a FINITE value of large magnitude (squares and
            # sums of squares overflow: float64 1e154..1.7e308, float32 1e19..3.4e38 with the variable cast to float32),
            # and each variable once with every entry large
            jobs = [(pos, "bad") for pos in positions] + [(pos, "big") for pos in positions[1:]] + [((sl, "all", 0), "big") for sl in slots]
            for pos, kind in jobs:
                f32 = kind == "big" and bool(rng.integers(2))
                if kind == "bad":
                    val = [np.nan, np.inf, -np.inf][int(rng.integers(3))]
                elif f32:
                    val = float(np.float32([1.5e19, -7e25, 3.0e38, -3.4e38][int(rng.integers(4))]))
                else:
                    val = [1.5e154, -1e200, 1.7e308, -1.79e308][int(rng.integers(4))]
                saved = None
                if pos is not None:
                    sl, b, i = pos
                    saved = get(sl)

                    def plant(a, idx):
                        a = a.astype(np.float32) if f32 else a
                        return (snp.full(a.shape, val, dtype=a.dtype) if idx == "all" else a.reshape(-1).at[idx].set(val).reshape(a.shape))

                    if b is None:
                        put(sl, plant(saved, i))
                    elif b == "all":
                        put(sl, snp.blockarray([plant(blk, "all") for blk in saved]) if isinstance(saved, BlockArray) else plant(saved, "all"))
                    else:
                        blocks = [(blk.astype(np.float32) if f32 else blk) for blk in saved]  # block arrays have one dtype
                        blocks[b] = plant(blocks[b], i)
                        put(sl, snp.blockarray(blocks))
                vs = [D.fin_struct(v) for v in D.working_vars(spec, s)]
                impl = bool(s._working_vars_finite())
                m = model.call("finite", vars=vs)
                case = {"kind": "finite", "cls": cls, "block": block, "pos": None if pos is None else [pos[0][0], pos[0][1], pos[1], pos[2]],
                        "planted": None if pos is None else val, "float32": f32, "vars": vs}
                ctx.case(case, json.dumps([cls, block, case["pos"], kind, f32]) if pos is not None else None, sample_every=100)
                ctx.count(f"finite:{'clean' if pos is None else ('large finite float32' if f32 else 'large finite float64') if kind == 'big' else 'block' if pos[1] is not None else 'plain'}")
                # the statement itself: finite iff every entry of every working variable is finite
                bad = any((not all(v["p"])) if "p" in v else any(not all(bb) for bb in v["b"]) for v in vs)
                if impl != m["fixed"] or impl == bad:
                    kid = "nanstop-block" if impl == m["pinned"] and kind == "bad" else None
                    ctx.disagree("driver.finite", case, impl, m["fixed"], known_id=kid,
                                 oracle=lambda c, impl=impl, bad=bad: {"fails": "_working_vars_finite() returned %s although %s" % (
                                     impl, "a working variable holds a non-finite value" if bad else "every entry of every working variable is finite"), **c}
                                 if impl == bad else None)
                if saved is not None:
                    put(pos[0], saved)


def check_transpose(ctx, model):
    rng = ctx.rng
    for _ in range(ctx.n(5, 30)):
        nr, nc = int(rng.integers(0, 5)), int(rng.integers(1, 5))
        rows = [[int(m * nc + n) for n in range(nc)] for m in range(nr)]
        got = model.call("transpose", rows=rows)
        from scico.diagnostics import IterationStats

        it = IterationStats({f"F{n}": "%d" for n in range(nc)})
        for r in rows:
            it.insert(tuple(r))
        tr = it.history(transpose=True)
        impl = [list(c) for c in tr] if rows else list(tr)
        ctx.case({"kind": "transpose", "rows": nr, "cols": nc}, None)
        ctx.count("transpose")
        if impl != got:
            ctx.disagree("driver.transpose", {"kind": "transpose", "rows": rows}, impl, got)


# --------------------------------------------------------------------------------------------------


def run_case(ctx, model, case, origin):
    k = case.get("kind")
    if k == "session":
        return check_session(ctx, model, case, origin)
    if k == "timer":
        return check_timer(ctx, model, case, origin)
    raise common.Infra(f"unknown corpus case kind {k}")


def correspond(ctx, model):
    common.setup_scico()
    # 1. corpus
    cdir = common.CORPUS_DIR / PROP
    if cdir.exists():
        for f in sorted(cdir.glob("*.json")):
            case = json.loads(f.read_text())
            for c in case if isinstance(case, list) else [case]:
                run_case(ctx, model, c, f"corpus/{f.name}")
                ctx.count("corpus cases")
    # 2. timer histories (quick: <=12 calls; thorough: <=200)
    max_ops = MAX_OPS_THOROUGH if ctx.thorough else MAX_OPS_QUICK
    for i in range(ctx.n(1500, 6000)):
        mo = max_ops if (not ctx.thorough or i % 4 == 0) else 30
        cfg, calls = G.gen_timer_case(ctx.rng, mo)
        check_timer(ctx, model, {"kind": "timer", "cfg": cfg, "calls": calls})
    # 2b. exhaustive small scope: EVERY history of <= 3 mutating calls over a 15-call alphabet (start/stop/reset x
    #     None / 'a' / the all label / a list with an unknown label in the middle / an unknown label), clock advancing
    #     by 2 per call, every label queried (both values of `total`) after every call
    check_timer_exhaustive(ctx, model)
    # 2c. float clock (exact dyadic values, also negative) against the generic-clock model
    check_timer_float(ctx, model, 30 if ctx.thorough else MAX_OPS_QUICK)
    # 3. constructor keywords / statistics columns / finiteness test / transpose
    check_kwargs(ctx, model)
    check_itstat_setup(ctx, model)
    check_finite(ctx, model)
    check_transpose(ctx, model)
    # 3b. exhaustive small scope of solve histories (depth 2 quick, 3 thorough)
    check_session_exhaustive(ctx, model, 3 if ctx.thorough else 2)
    # 4. solve histories, every class in turn
    nsess = ctx.n(140, 700)
    for i in range(nsess):
        cls = D.CLASSES[i % len(D.CLASSES)]
        if ctx.thorough:
            mo = MAX_OPS_THOROUGH if i % 10 == 0 else 40 if i % 5 == 0 else MAX_OPS_QUICK
        else:
            mo = MAX_OPS_QUICK
        check_session(ctx, model, gen_session(ctx, cls=cls, max_ops=mo))
        if len(ctx.violations) >= 3:
            break


def findings(ctx, model):
    """replay the witnesses of the two defects of the pinned tree (only reported while a `known:` line exists)"""
    common.setup_scico()
    wdir = common.CORPUS_DIR / PROP
    for kid, fname in (("maxiter0-itnum", "witness_maxiter0_itnum.json"), ("nanstop-block", "witness_nanstop_block.json"),
                       ("callback-maxiter-counter", "witness_callback_maxiter.json"), ("timer-str-running", "witness_timer_str.json")):
        if not ctx.is_known(kid):
            continue
        f = wdir / fname
        if not f.exists():
            raise common.Infra(f"witness {f} of known finding {kid} missing")
        case = json.loads(f.read_text())
        r = timer_oracle(case) if case.get("kind") == "timer" else session_oracle(case)
        ctx.known_finding(kid, r is not None, detail=(r or {}).get("fails", ""))


# --------------------------------------------------------------------------------------------------
# failing-input search: property oracles only (no model), targeted at the functions whose table rows differ


def _known_session(ctx, r):
    kid = None
    if "counter after solve" in r.get("fails", "") and r["op"].get("maxiter", 1) <= 0:
        kid = "maxiter0-itnum"
    elif "counter after solve" in r.get("fails", "") and r.get("callback_assigned_maxiter"):
        kid = "callback-maxiter-counter"
    if kid and ctx.is_known(kid):
        ctx.known_finding(kid, True)
        return True
    return False


def panel_sessions(ctx, classes=None, n_random=60):
    """exhaustive small scope (depth 2) + random sessions (all option sets, assigning / raising callbacks, shared options)"""
    import itertools

    alphabet = [{"op": "solve", "maxiter": m, "cb": cb} for m in (0, 1, 2) for cb in (False, True)] + [{"op": "step"}]
    for cls in (classes or ["pgm"]):
        spec = {"cls": cls, "n": 2, "block": cls not in ("nlpadmm", "admm"), "has_eval": True,
                "nan": {"at": 2, "who": "g", "pos": [0, 0], "val": "inf", "sanitise": True}, "kwargs": {"iter0": 3, "nanstop": True}}
        for d in (1, 2):
            for seq in itertools.product(range(len(alphabet)), repeat=d):
                ops = [dict(alphabet[i]) for i in seq]
                if not any(o["op"] == "solve" for o in ops):
                    continue
                k = D.max_steps(ops)
                case = {"kind": "session", "spec": spec, "ops": ops, "step_ticks": [1 + (q % 3) for q in range(k + 1)],
                        "cb_ticks": [5 + q for q in range(k + 1)], "clock0": 2}
                ctx.count("search:sessions (small scope)")
                r = session_oracle(case)
                if r is not None and not _known_session(ctx, r):
                    return r
    for i in range(n_random):
        cls = (classes or D.CLASSES)[i % len(classes or D.CLASSES)]
        case = gen_session(ctx, cls=cls, max_ops=MAX_OPS_QUICK)
        ctx.count("search:sessions")
        r = session_oracle(case)
        if r is not None and not _known_session(ctx, r):
            return r
    return None


def panel_timer(ctx, n_random=600):
    """every history of <= 3 mutating calls (15-call alphabet, all labels queried, arguments and `total` also left to
    their defaults, constructor labels left to their defaults) + random histories with ContextTimer / str"""
    import itertools

    args = [None, "a", "all", ["a", "zz", "b"], "zz"]
    alphabet = [(op, a) for op in ("start", "stop", "reset") for a in args]
    for ctor_defaults in (True, False):
        cfg = {"init": "b", "dflt": "main", "all": "all", "ctor_defaults": ctor_defaults}
        for d in (1, 2, 3):
            for seq in itertools.product(alphabet, repeat=d):
                calls, t = [], 0
                for op, a in seq:
                    t += 2
                    calls.append({"t": t, "op": op, "arg": a, **({"noarg": True} if a is None else {})})
                    for q in (None, "a", "b", "zz", "all", "main"):
                        for tot in (True, False):
                            calls.append({"t": t + 1, "op": "elapsed", "arg": q, "total": tot})
                    calls.append({"t": t + 1, "op": "elapsed", "arg": None, "total": True, "nototal": True, "noarg": True})
                    calls.append({"t": t + 1, "op": "elapsed", "arg": "a", "total": True, "nototal": True})
                ctx.count("search:timer (small scope)")
                r = timer_oracle({"cfg": cfg, "calls": calls})
                if r is not None:
                    return r
            if not ctor_defaults and d == 2:
                break  # the explicit-constructor variant only to depth 2
    for i in range(n_random):
        cfg, calls = G.gen_timer_case(ctx.rng, 30)
        r = timer_oracle({"cfg": cfg, "calls": calls})
        ctx.count("search:timer")
        if r is not None:
            if r.get("timer_returned") == "TypeError" and ctx.is_known("timer-str-running"):
                ctx.known_finding("timer-str-running", True)
                r = timer_oracle({"cfg": cfg, "calls": [c for c in calls if c["op"] != "str"]})
                if r is None:
                    continue
            return r
    return None


def panel_finite(ctx):
    """`_working_vars_finite()` against the statement (finite iff every entry of every working variable is finite)"""
    import numpy as np
    import scico.numpy as snp
    from scico.numpy import BlockArray

    for cls in D.CLASSES:
        for block in (False, True):
            if cls == "nlpadmm" and block:
                continue
            spec = {"cls": cls, "n": 2, "block": block, "nan": None, "kwargs": {}, "solver": "linearScicoCG"}
            s = D.build(spec)
            vars0 = D.working_vars(spec, s)
            if not bool(s._working_vars_finite()):
                return {"cls": cls, "block": block, "fails": "_working_vars_finite() is False on a freshly constructed optimiser"}
            names = {"admm": ["x", "z_list", "u_list"], "ladmm": ["x", "z", "u"], "padmm": ["x", "z", "u"], "nlpadmm": ["x", "z", "u"],
                     "pdhg": ["x", "z"], "pgm": ["x"], "apgm": ["x", "v"]}[cls]
            for a in names:
                v0 = getattr(s, a)
                items = list(range(len(v0))) if isinstance(v0, list) else [None]
                for li in items:
                    cur = v0[li] if li is not None else v0
                    nb = len(cur) if isinstance(cur, BlockArray) else 1
                    for b in range(nb):
                        for val, bad in ((np.nan, True), (np.inf, True), (-np.inf, True), (1e200, False), (-1.7e308, False)):
                            blk = cur[b] if isinstance(cur, BlockArray) else cur
                            nblk = blk.reshape(-1).at[blk.size - 1].set(val).reshape(blk.shape)
                            new = snp.blockarray([nblk if q == b else cur[q] for q in range(nb)]) if isinstance(cur, BlockArray) else nblk
                            if li is not None:
                                l = list(v0)
                                l[li] = new
                                setattr(s, a, l)
                            else:
                                setattr(s, a, new)
                            got = bool(s._working_vars_finite())
                            setattr(s, a, v0)
                            ctx.count("search:finite")
                            if got == bad:
                                return {"cls": cls, "block": block, "variable": a, "list_index": li, "block_index": b, "planted": repr(val),
                                        "fails": f"_working_vars_finite() returned {got} with {val!r} planted in the last entry of a working variable"}
            del vars0
    return None


def panel_constructor(ctx):
    """documented defaults and keyword handling of Optimizer.__init__, and the options object"""
    from scico.optimize._common import itstat_func_and_object

    for cls in D.CLASSES:
        spec = {"cls": cls, "n": 2, "block": False, "nan": None, "kwargs": {}, "solver": "linearScicoCG"}
        s = D.build(spec)
        ctx.count("search:constructor")
        got = {"itnum": int(s.itnum), "maxiter": int(s.maxiter), "nanstop": bool(s.nanstop), "records": len(s.itstat_object.history()),
               "timer_labels": list(s.timer.labels())}
        want = {"itnum": 0, "maxiter": 100, "nanstop": False, "records": 0, "timer_labels": []}
        if got != want:
            return {"cls": cls, "constructed_without_keywords": got, "documented": want, "fails": "defaults of Optimizer.__init__ differ from the documented ones"}
        try:
            D.build(spec, maxiters=3)
            return {"cls": cls, "fails": "an unknown keyword argument (maxiters=3) was accepted"}
        except TypeError:
            pass
        s = D.build(dict(spec, kwargs={"iter0": 5, "maxiter": 2, "nanstop": True}))
        if (int(s.itnum), int(s.maxiter), bool(s.nanstop)) != (5, 2, True):
            return {"cls": cls, "fails": "iter0 / maxiter / nanstop keywords not stored"}

    def custom(obj):
        return (0, 0)

    for user in (None, {}, {"itstat_func": custom}, {"fields": {"A": "%d", "B": "%d"}, "itstat_func": custom}, {"display": False, "period": 3}):
        snap = None if user is None else list(user.items())
        res = []
        for _ in range(3):
            f, obj = itstat_func_and_object({"Iter": "%d", "Time": "%8.2e"}, ["itnum", "timer.elapsed()"], user)
            res.append((f is custom, list(obj.fieldname), int(obj.period)))
        ctx.count("search:options")
        if user is not None and (list(user.keys()) != [k for k, _ in snap] or not all(user[k] is v for k, v in snap)):
            return {"options": sorted(user or {}), "fails": "itstat_func_and_object modified the caller's itstat_options dictionary"}
        if any(r != res[0] for r in res) or res[0][0] != bool(user and "itstat_func" in user):
            return {"options": None if user is None else sorted(user), "setups": res, "fails": "statistics set-up is not a function of the options alone"}
    return None


def _differing_rows(model):
    """keys of the translated tables that differ from the model's transcription (None = could not be determined)"""
    try:
        src = driver_translate.read_source()
    except Exception:  # noqa: BLE001
        return None
    m = model.call("srctables")
    ms = {k: [[int(d), t] for d, t in rows] for k, rows in m["skeletons"]}
    keys = set()
    for k, rows in src["skeletons"]:
        if ms.get(k) != [[int(d), t] for d, t in rows]:
            keys.add(k)
    keys |= set(ms) - {k for k, _ in src["skeletons"]}
    msig = {k: [list(q) for q in ps] for k, ps in m["signatures"]}
    for k, ps in src["signature"]:
        if msig.get(k) != [list(q) for q in ps]:
            keys.add(k)
    if [n for n, _ in src["pops"]] != list(m["options"]):
        keys.add("Optimizer.__init__")
    return keys


def search(ctx, model, why):
    """failing-input search with the property oracles only.  After a broken generated obligation the panels of the
    functions whose table rows differ run first (so a behaviour-changing edit is reported with a failing input); then,
    and in the unconditional thorough-tier search, all panels."""
    common.setup_scico()
    panels = {"timer": panel_timer, "finite": panel_finite, "constructor": panel_constructor}
    order = []
    classes = None
    if why is not None:
        keys = _differing_rows(model) if "DriverSource" in why.get("module", "") else None
        ctx.extra.setdefault("search_targets", {})[why.get("module", "?")] = sorted(keys) if keys else "all"
        if keys:
            cmap = {c[2]: c[0] for c in driver_translate.CLASSES}
            hit = [cmap[k.split(".")[0]] for k in keys if k.split(".")[0] in cmap]
            classes = sorted(set(hit)) or None
            for k in sorted(keys):
                if k.startswith(("Timer.", "ContextTimer.")):
                    order.append("timer")
                elif k == "_all_finite":
                    order.append("finite")
                elif k in ("Optimizer.__init__", "itstat_func_and_object"):
                    order += ["constructor", "sessions"]
                else:
                    order.append("sessions")
        elif "DriverFields" in why.get("module", ""):
            order = ["finite", "sessions"]
    order += ["sessions", "timer", "constructor", "finite"] if why is None or not order else ["sessions", "timer", "constructor", "finite"]
    done = set()
    for name in order:
        if name in done:
            continue
        done.add(name)
        if name == "sessions":
            r = panel_sessions(ctx, classes=(classes if classes else None) and classes, n_random=60)
            if r is None and classes:
                r = panel_sessions(ctx, classes=None, n_random=40)
        else:
            r = panels[name](ctx) if name != "timer" else panel_timer(ctx, n_random=600 if why is None else 200)
        if r is not None:
            return dict(r, found_by_panel=name)
    return None


def replay(ctx, model, case):
    common.setup_scico()
    c = case.get("case", case)
    kind = c.get("kind")
    if kind == "session":
        r = session_oracle(c)
    elif kind == "timer":
        r = timer_oracle(c)
    else:
        r = None
        print("replay: case kind", kind, "has no property oracle; re-running the correspondence")
    print("replay:", "property FAILS on implementation:" if r else "no failure of the property at this input", json.dumps(r, default=str)[:1500])
    if r:
        ctx.violation({"kind": "failing-input", "case": c, "failing": r}, True, "replay")
    elif kind in ("session", "timer"):
        run_case(ctx, model, c, "replay")
