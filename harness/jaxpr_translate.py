"""Source-derived class table of C06 (round 4): which classes does scico PRESENT as linear operators?

`scan(repo)` walks the package sources with `ast` (no import: optional back-ends such as astra / svmbir are seen as
well) and returns every class that derives - transitively, by name, across modules - from `LinearOperator`, plus the
classes manufactured by `linop_from_function(f, "Name", ...)` at module level.  `emit(...)` writes
`lean/Scico/Generated/JaxprClasses.lean` with the decidable obligations

    every class of the source is covered by a class of the enumeration (harness/opgrid.py + harness/jaxpr_ops.py)
        or pinned in EXCLUDED below with its reason,
    no pin is stale (every pinned class still exists in the source),
    every class the enumeration claims to cover exists in the source,

so that a new LinearOperator subclass (or a renamed / removed one) breaks an obligation instead of silently staying
outside the grid.
"""

from __future__ import annotations

import ast
import pathlib

import common

GEN = common.LEAN_DIR / "Scico" / "Generated" / "JaxprClasses.lean"
MODULE = "Scico.Generated.JaxprClasses"

# classes of the source that are deliberately not enumerated, with the reason (pinned: a stale pin fails as well)
EXCLUDED = {
    "LinearOperator": "the base class itself: exercised through GenericLinearOperator (eval_fn / adj_fn) and every subclass",
    "Propagator": "abstract base of the three optics propagators (each of which is enumerated)",
    "XRayTransform2D@astra": "astra back-end (library not installed)",
    "XRayTransform3D@astra": "astra back-end (library not installed)",
    "XRayTransform@svmbir": "svmbir back-end (library not installed)",
}

# enumeration class (opgrid / jaxpr_ops) -> source classes it constructs, where the names differ
COVERS = {
    "linop_from_function": ["Transpose", "Reshape", "Pad", "Sum"],
    "OutsideLinop": ["PaddedCircularConvolve"],
    "TVNormAux": ["SingleAxisFiniteSum", "FiniteSum", "SingleAxisHaarTransform", "HaarTransform"],
}


def scan(repo):
    """-> {qualified name: file} ; qualified = Class or Class@backend for the optional back-end modules"""
    root = pathlib.Path(repo) / "scico"
    classes = {}  # name -> list of (bases, file)
    made = {}
    for f in sorted(root.rglob("*.py")):
        rel = f.relative_to(root).as_posix()
        if "/test" in "/" + rel or rel.startswith("test"):
            continue
        try:
            tree = ast.parse(f.read_text())
        except SyntaxError:
            continue
        for node in ast.walk(tree):
            if isinstance(node, ast.ClassDef):
                bases = []
                for b in node.bases:
                    if isinstance(b, ast.Name):
                        bases.append(b.id)
                    elif isinstance(b, ast.Attribute):
                        bases.append(b.attr)
                classes.setdefault(node.name, []).append((bases, rel))
            elif isinstance(node, ast.Assign) and isinstance(node.value, ast.Call):
                fn = node.value.func
                fname = fn.id if isinstance(fn, ast.Name) else fn.attr if isinstance(fn, ast.Attribute) else None
                if fname == "linop_from_function" and len(node.value.args) >= 2 and isinstance(node.value.args[1], ast.Constant):
                    made[str(node.value.args[1].value)] = rel
    linear = {"LinearOperator"}
    changed = True
    while changed:
        changed = False
        for name, defs in classes.items():
            if name not in linear and any(set(b) & linear for b, _ in defs):
                linear.add(name)
                changed = True
    out = {}
    for name in sorted(linear):
        for bases, rel in classes.get(name, []):
            if name != "LinearOperator" and not (set(bases) & linear):
                continue
            backend = "astra" if rel.endswith("astra.py") else "svmbir" if rel.endswith("svmbir.py") else None
            out[f"{name}@{backend}" if backend else name] = rel
    for name, rel in made.items():
        out[name] = rel
    return out


ARITH = ("__call__", "__matmul__", "__rmatmul__", "__add__", "__radd__", "__sub__", "__rsub__", "__mul__", "__rmul__", "__truediv__", "__neg__")


def scan_overriders(repo, linear_names):
    """-> {class: [arithmetic dunders it defines]} for the LinearOperator classes of the source (ast)"""
    root = pathlib.Path(repo) / "scico"
    out = {}
    for f in sorted(root.rglob("*.py")):
        rel = f.relative_to(root).as_posix()
        if "/test" in "/" + rel or rel.endswith(("astra.py", "svmbir.py")):
            continue
        try:
            tree = ast.parse(f.read_text())
        except SyntaxError:
            continue
        for node in ast.walk(tree):
            if isinstance(node, ast.ClassDef) and node.name in linear_names:
                ov = sorted(m.name for m in node.body if isinstance(m, ast.FunctionDef) and m.name in ARITH)
                if ov:
                    out[node.name] = ov
    return out


def emit(repo, enumeration_classes, calculus_left=None):
    src = scan(repo)
    over = scan_overriders(repo, {k.split("@")[0] for k in src})
    calc = sorted(set((calculus_left or {}).values()))
    covered = set()
    for c in enumeration_classes:
        covered.add(c)
        covered.update(COVERS.get(c, []))
    covered_src = sorted(c for c in covered if c in src)  # enumeration names that are source classes
    claimed = sorted({c for c in enumeration_classes if c in src} | {x for v in COVERS.values() for x in v})

    def lst(xs):
        return "[" + ", ".join(f'"{x}"' for x in xs) + "]"

    lines = [
        "/- GENERATED by harness/jaxpr_translate.py from the working tree of the code under test - do not edit.",
        "   Classes that scico presents as linear operators (ast scan of the package: subclasses of LinearOperator, transitively,",
        "   and classes made by linop_from_function) against the classes enumerated by the C06 tie. -/",
        f"namespace {MODULE}",
        "",
        "/-- every class of the source deriving from LinearOperator (`Name@backend` for the optional back-end modules) -/",
        f"def sourceClasses : List String := {lst(sorted(src))}",
        "",
        "/-- source classes constructed by the enumeration (harness/opgrid.py, harness/jaxpr_ops.py) -/",
        f"def covered : List String := {lst(covered_src)}",
        "",
        "/-- source classes the enumeration claims to construct -/",
        f"def claimed : List String := {lst(claimed)}",
        "",
        "/-- deliberately outside, with reasons:",
    ] + [f"      {k}: {v}" for k, v in sorted(EXCLUDED.items())] + [
        "-/",
        f"def excluded : List String := {lst(sorted(EXCLUDED))}",
        "",
        "/-- LinearOperator classes that define an arithmetic dunder of their own (`__call__`, `__matmul__`, `__add__`, ...): " + "; ".join(f"{k}: {' '.join(v)}" for k, v in sorted(over.items())) + " -/",
        f"def arithmeticOverriders : List String := {lst(sorted(over))}",
        "",
        "/-- classes instantiated as the LinearOperator side of the operator arithmetic with a NON-linear Operator (class CalculusMixed) -/",
        f"def calculusLeft : List String := {lst(calc)}",
        "",
        "-- every class with arithmetic of its own is combined with non-linear operators by the tie (the result must not be presented as linear)",
        ("example : arithmeticOverriders.all (fun c => calculusLeft.contains c) = true := by decide" if calculus_left is not None else "-- (no calculus table given)"),
        "-- every class presented as a linear operator is enumerated or pinned",
        "example : sourceClasses.all (fun c => covered.contains c || excluded.contains c) = true := by decide",
        "-- no stale pin, no stale claim",
        "example : excluded.all (fun c => sourceClasses.contains c) = true := by decide",
        "example : claimed.all (fun c => sourceClasses.contains c) = true := by decide",
        "",
        f"end {MODULE}",
        "/- where: " + "; ".join(f"{k} = scico/{v}" for k, v in sorted(src.items())) + " -/",
    ]
    text = "\n".join(lines) + "\n"
    if not GEN.exists() or GEN.read_text() != text:
        GEN.write_text(text)
    missing = sorted(c for c in src if c not in covered and c not in EXCLUDED)
    stale = sorted(c for c in EXCLUDED if c not in src) + sorted(c for c in claimed if c not in src)
    missing = missing + sorted(f"{c} (arithmetic not combined with a non-linear operator)" for c in over if calculus_left is not None and c not in calc)
    return MODULE, src, missing, stale
