"""Shared machinery of the scico verification harness (DESIGN.md §2, §6).

Everything a per-property adapter (``harness/cNN.py``) needs:

* locating the code under test (``$SCICO_REPO``, default ``/repo``) and importing
  scico from there with 64-bit JAX on the CPU;
* the client of the Lean model drivers (JSON line protocol, exact float
  transport as IEEE-754 bit patterns);
* building Lean targets, auditing axioms / forbidden tokens;
* the run context ``Ctx``: PRNG, counters, distribution histogram, samples,
  disagreement / violation bookkeeping, known findings, evidence writing.

Exit codes of a check: 0 held, 1 violation, 2 infrastructure failure.
"""

from __future__ import annotations

import hashlib
import json
import math
import os
import re
import struct
import subprocess
import sys
import time
import traceback
from pathlib import Path

VERIF = Path(__file__).resolve().parent.parent
LEAN_DIR = VERIF / "lean"
EVIDENCE_DIR = Path(os.environ.get("VERIF_EVIDENCE_DIR", str(VERIF / "evidence")))
REPLAY_DIR = VERIF / "replays"
CORPUS_DIR = VERIF / "corpus"
KNOWN_FILE = VERIF / "known_findings.txt"
REPO = Path(os.environ.get("SCICO_REPO", "/repo")).resolve()

ALLOWED_AXIOMS = {"propext", "Classical.choice", "Quot.sound"}
FORBIDDEN = re.compile(
    r"\bsorry\b|\badmit\b|^\s*axiom\s|native_decide|bv_decide|implemented_by|\bunsafe\s|maxHeartbeats\s+0\b"
)


class Infra(Exception):
    """Infrastructure failure (exit 2) - never reported as a violation."""


# --------------------------------------------------------------------------
# code under test


def setup_scico():
    """Import scico from $SCICO_REPO with x64 enabled on CPU.  Returns the module."""
    os.environ.setdefault("JAX_PLATFORMS", "cpu")
    os.environ.setdefault("JAX_ENABLE_X64", "1")
    os.environ.setdefault("XLA_FLAGS", "--xla_cpu_multi_thread_eigen=false intra_op_parallelism_threads=2")
    os.environ.setdefault("SCICO_VERIF", "1")
    p = str(REPO)
    if p in sys.path:
        sys.path.remove(p)
    sys.path.insert(0, p)
    import jax

    jax.config.update("jax_enable_x64", True)
    import scico

    got = Path(scico.__file__).resolve().parent.parent
    if got != REPO:
        raise Infra(f"scico imported from {got}, expected {REPO}")
    return scico


def source_fingerprint(files):
    """sha256 (first 16 hex) of each anchored source file of the working tree."""
    out = {}
    for f in files:
        p = REPO / f
        try:
            out[f] = hashlib.sha256(p.read_bytes()).hexdigest()[:16]
        except OSError:
            out[f] = "missing"
    return out


# --------------------------------------------------------------------------
# exact float transport


def f2b(x) -> int:
    """binary64 value -> integer of its bit pattern"""
    return struct.unpack("<Q", struct.pack("<d", float(x)))[0]


def b2f(n: int) -> float:
    return struct.unpack("<d", struct.pack("<Q", int(n)))[0]


def fs2b(xs):
    """flat iterable of reals -> list of bit patterns"""
    import numpy as np

    return [f2b(v) for v in np.asarray(xs, dtype=np.float64).ravel().tolist()]


def b2fs(ns):
    return [b2f(n) for n in ns]


def close(a, b, k=1, rtol=1e-9) -> bool:
    """tolerance rule of DESIGN §3: |a-b| <= rtol*k*(1+max(|a|,|b|)); nan==nan, inf==inf"""
    a = float(a)
    b = float(b)
    if math.isnan(a) or math.isnan(b):
        return math.isnan(a) and math.isnan(b)
    if math.isinf(a) or math.isinf(b):
        return a == b
    return abs(a - b) <= rtol * max(k, 1) * (1.0 + max(abs(a), abs(b)))


def allclose(xs, ys, k=None, rtol=1e-9) -> bool:
    import numpy as np

    xs = np.asarray(xs, dtype=np.float64).ravel()
    ys = np.asarray(ys, dtype=np.float64).ravel()
    if xs.shape != ys.shape:
        return False
    kk = k if k is not None else max(1, xs.size)
    return all(close(a, b, kk, rtol) for a, b in zip(xs.tolist(), ys.tolist()))


def dyadic(rng, shape=(), bits=6, scale=4.0):
    """random dyadic rationals k/2^bits in [-scale, scale] (exact in binary arithmetic)"""
    import numpy as np

    q = 1 << bits
    k = rng.integers(-int(scale * q), int(scale * q) + 1, size=shape)
    return np.asarray(k, dtype=np.float64) / q


# --------------------------------------------------------------------------
# Lean side


def _run(cmd, cwd=None, timeout=None, env=None):
    try:
        p = subprocess.run(
            cmd, cwd=cwd, timeout=timeout, env=env, stdout=subprocess.PIPE, stderr=subprocess.STDOUT, text=True
        )
    except subprocess.TimeoutExpired as e:
        raise Infra(f"timeout: {' '.join(map(str, cmd))}") from e
    return p.returncode, p.stdout


def lake_build(targets, timeout=3600):
    """`lake build <targets>` in /verif/lean.  Returns (ok, log)."""
    rc, out = _run(["lake", "build", *targets], cwd=LEAN_DIR, timeout=timeout)
    return rc == 0, out


def lean_sources_of(modules):
    """Transitive closure of project-local imports of the given modules -> list of paths"""
    seen = {}
    todo = list(modules)
    while todo:
        m = todo.pop()
        if m in seen:
            continue
        p = LEAN_DIR / (m.replace(".", "/") + ".lean")
        if not p.exists():
            continue
        seen[m] = p
        for line in p.read_text().splitlines():
            mm = re.match(r"\s*(?:public\s+)?import\s+((?:Scico|Drv)\.[\w.]+)", line)
            if mm:
                todo.append(mm.group(1))
    return seen


def strip_lean_comments(src: str) -> str:
    # nested block comments
    out = []
    i, depth, n = 0, 0, len(src)
    while i < n:
        if src.startswith("/-", i):
            depth += 1
            i += 2
        elif depth and src.startswith("-/", i):
            depth -= 1
            i += 2
        elif depth:
            if src[i] == "\n":
                out.append("\n")
            i += 1
        elif src.startswith("--", i):
            while i < n and src[i] != "\n":
                i += 1
        else:
            out.append(src[i])
            i += 1
    return "".join(out)


def forbidden_tokens(modules):
    """grep the (comment-stripped) sources the property depends on for forbidden constructs"""
    hits = []
    for m, p in lean_sources_of(modules).items():
        for ln, line in enumerate(strip_lean_comments(p.read_text()).splitlines(), 1):
            if FORBIDDEN.search(line):
                hits.append(f"{p.relative_to(VERIF)}:{ln}: {line.strip()}")
    return hits


THEOREM_RE = re.compile(r"^\s*(?:@\[[^\]]*\]\s*)?(?:protected\s+|private\s+)?theorem\s+([^\s:({\[]+)", re.M)
NAMESPACE_RE = re.compile(r"^\s*(namespace|end)\s+([\w.]+)\s*$")


def theorems_in(path: Path):
    """fully-qualified names of the theorems declared in a Lean file (namespace-aware)"""
    names = []
    stack = []
    src = strip_lean_comments(path.read_text())
    for line in src.splitlines():
        m = NAMESPACE_RE.match(line)
        if m:
            if m.group(1) == "namespace":
                stack.append(m.group(2))
            elif stack and stack[-1] == m.group(2):
                stack.pop()
            continue
        t = THEOREM_RE.match(line)
        if t:
            nm = t.group(1)
            if nm.startswith("_root_."):
                names.append(nm[len("_root_.") :])
            else:
                names.append(".".join(stack + [nm]))
    return names


def axioms_audit(prop_modules, timeout=3600):
    """`#print axioms` on every theorem of the given Props modules.

    Returns dict name -> list of axioms (None if the name could not be resolved)."""
    thms = []
    for m in prop_modules:
        p = LEAN_DIR / (m.replace(".", "/") + ".lean")
        thms += theorems_in(p)
    audit_dir = LEAN_DIR / ".lake" / "audit"
    audit_dir.mkdir(parents=True, exist_ok=True)
    tag = hashlib.sha1(" ".join(prop_modules).encode()).hexdigest()[:10]
    f = audit_dir / f"Audit_{tag}.lean"
    body = "".join(f"import {m}\n" for m in prop_modules) + "".join(f"#print axioms {t}\n" for t in thms)
    f.write_text(body)
    rc, out = _run(["lake", "env", "lean", str(f)], cwd=LEAN_DIR, timeout=timeout)
    res = {t: None for t in thms}
    # messages: "'name' depends on axioms: [a, b]" / "'name' does not depend on any axioms"
    for m in re.finditer(r"'([^']+)' depends on axioms: \[([^\]]*)\]", out, re.S):
        res[m.group(1)] = [a.strip() for a in m.group(2).replace("\n", " ").split(",") if a.strip()]
    for m in re.finditer(r"'([^']+)' does not depend on any axioms", out):
        res[m.group(1)] = []
    return res, out


class ModelErr(Exception):
    """The model rejected the request the way the real code rejects it (error kind enum)."""

    def __init__(self, kind):
        super().__init__(kind)
        self.kind = kind


class Model:
    """Client of one Lean driver `Drv/<Name>.lean`, run with `lake env lean --run`."""

    def __init__(self, name: str):
        self.name = name
        f = LEAN_DIR / "Drv" / f"{name}.lean"
        if not f.exists():
            raise Infra(f"no driver {f}")
        self.proc = subprocess.Popen(
            ["lake", "env", "lean", "--run", str(f)],
            cwd=LEAN_DIR,
            stdin=subprocess.PIPE,
            stdout=subprocess.PIPE,
            stderr=subprocess.PIPE,
            text=True,
            bufsize=1,
        )
        self.calls = 0

    def raw(self, req: dict) -> dict:
        line = json.dumps(req, separators=(",", ":"))
        try:
            self.proc.stdin.write(line + "\n")
            self.proc.stdin.flush()
            out = self.proc.stdout.readline()
        except BrokenPipeError:
            out = ""
        if not out:
            errtxt = ""
            try:
                errtxt = self.proc.stderr.read()[-2000:]
            except Exception:
                pass
            raise Infra(f"driver {self.name} died on {line[:300]}: {errtxt}")
        self.calls += 1
        try:
            return json.loads(out)
        except json.JSONDecodeError as e:
            raise Infra(f"driver {self.name} wrote non-JSON: {out[:300]}") from e

    def call(self, op: str, **fields):
        """returns the `ok` payload; raises ModelErr(kind) for `err`, Infra for `bad`"""
        r = self.raw({"op": op, **fields})
        if "ok" in r:
            return r["ok"]
        if "err" in r:
            raise ModelErr(r["err"])
        raise Infra(f"driver {self.name}: {r.get('bad')} for op {op} fields {json.dumps(fields)[:400]}")

    def close(self):
        try:
            self.proc.stdin.close()
            self.proc.wait(timeout=20)
        except Exception:
            self.proc.kill()


# --------------------------------------------------------------------------
# error-kind canonicalisation of Python exceptions


def err_kind(e: BaseException) -> str:
    if isinstance(e, KeyError):
        return "key"
    if isinstance(e, IndexError):
        return "index"
    if isinstance(e, NotImplementedError):
        return "notimpl"
    if isinstance(e, TypeError):
        return "type"
    if isinstance(e, ValueError):
        msg = str(e).lower()
        if "dtype" in msg:
            return "dtype"
        if "shape" in msg or "size" in msg or "dimension" in msg:
            return "shape"
        return "value"
    return "other"


# --------------------------------------------------------------------------
# known findings


def load_known():
    """returns (known, fixed): lists of dicts {property, id, text}"""
    known, fixed = [], []
    if KNOWN_FILE.exists():
        for line in KNOWN_FILE.read_text().splitlines():
            line = line.strip()
            if not line or line.startswith("#"):
                continue
            m = re.match(r"(known|fixed):\s+property=(C\d+)\s+(?:id=(\S+)\s+)?(.*)$", line)
            if not m:
                continue
            d = {"property": m.group(2), "id": m.group(3), "text": m.group(4)}
            (known if m.group(1) == "known" else fixed).append(d)
    return known, fixed


# --------------------------------------------------------------------------
# run context


class Ctx:
    def __init__(self, prop: str, tier: str, seed: int):
        import numpy as np

        self.prop = prop
        self.tier = tier
        self.seed = seed
        self.rng = np.random.Generator(np.random.PCG64(seed))
        self.t0 = time.time()
        self.evaluations = 0
        self.nontrivial_keys = set()
        self.hist = {}  # distribution histogram: key -> count
        self.samples = []
        self.obligations = 0
        self.discharged = 0
        self.obligation_notes = []
        self.theorems = {}
        self.disagreements = []  # list of dict
        self.violations = []  # list of (replay_path, found_input)
        self.known_hits = {}  # id -> text
        self.suppressed = 0
        self.extra = {}
        self.assumptions = []
        self.trusted_base = []
        self.checker_cmd = ""
        self.rule = ""
        self.exhaustive = None
        known, fixed = load_known()
        self.known = {k["id"]: k for k in known if k["property"] == prop}
        self.fixed = [k for k in fixed if k["property"] == prop]

    @property
    def thorough(self):
        return self.tier == "thorough"

    def n(self, quick: int, thorough: int) -> int:
        return thorough if self.thorough else quick

    # -- counting -----------------------------------------------------------
    def count(self, key: str, k: int = 1):
        self.hist[key] = self.hist.get(key, 0) + k

    def case(self, desc, nontrivial_key=None, sample_every=0):
        """register one evaluated case; `nontrivial_key` (hashable/JSON-able) identifies it as a
        distinct non-trivial case by the adapter's rule (None = trivial)."""
        self.evaluations += 1
        if nontrivial_key is not None:
            self.nontrivial_keys.add(
                nontrivial_key if isinstance(nontrivial_key, (str, int, tuple)) else json.dumps(nontrivial_key, sort_keys=True)
            )
        if len(self.samples) < 6 or (sample_every and self.evaluations % sample_every == 0 and len(self.samples) < 20):
            self.samples.append(desc)

    # -- findings -------------------------------------------------------------
    def known_finding(self, fid: str, still_fails: bool, detail: str = ""):
        """Report the replay of a witness listed in known_findings.txt."""
        k = self.known.get(fid)
        if k is None:
            return False
        if still_fails:
            if fid not in self.known_hits:
                self.known_hits[fid] = k["text"]
                print(f"KNOWN-FINDING: property={self.prop} id={fid} {k['text']}" + (f" [{detail}]" if detail else ""), flush=True)
            return True
        self.count(f"known-finding-no-longer-fails:{fid}")
        return False

    def is_known(self, fid) -> bool:
        return fid is not None and fid in self.known

    # -- violations -------------------------------------------------------------
    def violation(self, replay: dict, found_input: bool, what: str = ""):
        REPLAY_DIR.mkdir(exist_ok=True)
        replay = dict(replay)
        replay.setdefault("property", self.prop)
        replay.setdefault("seed", self.seed)
        replay.setdefault("tier", self.tier)
        replay["found_failing_input"] = bool(found_input)
        if what:
            replay.setdefault("what", what)
        blob = json.dumps(replay, sort_keys=True, default=str)
        h = hashlib.sha1(blob.encode()).hexdigest()[:12]
        path = REPLAY_DIR / f"{self.prop}-{h}.json"
        path.write_text(json.dumps(replay, indent=1, sort_keys=True, default=str))
        rel = path.relative_to(VERIF)
        self.violations.append((str(rel), found_input))
        tail = "" if found_input else " no-failing-input-found"
        print(f"VIOLATION property={self.prop} replay={rel}{tail}", flush=True)
        if what:
            print(f"  ({what})", flush=True)

    # -- evidence -------------------------------------------------------------
    def write_evidence(self, files=()):
        EVIDENCE_DIR.mkdir(exist_ok=True)
        cov = {
            "obligations": self.obligations,
            "discharged": self.discharged,
            "checker_cmd": self.checker_cmd or "cd lean && lake build && lake env lean <#print axioms audit>",
            "trusted_base": self.trusted_base
            or [
                "Lean 4.33 kernel",
                "Mathlib v4.33 (compiled on this image)",
                "axioms: propext, Classical.choice, Quot.sound only (audited by #print axioms every run)",
                "correspondence harness (differential test model vs code) and line protocol",
                "real-number idealisation of IEEE arithmetic",
            ],
            "evaluations": self.evaluations,
            "distinct_nontrivial": len(self.nontrivial_keys),
            "rule": self.rule,
            "samples": self.samples[:20],
            "traces_validated_against_impl": self.evaluations,
            "disagreements_checked": len(self.disagreements),
            "distribution": dict(sorted(self.hist.items())),
            "theorems": self.theorems,
            "obligation_notes": self.obligation_notes,
            "known_findings_reproduced": self.known_hits,
            "suppressed_by_known_findings": self.suppressed,
            "source_fingerprint": source_fingerprint(files),
            "repo": str(REPO),
        }
        if self.exhaustive is not None:
            cov["exhaustive"] = self.exhaustive
        extra = dict(self.extra)
        if "exhaustive" in extra and not isinstance(extra["exhaustive"], bool):
            # the schema reserves coverage.exhaustive for a boolean; a description goes under its own key
            extra["exhaustive_scope"] = extra.pop("exhaustive")
        cov.update(extra)
        ev = {
            "property_id": self.prop,
            "tier": self.tier,
            "seed": self.seed,
            "level": "proof",
            "coverage": cov,
            "assumptions": self.assumptions,
            "wall_s": round(time.time() - self.t0, 2),
            "violations": len(self.violations),
        }
        (EVIDENCE_DIR / f"{self.prop}.json").write_text(json.dumps(ev, indent=1, default=str))


def shrink_list(xs, still_fails, max_steps=200):
    """delta-debugging style shrinking of a list (operation sequence) while `still_fails(xs)`"""
    xs = list(xs)
    steps = 0
    chunk = max(1, len(xs) // 2)
    while chunk >= 1 and steps < max_steps:
        i = 0
        changed = False
        while i < len(xs) and steps < max_steps:
            cand = xs[:i] + xs[i + chunk :]
            steps += 1
            if cand != xs and still_fails(cand):
                xs = cand
                changed = True
            else:
                i += chunk
        if not changed:
            chunk //= 2
    return xs
