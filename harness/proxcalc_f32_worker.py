"""Default-precision worker of the engine ProxCalc (C08): run as a subprocess WITHOUT jax_enable_x64.  Every tree case
(JSON description of proxcalc_gen) and every SquaredL2Loss case is built with float32 / complex64 data and operators, and
flags, f(x), prox(v, lam) are computed; reports values, raised error kinds and the dtypes of the results.
Reads {"repo": …, "trees": [...], "sql2": [...]} on stdin, prints {"trees": [...], "sql2": [...]} on stdout."""

import json
import os
import sys
import warnings

os.environ["JAX_PLATFORMS"] = "cpu"
os.environ.pop("JAX_ENABLE_X64", None)
os.environ.setdefault("XLA_FLAGS", "--xla_cpu_multi_thread_eigen=false intra_op_parallelism_threads=2")
req = json.loads(sys.stdin.read())
os.environ["SCICO_REPO"] = req["repo"]
sys.path.insert(0, req["repo"])
sys.path.insert(0, os.path.dirname(os.path.abspath(__file__)))
warnings.simplefilter("ignore")
import numpy as np  # noqa: E402

import jax  # noqa: E402

assert not jax.config.jax_enable_x64
import scico  # noqa: E402,F401

import common  # noqa: E402
import proxcalc_gen as G  # noqa: E402
from common import b2f  # noqa: E402

G.SINGLE = True
import c08  # noqa: E402


def dtypes_of(r):
    if G.is_block(r):
        return [str(np.asarray(b).dtype) for b in r]
    return [str(np.asarray(r).dtype)]


def run(fn):
    try:
        return ("ok", fn())
    except Exception as e:  # noqa: BLE001
        return ("err", common.err_kind(e) + ": " + repr(e)[:160])


out = {"trees": [], "sql2": []}
for k, case in enumerate(req["trees"]):
    rec = {}
    cplx = case["cplx"]
    shape = G.norm_shape(case["shape"])
    b = run(lambda: G.build(scico, case))
    if b[0] == "err" or b[1][0] is TypeError:
        rec["build"] = "type" if b[0] == "ok" else b[1]
        out["trees"].append(rec)
        continue
    obj = b[1][0]
    rec["flags"] = [bool(obj.has_eval), bool(obj.has_prox)]
    x = G.arg_to_scico(case["x"], shape, cplx)
    v = G.arg_to_scico(case["v"], shape, cplx)
    e = run(lambda: obj(x))
    rec["eval"] = [e[0], (complex(e[1]).real if e[0] == "ok" else e[1])]
    if e[0] == "ok":
        rec["eval_dtype"] = str(np.asarray(e[1]).dtype) if not isinstance(e[1], (float, int)) else "python"
    p = run(lambda: obj.prox(v, b2f(case["lam"])))
    rec["prox"] = [p[0], (G.arg_flat(p[1], cplx).tolist() if p[0] == "ok" else p[1])]
    if p[0] == "ok":
        rec["prox_dtypes"] = dtypes_of(p[1])
    out["trees"].append(rec)
    if k % 40 == 39:
        jax.clear_caches()
for case in req["sql2"]:
    rec = {}
    cplx = case["cplx"]
    b = run(lambda: c08.build_sql2(scico, case))
    if b[0] == "err":
        rec["build"] = b[1]
        out["sql2"].append(rec)
        continue
    L = b[1][0]
    import scico.numpy as snp

    dt = G.cdt() if cplx else G.rdt()
    v = snp.array(G.unil(common.b2fs(case["v"]), cplx).astype(dt))
    rec["flags"] = [bool(L.has_eval), bool(L.has_prox)]
    rec["kwargs"] = {k_: (float(v_) if isinstance(v_, float) else v_) for k_, v_ in dict(L.prox_kwargs).items()}
    e = run(lambda: L(v))
    rec["eval"] = [e[0], (float(e[1]) if e[0] == "ok" else e[1])]
    if e[0] == "ok":
        rec["eval_dtype"] = str(np.asarray(e[1]).dtype)
    p = run(lambda: L.prox(v, b2f(case["lam"])))
    rec["prox"] = [p[0], (G.il(np.asarray(p[1]), cplx).tolist() if p[0] == "ok" else p[1])]
    if p[0] == "ok":
        rec["prox_dtypes"] = [str(np.asarray(p[1]).dtype)]
    h = run(lambda: L.hessian(v))
    rec["hessian"] = [h[0], (G.il(np.asarray(h[1]), cplx).tolist() if h[0] == "ok" else h[1])]
    out["sql2"].append(rec)
print(json.dumps(out))
