"""Translator of the Adjoint engine (C01): the DATA of the scico source that the hand-written model copies
-> lean/Scico/Generated/AdjointTables.lean, rewritten on every run from the working tree of $SCICO_REPO with `ast` only
(scico is not imported).  The generated module proves `decide`-able obligations against the pinned tables of
`Scico/Proofs/AdjointTables.lean`:

* overrides : every class of scico/linop/**.py and functional/_tvnorm.py that derives from LinearOperator (transitively, by
              base-class names), with its bases, the adjoint-relevant methods / properties it defines itself
              (`_adj adj T H conj gram_op gram _eval __call__ __add__ … __rmatmul__`) and HOW its adjoint comes about
              (`method` = own `_adj`/`adj`, `adj_fn` = passes `adj_fn=` to the base constructor, `assign` = `self._adj = …` in
              `__init__`, `derived` = left to `linear_adjoint`, or inherited); plus the operators made by
              `linop_from_function` — a new, removed or moved override is noticed;
* closures  : the keyword arguments (`eval_fn`, `adj_fn`, `input_shape`, `output_shape`, `input_dtype`, `output_dtype`) of every
              constructor call inside the derived constructors of `_linop.py` (`__add__ __sub__ __mul__ __truediv__ T H conj gram_op`,
              `ComposedLinearOperator.__init__`), as normalised source text, against the text recorded next to the model's
              `Op.*` / `TOp.*` constructors;
* branches  : the `if / elif / else` structure of `scico.linear_adjoint` (tests and the function that is transposed in each
              branch) against the model's `linearAdjoint`;
* bodies    : a digest of the normalised statements of every other method the model follows line by line (guards of `adj` and
              `__call__`, `_to_output_space`, `_set_adjoint`, stack adjoints and construction tests, MatrixOperator / Diagonal
              overrides, CircularConvolve `_eval`/`_adj`, X-ray projectors and slab loops, `jacobian`, `__rmatmul__`).
"""

from __future__ import annotations

import ast
import hashlib
import os
from pathlib import Path

import common

OUT = common.LEAN_DIR / "Scico" / "Generated" / "AdjointTables.lean"

METHODS = ["_adj", "adj", "T", "H", "conj", "gram_op", "gram", "_eval", "__call__", "__add__", "__sub__", "__radd__", "__rsub__",
           "__mul__", "__rmul__", "__truediv__", "__rtruediv__", "__neg__", "__matmul__", "__rmatmul__"]

LINOP_FILES = ["scico/linop/_linop.py", "scico/linop/_matrix.py", "scico/linop/_diag.py", "scico/linop/_stack.py", "scico/linop/_circconv.py",
               "scico/linop/_convolve.py", "scico/linop/_dft.py", "scico/linop/_diff.py", "scico/linop/_func.py", "scico/linop/_grad.py",
               "scico/linop/_util.py", "scico/linop/abel.py", "scico/linop/optics.py", "scico/linop/xray/_xray.py",
               "scico/functional/_tvnorm.py"]

# (file, class or "", function) whose statements the model follows line by line
BODIES = [
    ("scico/linop/_linop.py", "LinearOperator", "adj"),
    ("scico/linop/_linop.py", "LinearOperator", "_set_adjoint"),
    ("scico/linop/_linop.py", "LinearOperator", "_to_output_space"),
    ("scico/linop/_linop.py", "LinearOperator", "__rmatmul__"),
    ("scico/linop/_linop.py", "LinearOperator", "__call__"),
    ("scico/linop/_linop.py", "LinearOperator", "gram"),
    ("scico/linop/_linop.py", "", "_wrap_add_sub"),
    ("scico/operator/_operator.py", "Operator", "__call__"),
    ("scico/operator/_operator.py", "Operator", "__neg__"),
    ("scico/operator/_operator.py", "Operator", "vjp"),
    ("scico/linop/_stack.py", "VerticalStack", "_adj"),
    ("scico/linop/_stack.py", "DiagonalStack", "_adj"),
    ("scico/linop/_stack.py", "DiagonalReplicated", "__init__"),
    ("scico/operator/_stack.py", "", "collapse_shapes"),
    ("scico/operator/_stack.py", "", "is_collapsible"),
    ("scico/operator/_stack.py", "VerticalStack", "check_if_stackable"),
    ("scico/operator/_stack.py", "VerticalStack", "_eval"),
    ("scico/operator/_stack.py", "DiagonalStack", "check_if_stackable"),
    ("scico/operator/_stack.py", "DiagonalStack", "_eval"),
    ("scico/linop/_matrix.py", "MatrixOperator", "adj"),
    ("scico/linop/_matrix.py", "MatrixOperator", "_eval"),
    ("scico/linop/_matrix.py", "MatrixOperator", "__call__"),
    ("scico/linop/_matrix.py", "MatrixOperator", "T"),
    ("scico/linop/_matrix.py", "MatrixOperator", "H"),
    ("scico/linop/_matrix.py", "MatrixOperator", "conj"),
    ("scico/linop/_matrix.py", "MatrixOperator", "gram_op"),
    ("scico/linop/_matrix.py", "", "_wrap_add_sub_matrix"),
    ("scico/linop/_diag.py", "Diagonal", "_eval"),
    ("scico/linop/_diag.py", "Diagonal", "T"),
    ("scico/linop/_diag.py", "Diagonal", "H"),
    ("scico/linop/_diag.py", "Diagonal", "conj"),
    ("scico/linop/_diag.py", "Diagonal", "gram_op"),
    ("scico/linop/_diag.py", "Diagonal", "__add__"),
    ("scico/linop/_diag.py", "Diagonal", "__sub__"),
    ("scico/linop/_diag.py", "Diagonal", "__mul__"),
    ("scico/linop/_diag.py", "Diagonal", "__truediv__"),
    ("scico/linop/_diag.py", "Diagonal", "__matmul__"),
    ("scico/linop/_diag.py", "ScaledIdentity", "conj"),
    ("scico/linop/_diag.py", "ScaledIdentity", "gram_op"),
    ("scico/linop/_circconv.py", "CircularConvolve", "_eval"),
    ("scico/linop/_circconv.py", "CircularConvolve", "_adj"),
    ("scico/linop/xray/_xray.py", "XRayTransform2D", "_project"),
    ("scico/linop/xray/_xray.py", "XRayTransform2D", "_back_project"),
    ("scico/linop/xray/_xray.py", "XRayTransform3D", "_project"),
    ("scico/linop/xray/_xray.py", "XRayTransform3D", "_project_single"),
    ("scico/linop/xray/_xray.py", "XRayTransform3D", "_back_project"),
    ("scico/linop/xray/_xray.py", "XRayTransform3D", "_back_project_single"),
    ("scico/linop/_util.py", "", "jacobian"),
]

DERIVED = ["__add__", "__sub__", "__mul__", "__truediv__", "T", "H", "conj", "gram_op"]
KW = ["input_shape", "output_shape", "eval_fn", "adj_fn", "input_dtype", "output_dtype"]


def _repo():
    return Path(os.environ.get("SCICO_REPO", "/repo"))


def _parse(rel):
    p = _repo() / rel
    return ast.parse(p.read_text(), filename=str(p))


def _strip_doc(body):
    if body and isinstance(body[0], ast.Expr) and isinstance(getattr(body[0], "value", None), ast.Constant) and isinstance(body[0].value.value, str):
        return body[1:]
    return body


def _statements(fn):
    """normalised statements of a function in source order: compound statements contribute a header line and their bodies
    (nested function definitions included: they are the closures), docstrings and comments dropped"""
    out = []

    def walk(stmts, depth):
        for st in _strip_doc(list(stmts)):
            pre = "  " * depth
            if isinstance(st, (ast.FunctionDef, ast.AsyncFunctionDef)):
                out.append(pre + "def " + st.name + "(" + ast.unparse(st.args) + ")")
                walk(st.body, depth + 1)
            elif isinstance(st, ast.If):
                out.append(pre + "if " + ast.unparse(st.test))
                walk(st.body, depth + 1)
                if st.orelse:
                    out.append(pre + "else")
                    walk(st.orelse, depth + 1)
            elif isinstance(st, ast.For):
                out.append(pre + "for " + ast.unparse(st.target) + " in " + ast.unparse(st.iter))
                walk(st.body, depth + 1)
            elif isinstance(st, ast.With):
                out.append(pre + "with " + ", ".join(ast.unparse(i) for i in st.items))
                walk(st.body, depth + 1)
            elif isinstance(st, ast.Try):
                out.append(pre + "try")
                walk(st.body, depth + 1)
                for h in st.handlers:
                    out.append(pre + "except " + (ast.unparse(h.type) if h.type else ""))
                    walk(h.body, depth + 1)
            elif isinstance(st, ast.Raise):
                exc = st.exc.func if isinstance(st.exc, ast.Call) else st.exc
                out.append(pre + "raise " + (ast.unparse(exc) if exc is not None else ""))
            else:
                out.append(pre + ast.unparse(st))
        return out

    walk(fn.body, 0)
    return out


def _find(tree, cls, name):
    scope = tree.body
    if cls:
        for n in tree.body:
            if isinstance(n, ast.ClassDef) and n.name == cls:
                scope = n.body
                break
        else:
            return None
    for n in scope:
        if isinstance(n, ast.FunctionDef) and n.name == name:
            return n
    return None


def _digest(lines):
    return hashlib.sha256("\n".join(lines).encode()).hexdigest()[:16]


def _adj_kind(cls):
    names = {n.name for n in cls.body if isinstance(n, ast.FunctionDef)}
    if "_adj" in names or "adj" in names:
        return "method"
    init = next((n for n in cls.body if isinstance(n, ast.FunctionDef) and n.name == "__init__"), None)
    if init is not None:
        for node in ast.walk(init):
            if isinstance(node, ast.Call) and any(
                k.arg == "adj_fn" and not (isinstance(k.value, ast.Constant) and k.value.value is None) for k in node.keywords
            ):
                return "adj_fn"
            if isinstance(node, ast.Assign) and any(ast.unparse(t) == "self._adj" for t in node.targets):
                return "assign"
    return "derived"


def extract():
    # ---- overrides ------------------------------------------------------------------------------------------
    classes = []  # (file, name, bases, ClassDef)
    factories = []
    trees = {}
    for rel in LINOP_FILES:
        tree = trees[rel] = _parse(rel)
        for n in tree.body:
            if isinstance(n, ast.ClassDef):
                classes.append((rel, n.name, [ast.unparse(b).split(".")[-1] for b in n.bases], n))
            if isinstance(n, ast.Assign) and isinstance(n.value, ast.Call) and ast.unparse(n.value.func) == "linop_from_function":
                factories.append((rel.split("/")[-1], ast.unparse(n.targets[0]), ast.unparse(n.value.args[0])))
    linear = {"LinearOperator"}
    changed = True
    while changed:
        changed = False
        for _, name, bases, _ in classes:
            if name not in linear and any(b in linear for b in bases):
                linear.add(name)
                changed = True
    overrides = []
    for rel, name, bases, node in classes:
        if name not in linear:
            continue
        own = [n.name for n in node.body if isinstance(n, ast.FunctionDef) and n.name in METHODS]
        own = [m for m in METHODS if m in own]
        overrides.append((rel.replace("scico/", ""), name, " ".join(bases), " ".join(own), _adj_kind(node)))
    # ---- closures of the derived constructors of _linop.py ----------------------------------------------------
    closures = []
    lin = trees["scico/linop/_linop.py"]
    for meth in DERIVED:
        fn = _find(lin, "LinearOperator", meth)
        k = 0
        for node in ast.walk(fn) if fn is not None else []:
            if isinstance(node, ast.Call) and ast.unparse(node.func) == "LinearOperator":
                kws = {kw.arg: ast.unparse(kw.value) for kw in node.keywords}
                closures.append((f"LinearOperator.{meth}#{k}", [kws.get(a, "-") for a in KW]))
                k += 1
    fn = _find(lin, "ComposedLinearOperator", "__init__")
    for node in ast.walk(fn) if fn is not None else []:
        if isinstance(node, ast.Call) and ast.unparse(node.func) == "super().__init__":
            kws = {kw.arg: ast.unparse(kw.value) for kw in node.keywords}
            closures.append(("ComposedLinearOperator.__init__", [kws.get(a, "-") for a in KW]))
    if fn is not None:
        tests = [ast.unparse(st.test) for st in fn.body if isinstance(st, ast.If)]
        closures.append(("ComposedLinearOperator.__init__ tests", tests + ["-"] * (len(KW) - len(tests)) if len(tests) <= len(KW) else tests))
    # ---- linear_adjoint --------------------------------------------------------------------------------------
    la = _find(_parse("scico/_autograd.py"), "", "linear_adjoint")
    branches = []
    if la is not None:
        for st in la.body:
            if isinstance(st, ast.If):
                cur = st
                while True:
                    asg = {ast.unparse(a.targets[0]): ast.unparse(a.value) for a in cur.body if isinstance(a, ast.Assign)}
                    branches.append((ast.unparse(cur.test), asg.get("_fun", "?"), asg.get("_primals", "?")))
                    if len(cur.orelse) == 1 and isinstance(cur.orelse[0], ast.If):
                        cur = cur.orelse[0]
                        continue
                    asg = {ast.unparse(a.targets[0]): ast.unparse(a.value) for a in cur.orelse if isinstance(a, ast.Assign)}
                    branches.append(("else", asg.get("_fun", "?"), asg.get("_primals", "?")))
                    break
            elif isinstance(st, ast.Return):
                branches.append(("return", ast.unparse(st.value), ""))
            elif isinstance(st, ast.FunctionDef):
                branches.append(("def " + st.name, " ; ".join(_statements(st)), ""))
    # ---- bodies ----------------------------------------------------------------------------------------------
    bodies, texts = [], {}
    cache = {}
    for rel, cls, name in BODIES:
        tree = cache.setdefault(rel, _parse(rel))
        fn = _find(tree, cls, name)
        q = rel.replace("scico/", "") + ":" + (cls + "." if cls else "") + name
        lines = _statements(fn) if fn is not None else ["<missing>"]
        bodies.append((q, len(lines), _digest(lines)))
        texts[q] = lines
    return {"overrides": overrides, "factories": factories, "closures": closures, "branches": branches, "bodies": bodies, "texts": texts}


def _s(x):
    return '"' + str(x).replace("\\", "\\\\").replace('"', '\\"') + '"'


def render(t):
    L = []
    L.append("/- GENERATED by harness/adjoint_translate.py from scico/linop/**, scico/operator/_operator.py, scico/operator/_stack.py,")
    L.append("   scico/_autograd.py, scico/functional/_tvnorm.py (ast) — rewritten on every run, do not edit. -/")
    L.append("import Scico.Proofs.AdjointTables")
    L.append("")
    L.append("namespace Scico.Generated.AdjointTables")
    L.append("open Scico.AdjointTables")
    L.append("")
    L.append("/-- (file, class, bases, adjoint-relevant methods / properties defined in the class, how its adjoint comes about) -/")
    L.append("def overrides : List (String × String × String × String × String) := [")
    L.append(",\n".join("  (" + ", ".join(_s(x) for x in row) + ")" for row in t["overrides"]) + "]")
    L.append("")
    L.append("/-- (file, operator made by `linop_from_function`, the function) -/")
    L.append("def factories : List (String × String × String) := [")
    L.append(",\n".join("  (" + ", ".join(_s(x) for x in row) + ")" for row in t["factories"]) + "]")
    L.append("")
    L.append("/-- (derived constructor of _linop.py, [input_shape, output_shape, eval_fn, adj_fn, input_dtype, output_dtype] as written) -/")
    L.append("def closures : List (String × List String) := [")
    L.append(",\n".join("  (" + _s(q) + ", [" + ", ".join(_s(x) for x in kws) + "])" for q, kws in t["closures"]) + "]")
    L.append("")
    L.append("/-- `scico.linear_adjoint`: (test, function that is transposed, primals) per branch, then the return -/")
    L.append("def branches : List (String × String × String) := [")
    L.append(",\n".join("  (" + ", ".join(_s(x) for x in row) + ")" for row in t["branches"]) + "]")
    L.append("")
    L.append("/-- (method the model follows line by line, number of normalised statements, digest of them) -/")
    L.append("def bodies : List (String × Nat × String) := [")
    L.append(",\n".join(f"  ({_s(q)}, {n}, {_s(h)})" for q, n, h in t["bodies"]) + "]")
    L.append("")
    L.append("/- the normalised statements behind the digests (for reading a diff; not part of an obligation):")
    for q, lines in t["texts"].items():
        L.append(f"   == {q}")
        for ln in lines:
            L.append("      " + ln.replace("-/", "- /").replace("/-", "/ -"))
    L.append("-/")
    L.append("")
    L.append("/-- which classes define their own adjoint code / views / arithmetic: exactly the ones the model knows (a new, removed or")
    L.append("    moved override breaks this) -/")
    L.append("theorem overrides_ok : checkOverrides overrides factories = true := by decide")
    L.append("")
    L.append("/-- the closures and declared metadata of the derived constructors are the ones `Op.*` / `TOp.*` model -/")
    L.append("theorem closures_ok : checkClosures closures = true := by decide")
    L.append("")
    L.append("/-- the three branches of `linear_adjoint` are the ones of the model's `linearAdjoint` -/")
    L.append("theorem branches_ok : checkBranches branches = true := by decide")
    L.append("")
    L.append("/-- the methods the model follows line by line are unchanged since the model was written -/")
    L.append("theorem bodies_ok : checkBodies bodies = true := by decide")
    L.append("")
    L.append("end Scico.Generated.AdjointTables")
    return "\n".join(L) + "\n"


def generate():
    t = extract()
    OUT.parent.mkdir(parents=True, exist_ok=True)
    new = render(t)
    if not OUT.exists() or OUT.read_text() != new:
        OUT.write_text(new)
    return t


def expected_lean(t):
    """the pinned tables in the form `Scico/Proofs/AdjointTables.lean` holds them (printed by `python adjoint_translate.py pin`)"""
    L = []
    L.append("def expectedOverrides : List (String × String × String × String × String) := [")
    L.append(",\n".join("  (" + ", ".join(_s(x) for x in row) + ")" for row in t["overrides"]) + "]")
    L.append("")
    L.append("def expectedFactories : List (String × String × String) := [")
    L.append(",\n".join("  (" + ", ".join(_s(x) for x in row) + ")" for row in t["factories"]) + "]")
    L.append("")
    L.append("def expectedClosures : List (String × List String) := [")
    L.append(",\n".join("  (" + _s(q) + ", [" + ", ".join(_s(x) for x in kws) + "])" for q, kws in t["closures"]) + "]")
    L.append("")
    L.append("def expectedBranches : List (String × String × String) := [")
    L.append(",\n".join("  (" + ", ".join(_s(x) for x in row) + ")" for row in t["branches"]) + "]")
    L.append("")
    L.append("def expectedBodies : List (String × Nat × String) := [")
    L.append(",\n".join(f"  ({_s(q)}, {n}, {_s(h)})" for q, n, h in t["bodies"]) + "]")
    return "\n".join(L) + "\n"


def changed_rows():
    """names of the table rows of the working tree that differ from the pinned tables of Scico/Proofs/AdjointTables.lean (parsed
    textually: the rows are string literals) - used by the adapter's failing-input search to aim at the edited function"""
    import re

    pinned = (common.LEAN_DIR / "Scico" / "Proofs" / "AdjointTables.lean").read_text()

    def block(name):
        m = re.search(r"def " + name + r" :.*?:= \[(.*?)\]\n\n", pinned, re.S)
        return m.group(1) if m else ""

    t = extract()
    out = []
    pb = dict(re.findall(r'\("([^"]+)", (\d+), "([0-9a-f]+)"\)', block("expectedBodies")) and
              [(q, (int(n), h)) for q, n, h in re.findall(r'\("([^"]+)", (\d+), "([0-9a-f]+)"\)', block("expectedBodies"))])
    for q, n, h in t["bodies"]:
        if pb.get(q) != (n, h):
            out.append(q)
    pc = block("expectedClosures")
    for q, kws in t["closures"]:
        row = "(" + _s(q) + ", [" + ", ".join(_s(x) for x in kws) + "])"
        if row not in pc:
            out.append(q)
    po = block("expectedOverrides")
    for row in t["overrides"]:
        if "(" + ", ".join(_s(x) for x in row) + ")" not in po:
            out.append("override:" + row[1])
    pbr = block("expectedBranches")
    for row in t["branches"]:
        if "(" + ", ".join(_s(x) for x in row) + ")" not in pbr:
            out.append("linear_adjoint:" + row[0])
    return out


if __name__ == "__main__":
    import sys

    t = generate() if "pin" not in sys.argv else extract()
    if "pin" in sys.argv:
        print(expected_lean(t))
    else:
        import json

        print(json.dumps({k: v for k, v in t.items() if k != "texts"}, indent=1)[:6000])
