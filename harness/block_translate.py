"""Source-structure translator of the engines Block (C13) and Wrap (C18)  (round 4, DESIGN §6.3).

With `ast` only (nothing of scico is imported): the *normalised decision structure* of the functions the
hand-written Lean models transcribe — one line per statement, indentation = nesting depth, docstrings and comments
dropped, annotations dropped, exception messages dropped (`raise TypeError`), everything else `ast.unparse`d.
The generated modules

    lean/Scico/Generated/BlockSource.lean   (scico/numpy/_blockarray.py, _wrappers.py, util.py, scico/random.py)
    lean/Scico/Generated/WrapSource.lean    (scico/solver.py)

contain the skeletons as Lean data and the `decide`-able obligation `generated = pinned`, where the pinned
skeletons are hand-written in `lean/Scico/Proofs/BlockSource.lean` / `WrapSource.lean`, each next to the model
definitions that transcribe it.  A change of one of these bodies that the model does not follow breaks the
obligation (instead of relying on sampling); the pinned text is then reviewed together with the model.
"""

from __future__ import annotations

import ast
from pathlib import Path

import common


def _strip_annotations(args: ast.arguments) -> str:
    a = ast.arguments(
        posonlyargs=[ast.arg(arg=x.arg) for x in args.posonlyargs],
        args=[ast.arg(arg=x.arg) for x in args.args],
        vararg=ast.arg(arg=args.vararg.arg) if args.vararg else None,
        kwonlyargs=[ast.arg(arg=x.arg) for x in args.kwonlyargs],
        kw_defaults=args.kw_defaults,
        kwarg=ast.arg(arg=args.kwarg.arg) if args.kwarg else None,
        defaults=args.defaults,
    )
    return ast.unparse(a)


def _is_docstring(node):
    return isinstance(node, ast.Expr) and isinstance(node.value, ast.Constant) and isinstance(node.value.value, str)


def _lines(body, depth, out):
    ind = "  " * depth
    for i, st in enumerate(body):
        if i == 0 and _is_docstring(st):
            continue
        if isinstance(st, (ast.FunctionDef, ast.AsyncFunctionDef)):
            for d in st.decorator_list:
                out.append(f"{ind}@{ast.unparse(d)}")
            out.append(f"{ind}def {st.name}({_strip_annotations(st.args)}):")
            _lines(st.body, depth + 1, out)
        elif isinstance(st, ast.If):
            out.append(f"{ind}if {ast.unparse(st.test)}:")
            _lines(st.body, depth + 1, out)
            if st.orelse:
                out.append(f"{ind}else:")
                _lines(st.orelse, depth + 1, out)
        elif isinstance(st, ast.For):
            out.append(f"{ind}for {ast.unparse(st.target)} in {ast.unparse(st.iter)}:")
            _lines(st.body, depth + 1, out)
        elif isinstance(st, ast.While):
            out.append(f"{ind}while {ast.unparse(st.test)}:")
            _lines(st.body, depth + 1, out)
        elif isinstance(st, ast.Raise):
            exc = st.exc
            name = ast.unparse(exc.func) if isinstance(exc, ast.Call) else (ast.unparse(exc) if exc is not None else "")
            out.append(f"{ind}raise {name}".rstrip())
        elif isinstance(st, ast.AnnAssign):
            out.append(f"{ind}{ast.unparse(st.target)} = {ast.unparse(st.value) if st.value is not None else '...'}")
        elif isinstance(st, ast.Try):
            out.append(f"{ind}try:")
            _lines(st.body, depth + 1, out)
            for h in st.handlers:
                out.append(f"{ind}except {ast.unparse(h.type) if h.type else ''}:".replace(" :", ":"))
                _lines(h.body, depth + 1, out)
        else:
            out.append(ind + " ".join(ast.unparse(st).split()))
    return out


def _find(tree, qual):
    """node of `a.b.c` (functions / classes nested by name); `@register` = the module-level register_pytree_node call"""
    node = tree
    for part in qual.split("."):
        found = None
        for st in ast.walk(node) if node is tree and False else getattr(node, "body", []):
            if isinstance(st, (ast.FunctionDef, ast.AsyncFunctionDef, ast.ClassDef)) and st.name == part:
                found = st
                break
        if found is None:
            raise common.Infra(f"source translator: no definition {qual}")
        node = found
    return node


def skeleton(path: Path, qual: str):
    tree = ast.parse(path.read_text())
    if qual.startswith("@call:"):
        # a module-level call statement, e.g. jax.tree_util.register_pytree_node(...)
        fname = qual[len("@call:"):]
        for st in tree.body:
            if isinstance(st, ast.Expr) and isinstance(st.value, ast.Call) and ast.unparse(st.value.func) == fname:
                return [" ".join(ast.unparse(st).split())]
        raise common.Infra(f"source translator: no module-level call {fname}")
    if qual.startswith("@assign:"):
        name = qual[len("@assign:"):]
        for st in tree.body:
            if isinstance(st, ast.Assign) and any(isinstance(t, ast.Name) and t.id == name for t in st.targets):
                return [" ".join(ast.unparse(st).split())]
        raise common.Infra(f"source translator: no module-level assignment {name}")
    node = _find(tree, qual)
    out = []
    for d in getattr(node, "decorator_list", []):
        out.append(f"@{ast.unparse(d)}")
    out.append(f"def {node.name}({_strip_annotations(node.args)}):")
    return _lines(node.body, 1, out)


BLOCK_ENTRIES = [
    ("scico/numpy/_blockarray.py", "BlockArray.__init__"),
    ("scico/numpy/_blockarray.py", "BlockArray.dtype"),
    ("scico/numpy/_blockarray.py", "BlockArray.__len__"),
    ("scico/numpy/_blockarray.py", "BlockArray.__getitem__"),
    ("scico/numpy/_blockarray.py", "BlockArray.__setitem__"),
    ("scico/numpy/_blockarray.py", "_unflatten"),
    ("scico/numpy/_blockarray.py", "@call:jax.tree_util.register_pytree_node"),
    ("scico/numpy/_blockarray.py", "_unary_op_wrapper"),
    ("scico/numpy/_blockarray.py", "_binary_op_wrapper"),
    ("scico/numpy/_blockarray.py", "_da_prop_wrapper"),
    ("scico/numpy/_blockarray.py", "_da_method_wrapper.method_ba"),
    ("scico/numpy/_wrappers.py", "map_func_over_tuple_of_tuples"),
    ("scico/numpy/_wrappers.py", "_num_blocks_in_args"),
    ("scico/numpy/_wrappers.py", "_block_args_kwargs"),
    ("scico/numpy/_wrappers.py", "map_func_over_blocks"),
    ("scico/numpy/_wrappers.py", "map_void_func_over_blocks"),
    ("scico/numpy/_wrappers.py", "add_full_reduction"),
    ("scico/numpy/util.py", "is_nested"),
    ("scico/numpy/util.py", "shape_to_size"),
    ("scico/random.py", "_add_seed.fun_alt"),
    ("scico/random.py", "_wrap"),
    ("scico/random.py", "_is_wrappable"),
]

WRAP_ENTRIES = [
    ("scico/solver.py", "_ravel"),
    ("scico/solver.py", "_unravel"),
    ("scico/solver.py", "_wrap_func"),
    ("scico/solver.py", "_wrap_func_and_grad"),
    ("scico/solver.py", "_split_real_imag"),
    ("scico/solver.py", "_join_real_imag"),
    ("scico/solver.py", "minimize"),
    ("scico/solver.py", "minimize_scalar"),
]


def _s(x: str) -> str:
    return '"' + x.replace("\\", "\\\\").replace('"', '\\"') + '"'


def read(entries, repo: Path | None = None):
    repo = Path(repo) if repo else common.REPO
    return [(f"{f}:{q}", skeleton(repo / f, q)) for f, q in entries]


def render(kind: str, table) -> str:
    ns, imp, pinned = {"block": ("BlockSource", "Scico.Proofs.BlockSource", "Scico.Block.Source.pinned"),
                       "wrap": ("WrapSource", "Scico.Proofs.WrapSource", "Scico.Wrap.Source.pinned")}[kind]
    out = [
        f"/- GENERATED by harness/block_translate.py (ast) from the working tree of scico — rewritten on every run, do not edit. -/",
        f"import {imp}",
        "",
        f"namespace Scico.Generated.{ns}",
        "",
        "/-- normalised decision structure of the functions the model transcribes: (file:function, lines) -/",
        "def source : List (String × List String) :=",
        "  [",
    ]
    ents = []
    for name, lines in table:
        body = ",\n      ".join(_s(l) for l in lines)
        ents.append(f"    ({_s(name)},\n     [{body}])")
    out.append(",\n".join(ents))
    out += [
        "  ]",
        "",
        "/-- the code is the code the model was written against: every listed body equals its pinned skeleton -/",
        f"theorem source_ok : Scico.Source.check source {pinned} = true := by decide +kernel",
        "",
        f"end Scico.Generated.{ns}",
        "",
    ]
    return "\n".join(out)


def pinned(kind: str):
    """the pinned skeletons, read back from the hand-written Lean file: [(name, [lines])]"""
    import re

    path = common.LEAN_DIR / "Scico" / "Proofs" / ("BlockSource.lean" if kind == "block" else "WrapSource.lean")
    txt = path.read_text()
    txt = txt[txt.index("def pinned"):]
    out = []
    for m in re.finditer(r'"((?:[^"\\]|\\.)*)"', txt):
        lit = m.group(1).replace('\\"', '"').replace("\\\\", "\\")
        if lit.startswith("scico/") and ":" in lit and not lit.startswith("scico/ "):
            out.append((lit, []))
        elif out:
            out[-1][1].append(lit)
    return out


def changed_rows(kind: str, repo: Path | None = None):
    """names (file:function) whose current normalised body differs from the pinned one (or is missing / new)"""
    cur = dict(read(BLOCK_ENTRIES if kind == "block" else WRAP_ENTRIES, repo))
    pin = dict(pinned(kind))
    return sorted(k for k in set(cur) | set(pin) if cur.get(k) != pin.get(k))


def generate(kind: str, repo: Path | None = None):
    table = read(BLOCK_ENTRIES if kind == "block" else WRAP_ENTRIES, repo)
    out = common.LEAN_DIR / "Scico" / "Generated" / ("BlockSource.lean" if kind == "block" else "WrapSource.lean")
    txt = render(kind, table)
    if not out.exists() or out.read_text() != txt:
        out.write_text(txt)
    return table


if __name__ == "__main__":
    import sys

    for nm, ls in read(BLOCK_ENTRIES if (len(sys.argv) < 2 or sys.argv[1] == "block") else WRAP_ENTRIES):
        print("##", nm)
        print("\n".join(ls))
