"""Generators of operator expression trees for the OpAlg engine (C05 / C12 part 2)."""

from __future__ import annotations

import numpy as np

import common
from opalg_gen import DTS, enc, encs, is_cplx, is_nested, size

CLASSES = ["mat", "diag", "bdiag", "bdiagNS", "sid", "ident", "lin", "linauto", "composed", "nonlin"]


def vals(rng, shape, cplx, nonzero=False):
    """small dyadic values k/4, |k|<=8 (products of a few stay exact in binary32/64)"""
    k = rng.integers(-8, 9, size=shape).astype(np.float64)
    if nonzero:
        k = np.where(k == 0, 4.0, k)
    v = k / 4
    if cplx:
        ki = rng.integers(-8, 9, size=shape).astype(np.float64)
        v = v + 1j * ki / 4
    return v


def scalar(rng, kind=None, dt=None, cplx_ok=True):
    if kind is None:
        kind = rng.choice(["int", "float", "complex", "np", "jx"], p=[0.15, 0.35, 0.25, 0.15, 0.10])
    kind = str(kind)
    if kind == "complex" and not cplx_ok:
        kind = "float"
    c = {"kind": kind}
    if kind == "int":
        v = complex(int(rng.choice([-2, -1, 1, 2, 3])))
    elif kind == "float":
        v = complex(float(rng.choice([-2.0, -0.5, 0.5, 1.0, 2.0, 4.0])))
    elif kind == "complex":
        v = complex(rng.choice([1j, -1j, 1 + 1j, 2 - 1j, 0.5j, 2 + 0j]))
    elif kind in ("np", "jx"):
        c["dt"] = dt or str(rng.choice(DTS if cplx_ok else DTS[:2]))
        v = complex(rng.choice([2.0, -0.5, 1 + 1j, 2j])) if is_cplx(c["dt"]) else complex(float(rng.choice([2.0, -0.5, 4.0])))
    else:
        v = 2 + 0j
    c["v"] = enc(v)
    return c


def leaf(rng, cls, insh, outsh, dt_of):
    """a leaf of class `cls` mapping insh -> outsh when that class can (else None).  `dt_of()` draws a dtype."""
    n, m = size(insh), size(outsh)
    if cls == "mat":
        if is_nested(insh) or is_nested(outsh) or len(insh) != 1 or len(outsh) != 1:
            return None
        dt = dt_of()
        return {"t": "mat", "m": m, "n": n, "dt": dt, "A": encs(vals(rng, (m, n), is_cplx(dt)))}
    if cls == "bdiagNS":
        # broadcasting diagonal that is not square (input_shape != output_shape)
        if insh == outsh:
            return None
        cls = "bdiag"
    if cls in ("diag", "bdiag"):
        if is_nested(insh) != is_nested(outsh):
            return None
        ddt = dt_of()
        if is_nested(insh):
            if insh != outsh:
                return None
            return {"t": "diag", "dsh": insh, "ddt": ddt, "insh": None, "indt": None, "d": encs(vals(rng, (n,), is_cplx(ddt)))}
        # choose a diagonal shape that broadcasts with insh to outsh
        opts = _diag_shapes(insh, outsh)
        if not opts:
            return None
        if cls == "diag":
            plain = [o for o in opts if o == list(insh)]
            opts = plain or opts
        else:
            bro = [o for o in opts if o != list(insh)]
            if not bro:
                return None
            opts = bro
        dsh = opts[int(rng.integers(len(opts)))]
        e = {"t": "diag", "dsh": dsh, "ddt": ddt, "insh": None if dsh == list(insh) else list(insh), "indt": None,
             "d": encs(vals(rng, (size(dsh),), is_cplx(ddt)))}
        if rng.random() < 0.3:
            e["indt"] = dt_of()  # explicit input_dtype (may differ from the dtype of the diagonal)
        return e
    if cls == "sid":
        if insh != outsh:
            return None
        dt = dt_of()
        return {"t": "sid", "c": scalar(rng, cplx_ok=is_cplx(dt), kind=rng.choice(["float", "complex", "np"])), "sh": insh, "dt": dt}
    if cls == "ident":
        if insh != outsh:
            return None
        return {"t": "ident", "sh": insh, "dt": dt_of()}
    if cls in ("lin", "linauto", "nonlin"):
        indt = dt_of()
        gdt = dt_of()
        e = {"t": "nonlin" if cls == "nonlin" else "lin", "insh": insh, "outsh": outsh, "indt": indt, "gdt": gdt,
             "G": encs(vals(rng, (m, n), is_cplx(gdt)))}
        if cls != "nonlin":
            e["hasadj"] = cls == "lin"
        return e
    if cls == "composed":
        # ComposedLinearOperator of two generic operators through a 1-d middle shape
        k = int(rng.integers(1, 4))
        dt = dt_of()
        a = leaf(rng, "lin", [k], outsh, lambda: dt)
        b = leaf(rng, "lin", insh, [k], lambda: dt)
        return {"t": "comp", "a": a, "b": b}
    raise common.Infra(cls)


def _diag_shapes(insh, outsh):
    """diagonal shapes d with broadcast(insh, d) == outsh"""
    insh, outsh = list(insh), list(outsh)
    if len(insh) > len(outsh):
        return []
    pad = [1] * (len(outsh) - len(insh)) + insh
    for a, b in zip(pad, outsh):
        if a != b and a != 1:
            return []
    opts = []
    # every axis where in==out may be 1 or out in d; axes where in=1<out must be out in d
    need = [b if a != b else None for a, b in zip(pad, outsh)]
    full = [b for b in outsh]
    opts.append(full)
    # drop leading axes / use 1 on one axis
    for ax in range(len(outsh)):
        if need[ax] is None and outsh[ax] != 1:
            d = list(full)
            d[ax] = 1
            opts.append(d)
    if len(outsh) > 1 and need[0] is None and all(n is None for n in need[:1]):
        opts.append(full[1:])
    out = []
    for d in opts:
        try:
            if list(np.broadcast_shapes(tuple(insh), tuple(d))) == outsh and d not in out:
                out.append(d)
        except ValueError:
            pass
    return out


SHAPES_BY_SIZE = {
    1: [[1]],
    2: [[2], [1, 2], [2, 1], [[1], [1]]],
    3: [[3], [[2], [1]], [[1], [1, 2]]],
    4: [[4], [2, 2], [[2], [2]], [[1], [3]]],
    5: [[5], [[2], [3]]],
    6: [[2, 3], [6], [3, 2], [[2, 2], [2]]],
}


def shape(rng, sz=None, vector=False):
    if sz is None:
        sz = int(rng.choice([1, 2, 3, 3, 4, 5, 6]))
    if vector:
        return [sz]
    opts = SHAPES_BY_SIZE[sz]
    w = np.array([3.0] + [1.0] * (len(opts) - 1))
    return opts[int(rng.choice(len(opts), p=w / w.sum()))]


def dtype_regime(rng):
    r = rng.random()
    if r < 0.3:
        return lambda: "float64"
    if r < 0.6:
        return lambda: "complex128"
    if r < 0.7:
        return lambda: str(rng.choice(["float32", "complex64"]))
    if r < 0.85:
        return lambda: str(rng.choice(["float64", "complex128"]))
    return lambda: str(rng.choice(DTS))


def any_leaf(rng, insh, outsh, dt_of, weights=None):
    order = list(rng.permutation(len(CLASSES)))
    w = weights or {"mat": 3, "diag": 3, "bdiag": 2, "bdiagNS": 1, "sid": 2, "ident": 1.5, "lin": 2, "linauto": 1.5, "composed": 1, "nonlin": 0.6}
    p = np.array([w[c] for c in CLASSES], dtype=float)
    for _ in range(12):
        cls = CLASSES[int(rng.choice(len(CLASSES), p=p / p.sum()))]
        e = leaf(rng, cls, insh, outsh, dt_of)
        if e is not None:
            return e
    return leaf(rng, "lin", insh, outsh, dt_of)


def tree(rng, depth, insh, outsh, dt_of, p_bad=0.06, allow_nonlin=True):
    """random expression mapping insh -> outsh (mostly well typed; with probability p_bad per node an
    operand gets a different shape, a non-scalar factor is used, ...)"""
    if depth <= 1 or rng.random() < 0.18:
        w = None if allow_nonlin else {"mat": 3, "diag": 3, "bdiag": 2, "bdiagNS": 1, "sid": 2, "ident": 1.5, "lin": 2, "linauto": 1.5, "composed": 1, "nonlin": 0}
        return any_leaf(rng, insh, outsh, dt_of, w)
    bad = rng.random() < p_bad
    ops = ["add", "sub", "neg", "smulL", "smulR", "sdiv", "comp", "matmul", "T", "H", "conj"]
    pw = [3, 2, 1, 2, 1.5, 1.5, 2, 3, 1.5, 1.5, 1]
    if insh == outsh:
        ops.append("gram")
        pw.append(1.5)
    pw = np.array(pw, dtype=float)
    t = ops[int(rng.choice(len(ops), p=pw / pw.sum()))]
    sub = lambda i, o, d=depth - 1: tree(rng, d, i, o, dt_of, p_bad, allow_nonlin)  # noqa: E731
    if t in ("add", "sub"):
        a = sub(insh, outsh)
        b = sub(insh, outsh if not bad else shape(rng))
        return {"t": t, "a": a, "b": b}
    if t in ("neg", "conj"):
        return {"t": t, "a": sub(insh, outsh)}
    if t in ("smulL", "smulR", "sdiv"):
        c = scalar(rng) if not bad else scalar(rng, kind=rng.choice(["arr", "str"]))
        return {"t": t, "a": sub(insh, outsh), "c": c}
    if t in ("comp", "matmul"):
        mid = shape(rng)
        return {"t": t, "a": sub(mid, outsh), "b": sub(insh, mid if not bad else shape(rng))}
    if t in ("T", "H"):
        return {"t": t, "a": sub(outsh, insh)}
    if t == "gram":
        return {"t": t, "a": sub(insh, shape(rng))}
    raise common.Infra(t)


def pair_table(rng):
    """ALL ordered class pairs x {+, -, @, call, *, /} plus every class x scalar kind x
    {c*A, A*c, A/c, c/A, A+c, c-A, ...} and every class x {neg, T, H, conj, gram}: finite table."""
    cases = []
    sq = [3]
    dts = ["float64", "complex128"]
    for ca in CLASSES:
        for cb in CLASSES:
            for dta in dts:
                for dtb in dts:
                    for op in ("add", "sub", "matmul", "comp", "hadm", "hadd"):
                        for badshape in (False, True):
                            if badshape and (dta, dtb) != ("float64", "float64"):
                                continue
                            if op in ("hadm", "hadd") and (dta, dtb) == ("complex128", "float64"):
                                continue
                            addlike = op in ("add", "sub", "hadm", "hadd")
                            ia, oa, ib, ob = sq, sq, sq, sq
                            if ca == "bdiagNS" and cb == "bdiagNS":
                                ia, oa = [1, 3], [2, 3]
                                ib, ob = ([1, 3], [2, 3]) if addlike else ([1, 1], [1, 3])
                            elif ca == "bdiagNS":
                                ia, oa = [1, 3], [2, 3]
                                ib, ob = ([1, 3], [2, 3]) if addlike else ([1, 3], [1, 3])
                            elif cb == "bdiagNS":
                                ib, ob = [1, 3], [2, 3]
                                ia, oa = ([1, 3], [2, 3]) if addlike else ([2, 3], [2, 3])
                            if badshape:
                                ib, ob = ([2], [2]) if ib == sq else ([1, 2], [2, 2])
                            a = leaf(rng, ca, ia, oa, lambda: dta)
                            b = leaf(rng, cb, ib, ob, lambda: dtb)
                            if a is None or b is None:
                                continue
                            if op == "hadm":
                                e = {"t": "had", "div": False, "a": a, "b": b}
                            elif op == "hadd":
                                if b["t"] == "mat":
                                    b["A"] = encs(vals(rng, (b["m"], b["n"]), is_cplx(b["dt"]), nonzero=True))
                                e = {"t": "had", "div": True, "a": a, "b": b}
                            else:
                                e = {"t": op, "a": a, "b": b}
                            cases.append((f"{ca} {op} {cb} [{dta[0]},{dtb[0]}{',badshape' if badshape else ''}]", e))
    kinds = [("int", None), ("float", None), ("complex", None), ("np", "float32"), ("np", "float64"), ("np", "complex64"),
             ("np", "complex128"), ("jx", "float32"), ("jx", "float64"), ("jx", "complex64"), ("jx", "complex128"), ("arr", None), ("str", None)]
    for ca in CLASSES:
        for dta in DTS:
            for k, kd in kinds:
                for op in ("smulL", "smulR", "sdiv", "rdiv", "addS00", "addS01", "addS10", "addS11"):
                    if op.startswith("addS") and dta in ("float32", "complex64"):
                        continue
                    a = leaf(rng, ca, sq, sq, lambda: dta) or leaf(rng, ca, [1, 3], [2, 3], lambda: dta)
                    if a is None:
                        continue
                    if op == "rdiv" and a["t"] == "mat":
                        a["A"] = encs(vals(rng, (a["m"], a["n"]), is_cplx(a["dt"]), nonzero=True))
                    c = scalar(rng, kind=k, dt=kd)
                    if op.startswith("addS"):
                        e = {"t": "addS", "sub": op[4] == "1", "rev": op[5] == "1", "a": a, "c": c}
                    else:
                        e = {"t": op, "a": a, "c": c}
                    cases.append((f"{ca}[{dta}] {op} {k}{':' + kd if kd else ''}", e))
            for op in ("neg", "T", "H", "conj", "gram"):
                a = leaf(rng, ca, sq, sq, lambda: dta) or leaf(rng, ca, [1, 3], [2, 3], lambda: dta)
                if a is None:
                    continue
                cases.append((f"{ca}[{dta}] {op}", {"t": op, "a": a}))
                if ca in ("lin", "linauto", "mat", "nonlin", "composed"):
                    a2 = leaf(rng, ca, [2], [3], lambda: dta)
                    cases.append((f"{ca}[{dta}] {op} (2->3)", {"t": op, "a": a2}))
    # operands whose input and output dtypes differ (real -> complex) under every class, and Diagonals
    # with an explicit input_dtype different from the dtype of the diagonal
    def rc_lin(hasadj, insh=sq, outsh=sq):
        e = leaf(rng, "lin" if hasadj else "linauto", insh, outsh, lambda: "complex128")
        e["indt"] = "float64"
        return e

    def diag_explicit(ddt, indt):
        e = leaf(rng, "diag", sq, sq, lambda: ddt)
        e["indt"] = indt
        return e

    def diag_eq(ddt, nested=False):
        # broadcasting diagonal that only adds singleton axes: same number of elements, different shapes
        if nested:
            return {"t": "diag", "dsh": [[1, 3], [2]], "ddt": ddt, "insh": [[3], [2]], "indt": None,
                    "d": encs(vals(rng, (5,), is_cplx(ddt)))}
        return {"t": "diag", "dsh": [1, 3], "ddt": ddt, "insh": [3], "indt": None, "d": encs(vals(rng, (3,), is_cplx(ddt)))}

    for ddt in dts:
        for nested in (False, True):
            nm = f"diag adds singleton axis{' (block)' if nested else ''} [{ddt[0]}]"
            for op in ("neg", "T", "H", "conj", "gram"):
                cases.append((f"{nm} {op}", {"t": op, "a": diag_eq(ddt, nested)}))
            for op2 in ("T", "H", "gram"):
                cases.append((f"{nm} {op2}.{op2}", {"t": op2, "a": {"t": op2, "a": diag_eq(ddt, nested)}}))
            if not nested:
                for ca in ("mat", "sid", "ident", "diag", "lin"):
                    cases.append((f"{nm} matmul {ca}", {"t": "matmul", "a": diag_eq(ddt), "b": leaf(rng, ca, sq, sq, lambda: ddt)}))
                    cases.append((f"{nm}.T after {ca} on (1,3)", {"t": "comp", "a": {"t": "T", "a": diag_eq(ddt)}, "b": leaf(rng, "lin", sq, [1, 3], lambda: ddt)}))

    specials = [("lin R->C", lambda: rc_lin(True)), ("linauto R->C", lambda: rc_lin(False)),
                ("diag real d, complex input_dtype", lambda: diag_explicit("float64", "complex128")),
                ("diag complex d, real input_dtype", lambda: diag_explicit("complex128", "float64")),
                ("diag f32 d, f64 input_dtype", lambda: diag_explicit("float32", "float64"))]
    for nm, mk in specials:
        for op in ("neg", "T", "H", "conj", "gram"):
            cases.append((f"{nm} {op}", {"t": op, "a": mk()}))
        for op2 in ("T", "H", "conj", "gram"):
            cases.append((f"{nm} conj.{op2}", {"t": op2, "a": {"t": "conj", "a": mk()}}))
        for ca in CLASSES:
            for dta in ("float64", "complex128"):
                for op in ("comp", "matmul", "add", "sub"):
                    a = leaf(rng, ca, sq, sq, lambda: dta)
                    if a is None:
                        continue
                    cases.append((f"{ca}[{dta[0]}] {op} ({nm})", {"t": op, "a": a, "b": mk()}))
                    cases.append((f"({nm}) {op} {ca}[{dta[0]}]", {"t": op, "a": mk(), "b": leaf(rng, ca, sq, sq, lambda: dta)}))
    return cases
