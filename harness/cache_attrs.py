"""Translator of C19 (engine Cache): which attributes of `self` are read at TRACE time.

A value computed inside a function that JAX traces once and then re-uses (a `jax.jit` object kept on the instance, a branch
function of `lax.cond` kept on the instance, a jitted static / module function with objects as static arguments) is frozen at
the value it had when the signature was first seen: updating a public parameter of the object afterwards is silently ignored
for that signature (the mechanism of the findings `hubernorm-nonsep-stale-delta`, `pgm-xstep-stale-loss-scale` and of the seeded
defect C02-n2).  This module walks the scico sources with `ast` and writes `lean/Scico/Generated/CacheAttrs.lean`:

  sites        every place where a traced function is created: class, name, kind, first-level `self` attributes it reads
                 kind = perObjectJit   `self.X = jax.jit(F)`            (cached on the instance, keyed on the input signature)
                        storedBranch   `lax.cond(..., self.F, ...)` with `self.F` assigned once to a lambda / function
                        staticJit      `@jax.jit` / `@partial(jax.jit, static_arg…)` on a method / static method / function
                        perCall        `jax.jit(F)` / `@jax.jit def F` whose result is a LOCAL of a method (new trace per call)
                        inlineBranch   lambdas written inline in a `lax.*` call (new function object per call)
  publicParams (class, attribute) for every constructor parameter stored under its own name (`self.p = p`)
  mutators     (class, method, attribute) for every public method `set_*` that assigns `self.attribute`
and the obligations (closed by `decide`):
  functional_params_call_time   no cached trace of a functional / loss class reads a public parameter of that class
  mutators_call_time            no cached trace of ANY class reads an attribute the class itself offers a setter for
  trace_time_inventory          the (class, parameter) pairs that ARE read at trace time are exactly EXPECTED (audited list)
"""

from __future__ import annotations

import ast
from pathlib import Path

import common

OUT = common.ROOT / "lean" / "Scico" / "Generated" / "CacheAttrs.lean" if hasattr(common, "ROOT") else None

SCAN = ["scico/functional", "scico/loss.py", "scico/operator", "scico/linop", "scico/optimize", "scico/function.py", "scico/solver.py",
        "scico/random.py", "scico/denoiser.py"]
LAX = {"cond", "while_loop", "scan", "fori_loop", "map", "switch"}

# audited on /repo HEAD (round 3): public constructor parameters that ARE read inside a cached trace.  Each entry is exercised by
# the tie (`_corr_trace_time` of harness/c19.py): updating the attribute after a first call is NOT seen by the cached trace.
EXPECTED = [
    # optimiser: the jitted proximal-gradient step closes over the loss and the regulariser objects
    ("PGM", "f"), ("PGM", "g"),
    # operators (only when the `jit` option is on): constructor parameters read inside `_eval` / `_adj`
    ("SingleAxisFiniteSum", "axis"), ("CircularConvolve", "ndims"), ("Convolve", "h"), ("Convolve", "mode"), ("ConvolveByX", "mode"),
    ("ConvolveByX", "x"), ("DFT", "axes"), ("DFT", "axes_shape"), ("DFT", "norm"), ("SingleAxisFiniteDifference", "append"),
    ("SingleAxisFiniteDifference", "axis"), ("SingleAxisFiniteDifference", "circular"), ("SingleAxisFiniteDifference", "prepend"),
    ("Slice", "idx"), ("ProjectedGradient", "axes"), ("ProjectedGradient", "cdiff"), ("ProjectedGradient", "coord"), ("MatrixOperator", "A"),
    ("DiagonalStack", "ops"), ("VerticalStack", "collapse_output"), ("VerticalStack", "ops"), ("BiConvolve", "mode"),
]


def _is_jit(node):
    """jax.jit / jit / partial(jax.jit, ...)"""
    if isinstance(node, ast.Attribute) and node.attr == "jit":
        return True
    if isinstance(node, ast.Name) and node.id == "jit":
        return True
    if isinstance(node, ast.Call) and getattr(node.func, "id", getattr(node.func, "attr", "")) == "partial" and node.args and _is_jit(node.args[0]):
        return True
    return False


def _self_reads(node, selfname="self"):
    """first-level attributes of `self` read anywhere inside `node` (loads only), and the method names called on self"""
    reads, calls = set(), set()
    for n in ast.walk(node):
        if isinstance(n, ast.Attribute) and isinstance(n.value, ast.Name) and n.value.id == selfname and isinstance(n.ctx, ast.Load):
            reads.add(n.attr)
        if isinstance(n, ast.Call) and isinstance(n.func, ast.Attribute) and isinstance(n.func.value, ast.Name) and n.func.value.id == selfname:
            calls.add(n.func.attr)
    return reads, calls


class _Cls:
    def __init__(self, node, file):
        self.node, self.file, self.name = node, file, node.name
        self.bases = [getattr(b, "id", getattr(b, "attr", "?")) for b in node.bases]
        self.methods = {n.name: n for n in node.body if isinstance(n, (ast.FunctionDef,))}


def _load_classes(repo):
    classes = {}
    files = []
    for rel in SCAN:
        p = repo / rel
        files += sorted(p.rglob("*.py")) if p.is_dir() else [p]
    trees = {}
    for f in files:
        if "/test" in str(f) or not f.exists():
            continue
        t = ast.parse(f.read_text())
        trees[f] = t
        for n in ast.walk(t):
            if isinstance(n, ast.ClassDef):
                classes.setdefault(n.name, _Cls(n, str(f.relative_to(repo))))
    return classes, trees


def _method(classes, cls, name, depth=0):
    """resolve a method through the (single-module-name) base chain"""
    c = classes.get(cls)
    if c is None or depth > 6:
        return None
    if name in c.methods:
        return c.methods[name]
    for b in c.bases:
        m = _method(classes, b, name, depth + 1)
        if m is not None:
            return m
    return None


def _closure_reads(classes, cls, fn_node, depth=0):
    """self attributes read by `fn_node`, following `self.m(...)` calls into methods of the class (data attributes only)"""
    reads, calls = _self_reads(fn_node)
    out = set()
    for r in reads:
        m = _method(classes, cls, r)
        if m is None:
            out.add(r)
        elif depth < 3 and (r in calls):
            out |= _closure_reads(classes, cls, m, depth + 1)
    return out


def scan(repo=None):
    repo = Path(repo or common.REPO)
    classes, trees = _load_classes(repo)
    sites, params, mutators = [], [], []
    for cname, c in sorted(classes.items()):
        # public constructor parameters stored under their own name
        init = c.methods.get("__init__")
        if init is not None:
            argn = {a.arg for a in init.args.args + init.args.kwonlyargs} - {"self"}
            for n in ast.walk(init):
                if isinstance(n, ast.Assign) and len(n.targets) == 1 and isinstance(n.targets[0], ast.Attribute) and isinstance(n.targets[0].value, ast.Name) \
                        and n.targets[0].value.id == "self" and isinstance(n.value, ast.Name) and n.value.id == n.targets[0].attr and n.value.id in argn \
                        and not n.value.id.startswith("_"):
                    params.append((cname, n.value.id))
                if isinstance(n, ast.AnnAssign) and isinstance(n.target, ast.Attribute) and isinstance(n.target.value, ast.Name) and n.target.value.id == "self" \
                        and isinstance(n.value, ast.Name) and n.value.id == n.target.attr and n.value.id in argn:
                    params.append((cname, n.value.id))
        for mname, m in c.methods.items():
            if mname.startswith("set_"):
                for n in ast.walk(m):
                    if isinstance(n, ast.Assign):
                        for t in n.targets:
                            if isinstance(t, ast.Attribute) and isinstance(t.value, ast.Name) and t.value.id == "self":
                                mutators.append((cname, mname, t.attr))
        # stored lambdas / local functions:  self.X = lambda ...   (for storedBranch resolution)
        stored = {}
        for mname, m in c.methods.items():
            for n in ast.walk(m):
                if isinstance(n, ast.Assign) and len(n.targets) == 1 and isinstance(n.targets[0], ast.Attribute) and isinstance(n.targets[0].value, ast.Name) \
                        and n.targets[0].value.id == "self" and isinstance(n.value, ast.Lambda):
                    stored[n.targets[0].attr] = n.value
        for mname, m in c.methods.items():
            is_static = any(getattr(d, "id", "") == "staticmethod" for d in m.decorator_list)
            if any(_is_jit(d) for d in m.decorator_list):
                sargs = []
                for d in m.decorator_list:
                    if isinstance(d, ast.Call):
                        for kw in d.keywords:
                            if kw.arg in ("static_argnums", "static_argnames"):
                                sargs = [ast.literal_eval(kw.value)] if not isinstance(kw.value, (ast.Tuple, ast.List)) else list(ast.literal_eval(kw.value))
                names = [a.arg for a in m.args.args]
                statics = sorted(names[i] if isinstance(i, int) and i < len(names) else str(i) for i in sargs)
                reads = sorted(_closure_reads(classes, cname, m)) if not is_static else []
                sites.append((c.file, cname, mname, "staticJit", reads + ["static:" + s for s in statics]))
            local_defs = {n.name: n for n in ast.walk(m) if isinstance(n, ast.FunctionDef) and n is not m}
            for n in ast.walk(m):
                # self.X = jax.jit(F)
                if isinstance(n, ast.Assign) and isinstance(n.value, ast.Call) and _is_jit(n.value.func) and n.value.args:
                    F = n.value.args[0]
                    tgt = n.targets[0]
                    on_self = isinstance(tgt, ast.Attribute) and isinstance(tgt.value, ast.Name) and tgt.value.id == "self"
                    kind = "perObjectJit" if on_self else "perCall"
                    nm = tgt.attr if on_self else getattr(tgt, "id", "?")
                    if isinstance(F, ast.Name) and F.id in local_defs:
                        reads = _closure_reads(classes, cname, local_defs[F.id])
                    elif isinstance(F, ast.Lambda):
                        reads = _closure_reads(classes, cname, F)
                    elif isinstance(F, ast.Attribute) and isinstance(F.value, ast.Name) and F.value.id == "self":
                        # jax.jit(self._eval): the body is the method of EVERY subclass - one site per class defining it
                        for sub, sc in sorted(classes.items()):
                            if F.attr in sc.methods and _inherits(classes, sub, cname):
                                sites.append((sc.file, sub, f"{mname}:{F.attr}", kind, sorted(_closure_reads(classes, sub, sc.methods[F.attr]))))
                        continue
                    else:
                        reads = set()
                    sites.append((c.file, cname, nm, kind, sorted(reads)))
                # @jax.jit def local(...)  inside a method: a new traced function per call of the method
                if isinstance(n, ast.FunctionDef) and n is not m and any(_is_jit(d) for d in n.decorator_list):
                    sites.append((c.file, cname, f"{mname}:{n.name}", "perCall", sorted(_closure_reads(classes, cname, n))))
                # lax.cond(..., self.F, ...) / inline lambdas
                if isinstance(n, ast.Call) and isinstance(n.func, ast.Attribute) and n.func.attr in LAX and \
                        (getattr(n.func.value, "id", "") == "lax" or getattr(n.func.value, "attr", "") == "lax"):
                    for a in n.args:
                        if isinstance(a, ast.Attribute) and isinstance(a.value, ast.Name) and a.value.id == "self":
                            body = stored.get(a.attr) or _method(classes, cname, a.attr)
                            reads = sorted(_closure_reads(classes, cname, body)) if body is not None else ["?"]
                            sites.append((c.file, cname, f"{mname}:{a.attr}", "storedBranch", reads))
                        elif isinstance(a, ast.Lambda):
                            sites.append((c.file, cname, f"{mname}:<lambda@{a.lineno - m.lineno}>", "inlineBranch", sorted(_closure_reads(classes, cname, a))))
    sites = sorted(set((f, c, n, k, tuple(r)) for f, c, n, k, r in sites))
    return sites, sorted(set(params)), sorted(set(mutators))


def _inherits(classes, sub, base, depth=0):
    if sub == base:
        return True
    c = classes.get(sub)
    if c is None or depth > 8:
        return False
    return any(_inherits(classes, b, base, depth + 1) for b in c.bases)


def _expected_in_order(sites, params):
    """EXPECTED in the order `traceTimeParams` produces (so that list equality is set equality); expected entries that no longer
    occur are appended, so that their disappearance fails the obligation as well"""
    P = set(params)
    computed = [(c, a) for f, c, n, k, r in sites if k in ("perObjectJit", "storedBranch", "staticJit") for a in r if (c, a) in P]
    E = set(EXPECTED)
    return [t for t in computed if t in E] + [t for t in EXPECTED if t not in computed]


def _lstr(xs):
    return "[" + ", ".join('"' + x.replace('"', "'") + '"' for x in xs) + "]"


def write(repo=None, out=None):
    sites, params, mutators = scan(repo)
    classes, _ = _load_classes(Path(repo or common.REPO))
    fcls = sorted(c for c in classes if _inherits(classes, c, "Functional"))
    out = Path(out or (Path(__file__).resolve().parent.parent / "lean" / "Scico" / "Generated" / "CacheAttrs.lean"))
    L = ["/-", "  GENERATED by harness/cache_attrs.py from the scico sources (do not edit): which `self` attributes are read inside traced",
         "  functions, per class and per site; public constructor parameters; setter methods.  Obligations closed by `decide`.", "-/",
         "import Scico.Model.Cache", "", "namespace Scico.Generated.CacheAttrs", "open Scico.Cache", "",
         "def sites : List TraceSite := ["]
    L += [",\n".join(f'  ⟨"{f}", "{c}", "{n}", "{k}", {_lstr(r)}⟩' for f, c, n, k, r in sites), "]", "",
          "def publicParams : List (String × String) := [", ",\n".join(f'  ("{c}", "{a}")' for c, a in params), "]", "",
          "def mutators : List (String × String × String) := [", ",\n".join(f'  ("{c}", "{m}", "{a}")' for c, m, a in mutators), "]", "",
          "def expected : List (String × String) := [", ",\n".join(f'  ("{c}", "{a}")' for c, a in _expected_in_order(sites, params)), "]", "",
          "/-- classes derived from `Functional` (losses included) -/",
          "def functionalClasses : List String := " + _lstr(fcls), "",
          "/-- no cached trace of a functional / loss class reads a public parameter of that class -/",
          "theorem functional_params_call_time :",
          "    (traceTimeParams (sites.filter (fun s => functionalClasses.contains s.cls)) publicParams).isEmpty = true := by decide +kernel", "",
          "/-- no cached trace reads an attribute for which its own class offers a setter method -/",
          "theorem mutators_call_time : (traceTimeParams sites (mutators.map (fun m => (m.1, m.2.2)))).isEmpty = true := by decide +kernel", "",
          "/-- the public parameters that ARE read at trace time are exactly the audited list -/",
          "theorem trace_time_inventory : ((traceTimeParams sites publicParams).map (fun t => (t.1, t.2.2)) == expected) = true := by decide +kernel", "",
          "end Scico.Generated.CacheAttrs", ""]
    text = "\n".join(L)
    if not out.exists() or out.read_text() != text:
        out.write_text(text)
    return sites, params, mutators


if __name__ == "__main__":
    import sys

    s, p, m = write(sys.argv[1] if len(sys.argv) > 1 else None)
    for x in s:
        print(x)
    print(len(s), "sites;", len(p), "params;", m)
