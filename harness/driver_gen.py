"""Driver engine (property C15): generators of histories and Python-side property oracles.

The oracles evaluate *the property itself* (statement of C15) on observations of the real code, without the
Lean model: a brute-force stop-watch (tick counting over the call history) and a direct check of the
statements about solve().
"""

from __future__ import annotations

import driver_opt as D

# --------------------------------------------------------------------------------------------------
# solve histories


def var_struct(cls, block, who, n):
    """block sizes of the argument of the prox of functional `who` (where a non-finite value can be planted)"""
    if cls == "admm":
        return [n, n] if (block and who == "g") else [n]
    if cls == "ladmm":
        return [n, n] if (block and who == "g") else [n]
    if cls == "padmm":
        return [2, n] if block else [n]
    if cls == "nlpadmm":
        return [n]
    if cls == "pdhg":
        return [n, n] if (block and who == "g") else [n]
    if cls in ("pgm", "apgm"):
        return [2, n] if block else [n]
    raise ValueError(cls)


def gen_spec(rng, cls=None, force_nan=None):
    cls = cls or D.CLASSES[int(rng.integers(len(D.CLASSES)))]
    n = int(rng.integers(2, 5))
    block = bool(rng.integers(2)) and cls != "nlpadmm"
    spec = {"cls": cls, "n": n, "block": block, "has_eval": bool(rng.random() < 0.8), "has_eval2": bool(rng.random() < 0.85)}
    if cls == "admm":
        # the generic (scipy) solver is slow: keep it rare
        r = rng.random()
        spec["solver"] = "generic" if r < 0.06 else ["linearScicoCG", "linearOther", "checked", "other"][int(rng.integers(4))]
        if spec["solver"] in ("checked", "other"):  # matrix solvers need Diagonal/MatrixOperator splittings
            block = spec["block"] = False
    want_nan = (rng.random() < 0.6) if force_nan is None else force_nan
    if want_nan:
        who = "g" if cls in ("pgm", "apgm") else ("g" if rng.random() < 0.65 else "f")
        st = var_struct(cls, block, who, n)
        b = int(rng.integers(len(st)))
        i = int(rng.integers(st[b]))
        spec["nan"] = {
            "at": int(rng.integers(1, 7)),
            "who": who,
            "pos": [b, i],
            "val": ["nan", "inf", "-inf", "big", "-big"][int(rng.integers(5))],
            "sanitise": bool(rng.random() < 0.25),
        }
    else:
        spec["nan"] = None
    kw = {}
    if rng.random() < 0.5:
        kw["iter0"] = int([0, 1, 3, 7, -2][int(rng.integers(5))])
    if rng.random() < 0.7:
        kw["nanstop"] = bool(rng.random() < 0.75)
    if rng.random() < 0.4:
        kw["itstat_options"] = ["display", "display-overwrite", "nodisplay", "custom", "custom-same", "disp", "disp"][int(rng.integers(7))]
        if kw["itstat_options"] == "disp":
            per = 0 if rng.random() < 0.12 else int(rng.integers(1, 5))  # period 0 is accepted by the constructor
            kw["itstat_options"] = f"disp:{per}:{int(rng.integers(2))}:{int(rng.integers(2))}"
    if rng.random() < 0.3:
        kw["maxiter"] = int(rng.integers(0, 5))
    spec["kwargs"] = kw
    if "itstat_options" in kw:
        # how many optimisers were built from the SAME options object before the one under test
        spec["reuse"] = int([0, 0, 1, 2][int(rng.integers(4))])
    return spec


def gen_ops(rng, max_ops):
    k = int(rng.integers(1, max_ops + 1))
    ops = []
    for _ in range(k):
        r = rng.random()
        if r < 0.55:
            m = int(rng.integers(0, 5))
            if rng.random() < 0.04:
                m = -1
            ops.append({"op": "solve", "maxiter": m, "cb": bool(rng.random() < 0.6)})
        elif r < 0.72:
            ops.append({"op": "step"})
        elif r < 0.92:
            ops.append({"op": "tick", "d": int(rng.integers(0, 6))})
        else:
            ops.append({"op": "nanstop", "v": bool(rng.integers(2))})
    if not any(o["op"] == "solve" for o in ops):
        ops.append({"op": "solve", "maxiter": int(rng.integers(0, 5)), "cb": bool(rng.integers(2))})
    return ops


def gen_ticks(rng, n):
    st = [int(v) for v in rng.integers(0, 5, size=n + 1)]
    ct = [int(v) for v in rng.integers(0, 8, size=n + 1)]
    return st, ct


def gen_ctl(rng, n):
    """what callback invocation j assigns to the optimiser's own attributes: None or [itnum|None, maxiter|None]
    (most sessions: nothing at all)"""
    if rng.random() < 0.7:
        return None
    out = []
    for _ in range(n + 1):
        if rng.random() < 0.65:
            out.append(None)
            continue
        kind = int(rng.integers(4))
        if kind == 3:
            out.append("raise")
            continue
        a = int(rng.integers(-3, 21)) if kind in (0, 2) else None
        b = int([-1, 0, 0, 1, 2, 5][int(rng.integers(6))]) if kind in (1, 2) else None
        out.append([a, b])
    return out


def gen_nans(rng, n):
    """what callback invocation j assigns to optimizer.nanstop: None / True / False"""
    return [None if rng.random() < 0.5 else bool(rng.integers(2)) for _ in range(n + 1)]


def solve_oracle(spec, ops, step_ticks, cb_ticks, obs, twin, min0, ctl=None, nans=None):
    """direct statement of C15 on the observations of the real run.  Returns a dict (what failed) or None.
    Nothing is asserted after the first NaN stop (the property does not speak about the state afterwards).

    Callbacks that assign the optimiser's attributes (`ctl`): the iteration count and the numbering of a call are
    fixed when it starts; afterwards the counter continues from the call's last iteration number, or from the
    value the *last* callback of the call assigned to `itnum` (the only assignment the loop does not overwrite);
    assignments to `maxiter` must not influence the counter."""
    kw = spec.get("kwargs", {})
    itnum = int(kw.get("iter0", 0))
    nanstop = bool(kw.get("nanstop", False))
    k = 0  # steps so far
    j = 0  # callbacks so far
    nrows = 0
    solve_time = 0  # ticks spent inside solve() but outside callbacks
    custom = kw.get("itstat_options") in ("custom", "custom-same")
    names = None

    def nonfinite(kk):
        return any((not all(v["p"])) if "p" in v else any(not all(b) for b in v["b"]) for v in twin["fin"][kk - 1])

    for idx, (o, ob) in enumerate(zip(ops, obs)):
        where = {"op_index": idx, "op": o}
        if o["op"] == "step":
            k += 1
            if ob["itnum"] != itnum or ob["nrows"] != nrows:
                return {**where, "fails": "a direct step() call changed the counter or the statistics", "obs": ob}
        elif o["op"] == "nanstop":
            nanstop = bool(o["v"])
        elif o["op"] == "tick":
            if ob["elapsed"] != solve_time:
                return {**where, "fails": f"time passing outside solve() changed the reported time: {ob['elapsed']} instead of {solve_time}"}
        elif o["op"] == "solve":
            m = max(int(o["maxiter"]), 0)
            trip = None
            flag = nanstop  # the attribute as the test of iteration q finds it: callbacks of this call may assign it
            for q in range(m):
                if flag and nonfinite(k + q + 1):
                    trip = q
                    break
                if o["cb"] and nans is not None and j + q < len(nans) and nans[j + q] is not None:
                    flag = bool(nans[j + q])
            if trip is None:
                nanstop = flag
            raise_q = None
            if o["cb"] and ctl is not None:
                for q in range(m):
                    if j + q < len(ctl) and ctl[j + q] == "raise":
                        raise_q = q
                        break
            if raise_q is not None and (trip is None or raise_q < trip):
                # the callback of iteration raise_q raises: records 0..raise_q exist, the exception propagates,
                # and the stop-watch is left stopped showing the time inside solve() outside callbacks
                if ob["outcome"] != "cbraise":
                    return {**where, "fails": f"callback {raise_q} raised but solve() ended with {ob['outcome']}"}
                if len(ob["rows"]) != raise_q + 1 or len(ob["cbs"]) != raise_q + 1 or ob["steps"] != k + raise_q + 1:
                    return {**where, "fails": f"callback raised in iteration {raise_q}: {len(ob['rows'])} records, {len(ob['cbs'])} callback invocations, {ob['steps'] - k} steps"}
                t = solve_time + sum(step_ticks[k : k + raise_q + 1])
                if ob["elapsed"] != t or ob["running"]:
                    return {**where, "fails": f"after the callback raised the timer reads {ob['elapsed']} (running: {ob['running']}), time inside solve() excluding callbacks is {t}"}
                if ob["itnum"] != itnum + raise_q:
                    return {**where, "fails": f"after the callback raised in iteration {raise_q} the counter is {ob['itnum']}, expected {itnum + raise_q}"}
                return None
            done = m if trip is None else trip
            want_outcome = "ok" if trip is None else "nan"
            if ob["outcome"] != want_outcome:
                return {**where, "fails": f"NaN stop: expected outcome {want_outcome} (first non-finite working variable after iteration index {trip}), got {ob['outcome']}", "steps_before": k}
            if len(ob["rows"]) != done:
                return {**where, "fails": f"{len(ob['rows'])} records for {done} completed iterations"}
            want_steps = k + (m if trip is None else trip + 1)
            if ob["steps"] != want_steps:
                return {**where, "fails": f"{ob['steps'] - k} step() calls, expected {want_steps - k}"}
            t = solve_time
            jj = j
            for q, row in enumerate(ob["rows"]):
                t += step_ticks[k + q]
                if row[0] != itnum + q:
                    return {**where, "fails": f"record {q} numbered {row[0]}, expected {itnum + q}"}
                if row[1] != t:
                    return {**where, "fails": f"record {q} reports time {row[1]}, time inside solve() excluding callbacks is {t}"}
                if custom:
                    if row[2] != nrows + q or list(row[3:]) != [-float(c) for c in range(3, len(row))]:
                        return {**where, "fails": f"record {q} = {row} is not what the caller's statistics function returns "
                                                   f"(Iter, Time, {nrows + q} earlier records, -3, -4, ...)"}
                else:
                    acc = twin["acc"][k + q]
                    got = row[2:]
                    if len(got) != len(acc) or not all(D.same_value(a, b[1]) for a, b in zip(got, acc)):
                        return {**where, "fails": f"record {q} fields {got} differ from accessor values after that iteration {acc}"}
            if o["cb"]:
                if len(ob["cbs"]) != done:
                    return {**where, "fails": f"callback ran {len(ob['cbs'])} times for {done} completed iterations"}
                for q, c in enumerate(ob["cbs"]):
                    if c["itnum"] != itnum + q or c["k"] != k + q + 1 or c["nrows"] != nrows + q + 1:
                        return {**where, "fails": f"callback {q} ran at the wrong point: {c}"}
                    if not D.same_flat(c["min"], twin["min"][k + q]):
                        return {**where, "fails": f"callback {q} saw a state that is not the state after iteration {q}"}
            elif ob["cbs"]:
                return {**where, "fails": "callback ran although none was given"}
            if trip is not None:
                return None  # nothing is claimed after the exception
            want_itnum = itnum + m
            assigned = None
            if o["cb"] and m > 0 and ctl is not None and j + m - 1 < len(ctl) and ctl[j + m - 1] is not None:
                assigned = ctl[j + m - 1][0]
            if assigned is not None:
                want_itnum = assigned + 1
            if ob["itnum"] != want_itnum:
                # exactly the known pattern: the callbacks of this call left maxiter <= 0 and the counter is one short
                left = None
                if o["cb"] and ctl is not None:
                    for c in ctl[j : j + m]:
                        if c is not None and c[1] is not None:
                            left = c[1]
                touched = left is not None and left <= 0 and ob["itnum"] == want_itnum - 1
                return {**where, "fails": f"counter after solve is {ob['itnum']}, expected {want_itnum} (start {itnum}, maxiter {o['maxiter']}"
                        + (f", last callback assigned itnum={assigned}" if assigned is not None else "")
                        + (f", callbacks left maxiter={left}" if touched else "") + ")",
                        "callback_assigned_maxiter": bool(touched)}
            want_ret = twin["min"][k + m - 1] if k + m > 0 else min0
            if not D.same_flat(ob["ret"], want_ret):
                return {**where, "fails": "solve() did not return the minimiser after the last iteration"}
            for q in range(done):
                solve_time += step_ticks[k + q]
            if ob["elapsed"] != solve_time:
                return {**where, "fails": f"timer reports {ob['elapsed']} after solve, time inside solve() excluding callbacks is {solve_time}"}
            k += m
            j += len(ob["cbs"])
            nrows += done
            itnum = want_itnum
    return None


# --------------------------------------------------------------------------------------------------
# timer histories

LABELS = ["a", "b", "all", "main", "zz"]


def gen_timer_case(rng, max_ops):
    r = rng.random()
    if r < 0.35:
        init = None
    elif r < 0.6:
        init = LABELS[int(rng.integers(4))]
    else:
        init = [LABELS[int(i)] for i in rng.integers(0, 4, size=int(rng.integers(0, 4)))]
    dflt = "main" if rng.random() < 0.6 else ["a", "all", "b"][int(rng.integers(3))]
    alll = "all" if rng.random() < 0.8 else ["b", "main"][int(rng.integers(2))]
    cfg = {"init": init, "dflt": dflt, "all": alll}
    if isinstance(init, list) and rng.random() < 0.4:
        cfg["init_tuple"] = True
    k = int(rng.integers(1, max_ops + 1))
    t = 0
    calls = []
    pool = ["a", "b", "all"] if rng.random() < 0.7 else LABELS
    for _ in range(k):
        t += int([0, 0, 1, 1, 2, 3, 5][int(rng.integers(7))])
        r = rng.random()
        op = "start" if r < 0.27 else "stop" if r < 0.5 else "reset" if r < 0.58 else "elapsed" if r < 0.86 else "ctx" if r < 0.95 else "str"
        c = {"t": t, "op": op}
        if op == "elapsed":
            c["arg"] = None if rng.random() < 0.3 else pool[int(rng.integers(len(pool)))]
            c["total"] = bool(rng.random() < 0.6)
            if rng.random() < 0.1:
                c["via_ctx"] = True
        elif op == "str":
            pass
        elif op == "ctx":
            c["op"] = "ctx_enter" if rng.random() < 0.5 else "ctx_exit"
            c["arg"] = None if rng.random() < 0.35 else pool[int(rng.integers(len(pool)))]
            c["action"] = "StartStop" if rng.random() < 0.6 else "StopStart"
            if c["op"] == "ctx_exit" and rng.random() < 0.3:
                c["exc"] = True
        else:
            r = rng.random()
            if r < 0.25:
                c["arg"] = None
                c["noarg"] = bool(rng.integers(2))
            elif r < 0.7:
                c["arg"] = pool[int(rng.integers(len(pool)))]
            else:
                c["arg"] = [pool[int(i)] for i in rng.integers(0, len(pool), size=int(rng.integers(0, 4)))]
                if rng.random() < 0.15:
                    c["arg"].append("zz")
                    rng.shuffle(c["arg"])
                    c["arg"] = [str(x) for x in c["arg"]]
                c["tuple"] = bool(rng.random() < 0.3)
        calls.append(c)
    return cfg, calls


def timer_oracle(cfg, calls, with_keys=False):
    """ideal stop-watch by brute force over the call history.  Returns the list of expected results
    (same encoding as driver_opt.run_timer): the property C15 says Timer must report these."""
    init = cfg["init"]
    existing = [] if init is None else ([init] if isinstance(init, str) else list(init))
    events = {}  # label -> list of (time, op)
    out = []
    keys = []  # after each call: the labels that exist, in order of first appearance

    def snapshot():
        seen = []
        for l in existing:
            if l not in seen:
                seen.append(l)
        keys.append(seen)

    def total(lbl, now):
        ev = events.get(lbl, [])
        resets = [t for t, o in ev if o == "reset"]
        r = resets[-1] if resets else 0
        n = 0
        for s in range(now):
            last = None
            for t, o in ev:
                if t <= s:
                    last = o
            if s >= r and last == "start":
                n += 1
        return n

    def current(lbl, now):
        ev = events.get(lbl, [])
        first = None
        for t, o in reversed(ev):
            if o != "start":
                break
            first = t
        return 0 if first is None else now - first

    def running(lbl):
        ev = events.get(lbl, [])
        return bool(ev) and ev[-1][1] == "start"

    for c in calls:
        t, op, arg = c["t"], c["op"], c.get("arg")
        if op in ("ctx_enter", "ctx_exit"):
            # a context manager is a start at one end and a stop at the other
            op = "start" if (c["action"] == "StartStop") == (op == "ctx_enter") else "stop"
        if op == "str":
            # one row per existing label, sorted; accumulated time of the completed intervals, time since the
            # pending start or `Stopped`
            rows = []
            for lbl in sorted(set(existing)):
                cur = current(lbl, t) if running(lbl) else None
                rows.append([lbl, D.fmt_ticks(total(lbl, t) - (cur or 0)), None if cur is None else D.fmt_ticks(cur)])
            out.append(rows)
            snapshot()
            continue
        if op == "elapsed":
            lbl = cfg["dflt"] if arg is None else arg
            if lbl not in existing:
                out.append(0 if arg is None else -1)
            else:
                out.append(total(lbl, t) if c["total"] else current(lbl, t))
            snapshot()
            continue
        if op == "start":
            ls = [cfg["dflt"]] if arg is None else ([arg] if isinstance(arg, str) else list(arg))
            for l in ls:
                if l not in existing:
                    existing.append(l)
                events.setdefault(l, []).append((t, "start"))
            out.append(0)
            snapshot()
            continue
        one = cfg["dflt"] if arg is None else arg
        if isinstance(one, str):
            ls = list(existing) if one == cfg["all"] else [one]
        else:
            ls = list(one)
        r = 0
        for l in ls:
            if l not in existing:
                r = -1
                break
            events.setdefault(l, []).append((t, op))
        out.append(r)
        snapshot()
    return (out, keys) if with_keys else out
