"""Generators of C02 cases (structured stream and boundary stream).  Values are dyadic so that threshold
ties are exact in binary64 both in JAX and in the Lean model."""

from __future__ import annotations

import numpy as np

import common
from prox_cases import BLOCK_OK, COMPLEX_OK, case_size, l21_groups

LAMS = [0.125, 0.25, 0.5, 0.75, 1.0, 1.5, 2.0, 2.5, 4.0]
LAMS5 = [0.625, 1.25, 2.5, 5.0]  # multiples of 5/8: norms of scaled (3,4) vectors hit them exactly
DELTAS = [0.25, 0.5, 1.0, 1.5, 3.0]
BETAS = [0.0, 0.25, 0.5, 1.0, 1.5, 2.0]
SCALES = [0.125, 0.5, 0.75, 1.0, 2.0]
PLAIN_SHAPES = [(1,), (2,), (3,), (5,), (6,), (2, 2), (2, 3), (3, 2), (1, 4), (2, 1, 3)]
BLOCK_LAYOUTS = [[(2,), (3,)], [(1,), (2, 2)], [(2, 3), (2,), (1,)], [(3,), (3,)]]
# L21Norm: the axis handling lives on N-d arrays
ND_SHAPES = [(2, 2), (2, 3), (3, 2), (1, 4), (2, 1, 3), (2, 3, 2), (3, 2, 2), (2, 2, 1, 2)]
EPS = 2.0**-6


# functionals wrapped by the generic Loss: non-even ones (nonneg) expose the orientation of the translation
LOSS_INNER = ["nonneg", "nonneg", "l1", "l2", "sql2", "hubersep", "hubernonsep", "l2ball", "zero"]


def rescale_ops(rng):
    """sequence of rescalings applied to a loss after construction (empty in ~35% of the cases)"""
    if rng.random() < 0.35:
        return []
    ops = []
    for _ in range(int(rng.integers(1, 4))):
        k = pick(rng, ["mul", "mul", "div", "set"])
        # dyadic factors only (division by 3 would leave the dyadic grid; with W=None the code forms alpha with the
        # float32 ones of the default Identity, so a scale that is not float32-representable costs float32 accuracy)
        c = pick(rng, [2.0, 0.5, 4.0, 0.25, 3.0] if k == "mul" else [2.0, 0.5, 4.0, 0.25]) if k != "set" else pick(rng, [0.125, 0.75, 1.0, 2.0])
        ops.append([k, c])
    return ops


def eff_scale_py(P):
    """scale after the rescalings (generator-side copy, used only to place boundary values)"""
    sc = float(P["scale"])
    for k, c in P.get("rescale") or []:
        sc = sc * c if k == "mul" else sc / c if k == "div" else float(c)
    return sc


def pick(rng, xs):
    return xs[int(rng.integers(0, len(xs)))]


def layout(rng, fam, force_plain=False):
    """returns dict with shape|blocks, cplx, dtype"""
    d = {}
    if fam == "nuclear":
        d["shape"] = list(pick(rng, [(2, 2), (2, 3), (3, 2), (3, 3), (1, 3), (4, 2)]))
    elif fam in BLOCK_OK and not force_plain and rng.random() < 0.3:
        d["shape"] = None
        d["blocks"] = [list(s) for s in pick(rng, BLOCK_LAYOUTS)]
    elif fam == "l21" and rng.random() < 0.75:
        d["shape"] = list(pick(rng, ND_SHAPES))
    else:
        d["shape"] = list(pick(rng, PLAIN_SHAPES))
    d["cplx"] = bool(fam in COMPLEX_OK and rng.random() < 0.35)
    d["dtype"] = "float32" if rng.random() < 0.12 else "float64"
    return d


def dy(rng, n, scale=4.0, zeros=0.15):
    v = common.dyadic(rng, (n,), bits=6, scale=scale)
    if n and zeros:
        v[rng.random(n) < zeros] = 0.0
    return v


def params_for(rng, fam, lay, boundary=False):
    P = {}
    if fam in ("hubersep", "hubernonsep"):
        P["delta"] = 0.625 if boundary else pick(rng, DELTAS)
    elif fam == "l1l2":
        P["beta"] = pick(rng, BETAS)
    elif fam == "l2ball":
        P["radius"] = pick(rng, LAMS5) if boundary else pick(rng, LAMS + LAMS5)
    elif fam == "l21":
        if lay.get("blocks") is not None:
            P["axis"] = None
        else:
            nd = len(lay["shape"])
            opts = [None, 0, -1] + ([1, [0, 1], [1, 0], [-1, -2], [0]] if nd >= 2 else []) + (
                [2, [0, 2], [1, 2], [0, -1], [-2, 0], [0, 1, 2]] if nd >= 3 else []) + ([[1, 3], [0, 2, 3], 3, [-1, 1]] if nd >= 4 else [])
            P["axis"] = pick(rng, opts)
    elif fam in ("setdist", "sqsetdist"):
        kinds = ["box", "nonneg", "ball", "point", "hyperplane"]
        if lay["cplx"]:
            kinds = ["ball", "point"]
        elif lay.get("blocks") is not None:
            kinds = ["box", "nonneg", "ball", "point"]
        k = pick(rng, kinds)
        spec = {"kind": k}
        if k == "box":
            lo = pick(rng, [-1.0, 0.0, 0.5])
            spec.update(lo=lo, hi=lo + pick(rng, [0.0, 1.0, 2.5]))
        elif k == "ball":
            spec["r"] = pick(rng, [0.5, 1.0, 2.5])
        elif k == "point":
            spec["c"] = pick(rng, [0.0, 0.5, -1.0])
        elif k == "hyperplane":
            spec["b"] = pick(rng, [0.0, 1.0, -2.0])
        spec["via_args"] = bool(rng.random() < 0.4)
        P["proj"] = spec
    elif fam == "lossgen":
        P["inner"] = pick(rng, LOSS_INNER)
        if P["inner"] in ("hubersep", "hubernonsep"):
            P["delta"] = 0.625 if boundary else pick(rng, DELTAS)
        if P["inner"] == "l2ball":
            P["radius"] = pick(rng, LAMS5)
        P["scale"] = pick(rng, SCALES)
        P["rescale"] = rescale_ops(rng)
        P["A"] = "none" if lay.get("blocks") is not None else pick(rng, ["none", "identity"])
    elif fam in ("sql2loss", "sql2abs", "sql2sqabs"):
        P["scale"] = pick(rng, SCALES)
        P["rescale"] = rescale_ops(rng)
        if fam == "sql2loss":
            P["A"] = pick(rng, ["none", "identity", "diagonal", "diagonal"])
            if lay.get("blocks") is not None and P["A"] == "identity":
                P["A"] = "none"
        else:
            P["A"] = pick(rng, ["none", "identity"])
    return P


def fill_aux(rng, case, boundary=False):
    """y, w, a for the losses"""
    fam = case["fam"]
    if fam == "lossgen":
        case["y"] = dy(rng, case_size(case), 2.0).tolist()
        return
    if fam not in ("sql2loss", "sql2abs", "sql2sqabs"):
        return
    n = case_size(case)
    zr = 0.35 if boundary else 0.1
    if rng.random() < (0.85 if boundary else 0.6):
        w = np.abs(dy(rng, n, 3.0, zeros=zr))
        case["w"] = w.tolist()
    else:
        case["w"] = None
    if fam == "sql2loss":
        case["y"] = dy(rng, n).tolist()
        if case["cplx"]:
            case["yim"] = dy(rng, n).tolist()
        if case["params"]["A"] == "diagonal":
            case["a"] = dy(rng, n, 2.0, zeros=zr).tolist()
            if case["cplx"]:
                case["aim"] = dy(rng, n, 2.0, zeros=zr).tolist()
    else:
        case["y"] = np.abs(dy(rng, n, 4.0, zeros=zr)).tolist()  # data of the phase-retrieval losses must be >= 0


def structured(rng, fam):
    lay = layout(rng, fam)
    case = {"fam": fam, **lay}
    case["params"] = params_for(rng, fam, lay)
    n = case_size(case)
    case["lam"] = pick(rng, LAMS)
    case["v"] = dy(rng, n).tolist()
    if case["cplx"]:
        case["vim"] = dy(rng, n).tolist()
    fill_aux(rng, case)
    case["stream"] = "structured"
    return case


def _pyth(n, tau, cplx, rng):
    """real (or complex) vector of length n with Euclidean norm exactly tau (tau a multiple of 5/8)"""
    re = np.zeros(n)
    im = np.zeros(n)
    sg = lambda: 1.0 if rng.random() < 0.5 else -1.0  # noqa: E731
    if cplx:
        i = int(rng.integers(0, n))
        re[i], im[i] = sg() * 3 * tau / 5, sg() * 4 * tau / 5
    elif n >= 2:
        i, j = rng.choice(n, size=2, replace=False)
        re[i], re[j] = sg() * 3 * tau / 5, sg() * 4 * tau / 5
    else:
        re[0] = sg() * tau
    return re, im


def boundary(rng, fam):
    """cases sitting exactly on (or one grid step beside) the branch thresholds of the prox, v = 0, set boundaries"""
    lay = layout(rng, fam)
    lay["dtype"] = "float64"
    case = {"fam": fam, **lay}
    P = case["params"] = params_for(rng, fam, lay, boundary=True)
    n = case_size(case)
    cplx = case["cplx"]
    lam = pick(rng, LAMS5)
    re, im = dy(rng, n), (dy(rng, n) if cplx else np.zeros(n))
    sgn = lambda: 1.0 if rng.random() < 0.5 else -1.0  # noqa: E731
    mode = pick(rng, ["zero", "on", "in", "out", "mixed"])
    case["bmode"] = mode
    if fam in ("l0", "l1", "hubersep", "sql2abs", "sql2sqabs", "nonneg", "zero", "sql2", "sql2loss", "lossgen"):
        tau = lam
        if fam == "hubersep":
            lam = pick(rng, [1.0, 3.0])
            tau = P["delta"] * (1 + lam)  # 5/4 or 5/2
        if fam == "l0" and rng.random() < 0.5 and not cplx:
            # the TRUE threshold sqrt(2 lam): lam=2 -> 2 (coincides), lam=0.5 -> 1, lam=0.125 -> 0.5, lam=8 -> 4
            lam = pick(rng, [0.125, 0.5, 2.0, 8.0])
            tau = float(np.sqrt(2 * lam))
        for i in range(n):
            m = mode if mode != "mixed" else pick(rng, ["zero", "on", "in", "out"])
            mag = {"zero": 0.0, "on": tau, "in": tau - EPS, "out": tau + EPS}[m]
            if cplx:
                if m in ("in", "out"):
                    mag = tau * (0.5 if m == "in" else 2.0)
                a, b = (3 * mag / 5, 4 * mag / 5) if rng.random() < 0.7 else (mag, 0.0)
                if rng.random() < 0.5:
                    a, b = b, a
                re[i], im[i] = sgn() * a, sgn() * b
            else:
                re[i] = sgn() * mag
    elif fam in ("l2", "hubernonsep", "l2ball"):
        tau = lam
        if fam == "hubernonsep":
            lam = pick(rng, [1.0, 3.0])
            tau = P["delta"] * (1 + lam)
        if fam == "l2ball":
            tau = P["radius"]
        re, im = _pyth(n, tau, cplx, rng)
        f = {"zero": 0.0, "on": 1.0, "in": 0.5, "out": 2.0, "mixed": 1.0 + EPS}[mode]
        re, im = re * f, im * f
    elif fam == "l21":
        g = np.asarray(l21_groups(case))
        for c in set(g.tolist()):
            idx = np.nonzero(g == c)[0]
            m = mode if mode != "mixed" else pick(rng, ["zero", "on", "in", "out", "rand"])
            if m == "rand":
                continue
            r2, i2 = _pyth(len(idx), lam, cplx, rng)
            f = {"zero": 0.0, "on": 1.0, "in": 0.5, "out": 2.0}[m]
            re[idx], im[idx] = r2 * f, i2 * f
    elif fam in ("setdist", "sqsetdist"):
        spec = P["proj"]
        f = {"zero": 0.0, "on": 1.0, "in": 0.5, "out": 2.0, "mixed": 1.0 + EPS}[mode]  # distance = f*lam ("zero": inside the set)
        d_re, d_im = _pyth(n, lam * f, cplx, rng)
        if spec["kind"] == "box":
            base = np.full(n, spec["hi"])
            d_re = np.abs(d_re)  # outward normal at the upper corner
        elif spec["kind"] == "nonneg":
            base = np.zeros(n)
            d_re = -np.abs(d_re)
        elif spec["kind"] == "ball":
            # radial: v = (r + f lam) * unit vector
            u_re, u_im = _pyth(n, 5.0, cplx, rng)
            s = (spec["r"] + lam * f) / 5.0
            base, d_re, d_im = np.zeros(n), u_re * s, u_im * s
        elif spec["kind"] == "point":
            base = np.full(n, spec["c"])
        else:  # hyperplane sum x = b : normal direction (1,...,1): distance = |t| sqrt(n); use n in {1,4} exactly else generic
            base = np.zeros(n)
            base[0] = spec["b"]
            t = lam * f / np.sqrt(n)
            d_re, d_im = np.full(n, t), np.zeros(n)
        re, im = base + d_re, d_im
    elif fam == "l1l2":
        beta = P["beta"]
        lam = pick(rng, [0.5, 1.0, 2.0, 4.0])
        re = dy(rng, n, 1.0)
        m = pick(rng, ["vamx=lam", "vamx=(1-b)lam", "tie", "zero", "below", "tie-above"])
        case["bmode"] = m
        scale_to = None
        if m == "vamx=lam":
            scale_to = lam
        elif m == "vamx=(1-b)lam":
            scale_to = (1 - beta) * lam if beta < 1 else lam * 0.5
        elif m == "below":
            scale_to = max((1 - beta) * lam - EPS, EPS)
        elif m in ("tie", "tie-above"):
            scale_to = lam * (0.75 if m == "tie" else 1.5)
        if m == "zero":
            re = np.zeros(n)
        else:
            re = np.clip(re, -1, 1) * min(scale_to, 1.0) * 0.5
            i = int(rng.integers(0, n))
            re[i] = sgn() * scale_to
            if m in ("tie", "tie-above") and n >= 2:
                j = (i + 1 + int(rng.integers(0, n - 1))) % n
                re[j] = sgn() * scale_to
        cplx = case["cplx"] = False
        im = np.zeros(n)
    elif fam == "nuclear":
        sh = case["shape"]
        k = min(sh)
        M = np.zeros(sh)
        svals = [pick(rng, [0.0, lam, lam + EPS, lam - EPS, 2 * lam]) for _ in range(k)]
        perm = rng.permutation(k)
        for t in range(k):
            M[t, perm[t]] = sgn() * svals[t]
        re = M.ravel()
        im = np.zeros(n)
        cplx = case["cplx"] = False
    case["lam"] = float(lam)
    case["v"] = np.asarray(re, dtype=np.float64).tolist()
    if case["cplx"]:
        case["vim"] = np.asarray(im, dtype=np.float64).tolist()
    fill_aux(rng, case, boundary=True)
    if fam == "sql2sqabs" and case.get("w") is not None:
        # alpha*y exactly 1, below, above at entries where v = 0 (root selection of the cubic)
        sc = eff_scale_py(case["params"])
        w = np.asarray(case["w"])
        y = np.asarray(case["y"])
        for i in range(n):
            a = lam * 4 * sc * w[i]
            if a > 0 and rng.random() < 0.5:
                y[i] = pick(rng, [1.0, 0.5, 2.0, 0.0]) / a
        case["y"] = y.tolist()
    if fam == "lossgen":
        # thresholds of the wrapped prox sit at |v - y| = scale_eff * lam
        es = eff_scale_py(case["params"])
        case["v"] = (np.asarray(case["y"]) + es * np.asarray(case["v"])).tolist()
    case["stream"] = "boundary"
    return case
