"""Translator of the Driver engine (C15, DESIGN §6.3): statistics-field and working-variable tables of the
optimiser classes -> lean/Scico/Generated/DriverFields.lean.

Reads with `ast` only (nothing is imported or executed):

* scico/optimize/_common.py : `Optimizer._itstat_default_fields` (the literal dict / list, and the fields added
  under `if self._objective_evaluatable():`)
* scico/optimize/_admm.py, _ladmm.py, _padmm.py, _primaldual.py, _pgm.py : for each optimiser class the method
  `_itstat_extra_fields` it uses (own or inherited inside the module): the literal dict / list it starts from and
  the `if / elif` chain of `itstat_fields.update({...})` / `itstat_attrib.extend([...])` with the source text of
  each condition; and the method `_working_vars_finite` it uses: the attributes passed to `_all_finite`
  (`*name` for a list attribute iterated over), in evaluation order.

The generated module holds the tables as a `Scico.Driver.FieldTables` value and ONE obligation
`src = Scico.Driver.fieldTables` (the model's hand-written tables) closed by `decide`.
"""

from __future__ import annotations

import ast
from pathlib import Path

import common

OUT = common.LEAN_DIR / "Scico" / "Generated" / "DriverFields.lean"

# (model class tag, module file, class name)
CLASSES = [
    ("admm", "scico/optimize/_admm.py", "ADMM"),
    ("ladmm", "scico/optimize/_ladmm.py", "LinearizedADMM"),
    ("padmm", "scico/optimize/_padmm.py", "ProximalADMM"),
    ("nlpadmm", "scico/optimize/_padmm.py", "NonLinearPADMM"),
    ("pdhg", "scico/optimize/_primaldual.py", "PDHG"),
    ("pgm", "scico/optimize/_pgm.py", "PGM"),
    ("apgm", "scico/optimize/_pgm.py", "AcceleratedPGM"),
]


class Untranslatable(common.Infra):
    pass


def _classes(tree):
    return {n.name: n for n in tree.body if isinstance(n, ast.ClassDef)}


def _method(classes, cname, mname):
    """the method `mname` class `cname` uses: its own or the first one found along the (single-module) bases"""
    seen = set()
    todo = [cname]
    while todo:
        c = todo.pop(0)
        if c in seen or c not in classes:
            continue
        seen.add(c)
        for n in classes[c].body:
            if isinstance(n, ast.FunctionDef) and n.name == mname:
                return n
        for b in classes[c].bases:
            if isinstance(b, ast.Name):
                todo.append(b.id)
    return None


def _str_dict(node, where):
    if not isinstance(node, ast.Dict):
        raise Untranslatable(f"{where}: expected a dict literal, got {ast.unparse(node)}")
    out = []
    for k, v in zip(node.keys, node.values):
        if not (isinstance(k, ast.Constant) and isinstance(k.value, str) and isinstance(v, ast.Constant) and isinstance(v.value, str)):
            raise Untranslatable(f"{where}: non-literal dict entry {ast.unparse(node)}")
        out.append((k.value, v.value))
    return out


def _str_list(node, where):
    if not isinstance(node, (ast.List, ast.Tuple)) or not all(isinstance(e, ast.Constant) and isinstance(e.value, str) for e in node.elts):
        raise Untranslatable(f"{where}: expected a list of string literals, got {ast.unparse(node)}")
    return [e.value for e in node.elts]


def _zip_fields(fields, attribs, where):
    if len(fields) != len(attribs):
        raise Untranslatable(f"{where}: {len(fields)} fields but {len(attribs)} attribute expressions")
    return [(n, f, a) for (n, f), a in zip(fields, attribs)]


def _updates(stmts, where):
    """`itstat_fields.update({...})` and `itstat_attrib.extend([...]) / .append("...")` in a statement list"""
    fields, attribs = [], []
    for st in stmts:
        if isinstance(st, ast.Expr) and isinstance(st.value, ast.Constant):
            continue  # comment-like string
        if not (isinstance(st, ast.Expr) and isinstance(st.value, ast.Call) and isinstance(st.value.func, ast.Attribute)
                and isinstance(st.value.func.value, ast.Name) and len(st.value.args) == 1 and not st.value.keywords):
            raise Untranslatable(f"{where}: unexpected statement {ast.unparse(st)}")
        tgt, meth, arg = st.value.func.value.id, st.value.func.attr, st.value.args[0]
        if tgt == "itstat_fields" and meth == "update":
            fields += _str_dict(arg, where)
        elif tgt == "itstat_attrib" and meth == "extend":
            attribs += _str_list(arg, where)
        elif tgt == "itstat_attrib" and meth == "append" and isinstance(arg, ast.Constant) and isinstance(arg.value, str):
            attribs.append(arg.value)
        else:
            raise Untranslatable(f"{where}: unexpected statement {ast.unparse(st)}")
    return _zip_fields(fields, attribs, where)


def _fields_method(fn, where):
    """-> (base fields, [(condition source, fields)]) of an `_itstat_*_fields` method"""
    body = [s for s in fn.body if not (isinstance(s, ast.Expr) and isinstance(s.value, ast.Constant))]
    if not body or not isinstance(body[-1], ast.Return):
        raise Untranslatable(f"{where}: does not end in a return")
    ret = body[-1].value
    if isinstance(ret, ast.Tuple) and len(ret.elts) == 2 and isinstance(ret.elts[0], ast.Dict) and isinstance(ret.elts[1], ast.List):
        if len(body) != 1:
            raise Untranslatable(f"{where}: literal return preceded by other statements")
        return _zip_fields(_str_dict(ret.elts[0], where), _str_list(ret.elts[1], where), where), []
    if not (isinstance(ret, ast.Tuple) and [ast.unparse(e) for e in ret.elts] == ["itstat_fields", "itstat_attrib"]):
        raise Untranslatable(f"{where}: unexpected return {ast.unparse(ret)}")
    fields = attribs = None
    branches = []
    for st in body[:-1]:
        if isinstance(st, ast.Assign) and len(st.targets) == 1 and isinstance(st.targets[0], ast.Name):
            nm = st.targets[0].id
            if nm == "itstat_fields" and fields is None and not branches:
                fields = _str_dict(st.value, where)
                continue
            if nm == "itstat_attrib" and attribs is None and not branches:
                attribs = _str_list(st.value, where)
                continue
        if isinstance(st, ast.If):
            if branches:
                raise Untranslatable(f"{where}: more than one if-chain")
            node = st
            while True:
                branches.append((ast.unparse(node.test), _updates(node.body, where)))
                if len(node.orelse) == 1 and isinstance(node.orelse[0], ast.If):
                    node = node.orelse[0]
                    continue
                if node.orelse:
                    raise Untranslatable(f"{where}: if-chain with a final else")
                break
            continue
        raise Untranslatable(f"{where}: unexpected statement {ast.unparse(st)}")
    if fields is None or attribs is None:
        raise Untranslatable(f"{where}: initial dict / list not found")
    return _zip_fields(fields, attribs, where), branches


def _attr_of_self(node):
    if isinstance(node, ast.Attribute) and isinstance(node.value, ast.Name) and node.value.id == "self":
        return node.attr
    return None


def _working_vars(fn, where):
    """attributes tested by `_all_finite` in evaluation order; `*name` = every element of the list attribute"""
    body = [s for s in fn.body if not (isinstance(s, ast.Expr) and isinstance(s.value, ast.Constant))]

    def call_arg(node):
        if isinstance(node, ast.Call) and isinstance(node.func, ast.Name) and node.func.id == "_all_finite" and len(node.args) == 1:
            return node.args[0]
        return None

    # form 1: return _all_finite(self.a) and _all_finite(self.b) ...
    if len(body) == 1 and isinstance(body[0], ast.Return):
        v = body[0].value
        terms = v.values if isinstance(v, ast.BoolOp) and isinstance(v.op, ast.And) else [v]
        out = []
        for t in terms:
            a = call_arg(t)
            nm = _attr_of_self(a) if a is not None else None
            if nm is None:
                raise Untranslatable(f"{where}: unexpected conjunct {ast.unparse(t)}")
            out.append(nm)
        return out
    # form 2: for v in ([self.x] + self.z_list + ...): if not _all_finite(v): return False;  return True
    if (len(body) == 2 and isinstance(body[0], ast.For) and isinstance(body[1], ast.Return)
            and isinstance(body[1].value, ast.Constant) and body[1].value.value is True and not body[0].orelse):
        loop = body[0]
        ok = (len(loop.body) == 1 and isinstance(loop.body[0], ast.If) and not loop.body[0].orelse
              and isinstance(loop.body[0].test, ast.UnaryOp) and isinstance(loop.body[0].test.op, ast.Not)
              and call_arg(loop.body[0].test.operand) is not None
              and ast.unparse(call_arg(loop.body[0].test.operand)) == ast.unparse(loop.target)
              and len(loop.body[0].body) == 1 and isinstance(loop.body[0].body[0], ast.Return)
              and isinstance(loop.body[0].body[0].value, ast.Constant) and loop.body[0].body[0].value.value is False)
        if not ok:
            raise Untranslatable(f"{where}: unexpected loop body {ast.unparse(loop)}")

        def terms(e):
            if isinstance(e, ast.BinOp) and isinstance(e.op, ast.Add):
                return terms(e.left) + terms(e.right)
            if isinstance(e, ast.List):
                out = []
                for el in e.elts:
                    nm = _attr_of_self(el)
                    if nm is None:
                        raise Untranslatable(f"{where}: unexpected list element {ast.unparse(el)}")
                    out.append(nm)
                return out
            nm = _attr_of_self(e)
            if nm is None:
                raise Untranslatable(f"{where}: unexpected iterable {ast.unparse(e)}")
            return ["*" + nm]

        return terms(loop.iter)
    raise Untranslatable(f"{where}: unrecognised shape")


def read_tables(repo: Path | None = None):
    repo = Path(repo) if repo else common.REPO
    ctree = ast.parse((repo / "scico/optimize/_common.py").read_text())
    ccls = _classes(ctree)
    fn = _method(ccls, "Optimizer", "_itstat_default_fields")
    if fn is None:
        raise Untranslatable("_common.py: Optimizer._itstat_default_fields not found")
    base, branches = _fields_method(fn, "_common.py:Optimizer._itstat_default_fields")
    if len(branches) != 1:
        raise Untranslatable("_common.py: _itstat_default_fields: expected exactly one conditional block")
    t = {"default": base, "objective_cond": branches[0][0], "objective": branches[0][1], "classes": []}
    # the statistics function is assembled from the attribute expressions by this source line
    src = (repo / "scico/optimize/_common.py").read_text()
    for fnode in ctree.body:
        if isinstance(fnode, ast.FunctionDef) and fnode.name == "itstat_func_and_object":
            for st in ast.walk(fnode):
                if isinstance(st, ast.Assign) and ast.unparse(st.targets[0]) == "itstat_return":
                    t["itstat_return"] = ast.unparse(st.value)
                if isinstance(st, ast.Call) and isinstance(st.func, ast.Name) and st.func.id == "exec":
                    t["itstat_exec"] = ast.unparse(st.args[0])
    if "itstat_return" not in t or "itstat_exec" not in t:
        raise Untranslatable("_common.py: itstat_func_and_object: assembly of the statistics function not found")
    del src
    for tag, path, cname in CLASSES:
        tree = ast.parse((repo / path).read_text())
        classes = _classes(tree)
        if cname not in classes:
            raise Untranslatable(f"{path}: class {cname} not found")
        fe = _method(classes, cname, "_itstat_extra_fields")
        if fe is None:
            raise Untranslatable(f"{path}: {cname} has no _itstat_extra_fields inside the module")
        base, branches = _fields_method(fe, f"{path}:{cname}._itstat_extra_fields")
        fw = _method(classes, cname, "_working_vars_finite")
        if fw is None:
            raise Untranslatable(f"{path}: {cname} has no _working_vars_finite inside the module")
        wv = _working_vars(fw, f"{path}:{cname}._working_vars_finite")
        t["classes"].append({"tag": tag, "name": cname, "base": base, "branches": branches, "vars": wv})
    return t


def _s(x: str) -> str:
    return '"' + x.replace("\\", "\\\\").replace('"', '\\"') + '"'


def _fs(fs):
    return "[" + ", ".join(f"⟨{_s(n)}, {_s(f)}, {_s(a)}⟩" for n, f, a in fs) + "]"


def render(t) -> str:
    out = [
        "/- GENERATED by harness/driver_translate.py from scico/optimize/_common.py, _admm.py, _ladmm.py, _padmm.py,",
        "   _primaldual.py, _pgm.py — rewritten on every run, do not edit. -/",
        "import Scico.Model.Driver",
        "",
        "namespace Scico.Generated.DriverFields",
        "open Scico.Driver",
        "",
        "def src : FieldTables :=",
        f"  {{ default := {_fs(t['default'])},",
        f"    objectiveCond := {_s(t['objective_cond'])},",
        f"    objective := {_fs(t['objective'])},",
        f"    itstatReturn := {_s(t['itstat_return'])},",
        f"    itstatExec := {_s(t['itstat_exec'])},",
        "    classes := [",
    ]
    rows = []
    for c in t["classes"]:
        br = "[" + ", ".join(f"({_s(cond)}, {_fs(fs)})" for cond, fs in c["branches"]) + "]"
        vs = "[" + ", ".join(_s(v) for v in c["vars"]) + "]"
        rows.append(f"      {{ tag := {_s(c['tag'])}, name := {_s(c['name'])},\n        base := {_fs(c['base'])},\n        branches := {br},\n        vars := {vs} }}")
    out.append(",\n".join(rows))
    out += [
        "    ] }",
        "",
        "/-- the tables read from the source are the tables of the model (`Scico.Driver.fieldTables`), from which",
        "    `fieldSpecs`, `fieldNames`, `workingVarNames` and `itstatFuncSource` are derived -/",
        "theorem tables_ok : src = fieldTables := by decide +kernel",
        "",
        "end Scico.Generated.DriverFields",
        "",
    ]
    return "\n".join(out)


def generate(repo: Path | None = None):
    t = read_tables(repo)
    txt = render(t)
    OUT.parent.mkdir(parents=True, exist_ok=True)
    if not OUT.exists() or OUT.read_text() != txt:
        OUT.write_text(txt)
    return t


if __name__ == "__main__":
    import json

    print(json.dumps(read_tables(), indent=1))
