"""Translator of the Driver engine (C15, DESIGN §6.3): statistics-field and working-variable tables of the
optimiser classes -> lean/Scico/Generated/DriverFields.lean.

Reads with `ast` only (nothing is imported or executed):

* scico/optimize/_common.py : `Optimizer._itstat_default_fields` (the literal dict / list, and the fields added
  under `if self._objective_evaluatable():`)
* scico/optimize/_admm.py, _ladmm.py, _padmm.py, _primaldual.py, _pgm.py : for each optimiser class the method
  `_itstat_extra_fields` it uses (own or inherited inside the module): the literal dict / list it starts from and
  the `if / elif` chain of `itstat_fields.update({...})` / `itstat_attrib.extend([...])` with the source text of
  each condition; and the method `_working_vars_finite` it uses: the attributes passed to `_all_finite`
  (`*name` for a list attribute iterated over), in evaluation order.

The generated module holds the tables as a `Scico.Driver.FieldTables` value and ONE obligation
`src = Scico.Driver.fieldTables` (the model's hand-written tables) closed by `decide`.
"""

from __future__ import annotations

import ast
from pathlib import Path

import common

OUT = common.LEAN_DIR / "Scico" / "Generated" / "DriverFields.lean"

# (model class tag, module file, class name)
CLASSES = [
    ("admm", "scico/optimize/_admm.py", "ADMM"),
    ("ladmm", "scico/optimize/_ladmm.py", "LinearizedADMM"),
    ("padmm", "scico/optimize/_padmm.py", "ProximalADMM"),
    ("nlpadmm", "scico/optimize/_padmm.py", "NonLinearPADMM"),
    ("pdhg", "scico/optimize/_primaldual.py", "PDHG"),
    ("pgm", "scico/optimize/_pgm.py", "PGM"),
    ("apgm", "scico/optimize/_pgm.py", "AcceleratedPGM"),
]


class Untranslatable(common.Infra):
    pass


def _classes(tree):
    return {n.name: n for n in tree.body if isinstance(n, ast.ClassDef)}


def _method(classes, cname, mname):
    """the method `mname` class `cname` uses: its own or the first one found along the (single-module) bases"""
    seen = set()
    todo = [cname]
    while todo:
        c = todo.pop(0)
        if c in seen or c not in classes:
            continue
        seen.add(c)
        for n in classes[c].body:
            if isinstance(n, ast.FunctionDef) and n.name == mname:
                return n
        for b in classes[c].bases:
            if isinstance(b, ast.Name):
                todo.append(b.id)
    return None


def _str_dict(node, where):
    if not isinstance(node, ast.Dict):
        raise Untranslatable(f"{where}: expected a dict literal, got {ast.unparse(node)}")
    out = []
    for k, v in zip(node.keys, node.values):
        if not (isinstance(k, ast.Constant) and isinstance(k.value, str) and isinstance(v, ast.Constant) and isinstance(v.value, str)):
            raise Untranslatable(f"{where}: non-literal dict entry {ast.unparse(node)}")
        out.append((k.value, v.value))
    return out


def _str_list(node, where):
    if not isinstance(node, (ast.List, ast.Tuple)) or not all(isinstance(e, ast.Constant) and isinstance(e.value, str) for e in node.elts):
        raise Untranslatable(f"{where}: expected a list of string literals, got {ast.unparse(node)}")
    return [e.value for e in node.elts]


def _zip_fields(fields, attribs, where):
    if len(fields) != len(attribs):
        raise Untranslatable(f"{where}: {len(fields)} fields but {len(attribs)} attribute expressions")
    return [(n, f, a) for (n, f), a in zip(fields, attribs)]


def _updates(stmts, where):
    """`itstat_fields.update({...})` and `itstat_attrib.extend([...]) / .append("...")` in a statement list"""
    fields, attribs = [], []
    for st in stmts:
        if isinstance(st, ast.Expr) and isinstance(st.value, ast.Constant):
            continue  # comment-like string
        if not (isinstance(st, ast.Expr) and isinstance(st.value, ast.Call) and isinstance(st.value.func, ast.Attribute)
                and isinstance(st.value.func.value, ast.Name) and len(st.value.args) == 1 and not st.value.keywords):
            raise Untranslatable(f"{where}: unexpected statement {ast.unparse(st)}")
        tgt, meth, arg = st.value.func.value.id, st.value.func.attr, st.value.args[0]
        if tgt == "itstat_fields" and meth == "update":
            fields += _str_dict(arg, where)
        elif tgt == "itstat_attrib" and meth == "extend":
            attribs += _str_list(arg, where)
        elif tgt == "itstat_attrib" and meth == "append" and isinstance(arg, ast.Constant) and isinstance(arg.value, str):
            attribs.append(arg.value)
        else:
            raise Untranslatable(f"{where}: unexpected statement {ast.unparse(st)}")
    return _zip_fields(fields, attribs, where)


def _fields_method(fn, where):
    """-> (base fields, [(condition source, fields)]) of an `_itstat_*_fields` method"""
    body = [s for s in fn.body if not (isinstance(s, ast.Expr) and isinstance(s.value, ast.Constant))]
    if not body or not isinstance(body[-1], ast.Return):
        raise Untranslatable(f"{where}: does not end in a return")
    ret = body[-1].value
    if isinstance(ret, ast.Tuple) and len(ret.elts) == 2 and isinstance(ret.elts[0], ast.Dict) and isinstance(ret.elts[1], ast.List):
        if len(body) != 1:
            raise Untranslatable(f"{where}: literal return preceded by other statements")
        return _zip_fields(_str_dict(ret.elts[0], where), _str_list(ret.elts[1], where), where), []
    if not (isinstance(ret, ast.Tuple) and [ast.unparse(e) for e in ret.elts] == ["itstat_fields", "itstat_attrib"]):
        raise Untranslatable(f"{where}: unexpected return {ast.unparse(ret)}")
    fields = attribs = None
    branches = []
    for st in body[:-1]:
        if isinstance(st, ast.Assign) and len(st.targets) == 1 and isinstance(st.targets[0], ast.Name):
            nm = st.targets[0].id
            if nm == "itstat_fields" and fields is None and not branches:
                fields = _str_dict(st.value, where)
                continue
            if nm == "itstat_attrib" and attribs is None and not branches:
                attribs = _str_list(st.value, where)
                continue
        if isinstance(st, ast.If):
            if branches:
                raise Untranslatable(f"{where}: more than one if-chain")
            node = st
            while True:
                branches.append((ast.unparse(node.test), _updates(node.body, where)))
                if len(node.orelse) == 1 and isinstance(node.orelse[0], ast.If):
                    node = node.orelse[0]
                    continue
                if node.orelse:
                    raise Untranslatable(f"{where}: if-chain with a final else")
                break
            continue
        raise Untranslatable(f"{where}: unexpected statement {ast.unparse(st)}")
    if fields is None or attribs is None:
        raise Untranslatable(f"{where}: initial dict / list not found")
    return _zip_fields(fields, attribs, where), branches


def _attr_of_self(node):
    if isinstance(node, ast.Attribute) and isinstance(node.value, ast.Name) and node.value.id == "self":
        return node.attr
    return None


def _working_vars(fn, where):
    """attributes tested by `_all_finite` in evaluation order; `*name` = every element of the list attribute"""
    body = [s for s in fn.body if not (isinstance(s, ast.Expr) and isinstance(s.value, ast.Constant))]

    def call_arg(node):
        if isinstance(node, ast.Call) and isinstance(node.func, ast.Name) and node.func.id == "_all_finite" and len(node.args) == 1:
            return node.args[0]
        return None

    # form 1: return _all_finite(self.a) and _all_finite(self.b) ...
    if len(body) == 1 and isinstance(body[0], ast.Return):
        v = body[0].value
        terms = v.values if isinstance(v, ast.BoolOp) and isinstance(v.op, ast.And) else [v]
        out = []
        for t in terms:
            a = call_arg(t)
            nm = _attr_of_self(a) if a is not None else None
            if nm is None:
                raise Untranslatable(f"{where}: unexpected conjunct {ast.unparse(t)}")
            out.append(nm)
        return out
    # form 2: for v in ([self.x] + self.z_list + ...): if not _all_finite(v): return False;  return True
    if (len(body) == 2 and isinstance(body[0], ast.For) and isinstance(body[1], ast.Return)
            and isinstance(body[1].value, ast.Constant) and body[1].value.value is True and not body[0].orelse):
        loop = body[0]
        ok = (len(loop.body) == 1 and isinstance(loop.body[0], ast.If) and not loop.body[0].orelse
              and isinstance(loop.body[0].test, ast.UnaryOp) and isinstance(loop.body[0].test.op, ast.Not)
              and call_arg(loop.body[0].test.operand) is not None
              and ast.unparse(call_arg(loop.body[0].test.operand)) == ast.unparse(loop.target)
              and len(loop.body[0].body) == 1 and isinstance(loop.body[0].body[0], ast.Return)
              and isinstance(loop.body[0].body[0].value, ast.Constant) and loop.body[0].body[0].value.value is False)
        if not ok:
            raise Untranslatable(f"{where}: unexpected loop body {ast.unparse(loop)}")

        def terms(e):
            if isinstance(e, ast.BinOp) and isinstance(e.op, ast.Add):
                return terms(e.left) + terms(e.right)
            if isinstance(e, ast.List):
                out = []
                for el in e.elts:
                    nm = _attr_of_self(el)
                    if nm is None:
                        raise Untranslatable(f"{where}: unexpected list element {ast.unparse(el)}")
                    out.append(nm)
                return out
            nm = _attr_of_self(e)
            if nm is None:
                raise Untranslatable(f"{where}: unexpected iterable {ast.unparse(e)}")
            return ["*" + nm]

        return terms(loop.iter)
    raise Untranslatable(f"{where}: unrecognised shape")


def read_tables(repo: Path | None = None):
    repo = Path(repo) if repo else common.REPO
    ctree = ast.parse((repo / "scico/optimize/_common.py").read_text())
    ccls = _classes(ctree)
    fn = _method(ccls, "Optimizer", "_itstat_default_fields")
    if fn is None:
        raise Untranslatable("_common.py: Optimizer._itstat_default_fields not found")
    base, branches = _fields_method(fn, "_common.py:Optimizer._itstat_default_fields")
    if len(branches) != 1:
        raise Untranslatable("_common.py: _itstat_default_fields: expected exactly one conditional block")
    t = {"default": base, "objective_cond": branches[0][0], "objective": branches[0][1], "classes": []}
    # the statistics function is assembled from the attribute expressions by this source line
    src = (repo / "scico/optimize/_common.py").read_text()
    for fnode in ctree.body:
        if isinstance(fnode, ast.FunctionDef) and fnode.name == "itstat_func_and_object":
            for st in ast.walk(fnode):
                if isinstance(st, ast.Assign) and ast.unparse(st.targets[0]) == "itstat_return":
                    t["itstat_return"] = ast.unparse(st.value)
                if isinstance(st, ast.Call) and isinstance(st.func, ast.Name) and st.func.id == "exec":
                    t["itstat_exec"] = ast.unparse(st.args[0])
    if "itstat_return" not in t or "itstat_exec" not in t:
        raise Untranslatable("_common.py: itstat_func_and_object: assembly of the statistics function not found")
    del src
    for tag, path, cname in CLASSES:
        tree = ast.parse((repo / path).read_text())
        classes = _classes(tree)
        if cname not in classes:
            raise Untranslatable(f"{path}: class {cname} not found")
        fe = _method(classes, cname, "_itstat_extra_fields")
        if fe is None:
            raise Untranslatable(f"{path}: {cname} has no _itstat_extra_fields inside the module")
        base, branches = _fields_method(fe, f"{path}:{cname}._itstat_extra_fields")
        fw = _method(classes, cname, "_working_vars_finite")
        if fw is None:
            raise Untranslatable(f"{path}: {cname} has no _working_vars_finite inside the module")
        wv = _working_vars(fw, f"{path}:{cname}._working_vars_finite")
        t["classes"].append({"tag": tag, "name": cname, "base": base, "branches": branches, "vars": wv})
    return t


def _s(x: str) -> str:
    return '"' + x.replace("\\", "\\\\").replace('"', '\\"') + '"'


def _fs(fs):
    return "[" + ", ".join(f"⟨{_s(n)}, {_s(f)}, {_s(a)}⟩" for n, f, a in fs) + "]"


def render(t) -> str:
    out = [
        "/- GENERATED by harness/driver_translate.py from scico/optimize/_common.py, _admm.py, _ladmm.py, _padmm.py,",
        "   _primaldual.py, _pgm.py — rewritten on every run, do not edit. -/",
        "import Scico.Model.Driver",
        "",
        "namespace Scico.Generated.DriverFields",
        "open Scico.Driver",
        "",
        "def src : FieldTables :=",
        f"  {{ default := {_fs(t['default'])},",
        f"    objectiveCond := {_s(t['objective_cond'])},",
        f"    objective := {_fs(t['objective'])},",
        f"    itstatReturn := {_s(t['itstat_return'])},",
        f"    itstatExec := {_s(t['itstat_exec'])},",
        "    classes := [",
    ]
    rows = []
    for c in t["classes"]:
        br = "[" + ", ".join(f"({_s(cond)}, {_fs(fs)})" for cond, fs in c["branches"]) + "]"
        vs = "[" + ", ".join(_s(v) for v in c["vars"]) + "]"
        rows.append(f"      {{ tag := {_s(c['tag'])}, name := {_s(c['name'])},\n        base := {_fs(c['base'])},\n        branches := {br},\n        vars := {vs} }}")
    out.append(",\n".join(rows))
    out += [
        "    ] }",
        "",
        "/-- the tables read from the source are the tables of the model (`Scico.Driver.fieldTables`), from which",
        "    `fieldSpecs`, `fieldNames`, `workingVarNames` and `itstatFuncSource` are derived -/",
        "theorem tables_ok : src = fieldTables := by decide +kernel",
        "",
        "end Scico.Generated.DriverFields",
        "",
    ]
    return "\n".join(out)


def generate(repo: Path | None = None):
    try:
        t = read_tables(repo)
        txt = render(t)
    except (Untranslatable, SyntaxError, OSError) as e:
        t, txt = None, _stub("DriverFields", str(e))
    OUT.parent.mkdir(parents=True, exist_ok=True)
    if not OUT.exists() or OUT.read_text() != txt:
        OUT.write_text(txt)
    return t


if __name__ == "__main__":
    import json

    print(json.dumps(read_tables(), indent=1))


# --------------------------------------------------------------------------------------------------
# round 4: statement skeletons of the modelled methods and the option defaults of Optimizer.__init__
# -> lean/Scico/Generated/DriverSource.lean

OUT_SRC = common.LEAN_DIR / "Scico" / "Generated" / "DriverSource.lean"

# (key used in the model, file, class or None, function)
SKELETONS = [
    ("Optimizer.solve", "scico/optimize/_common.py", "Optimizer", "solve"),
    ("Optimizer.__init__", "scico/optimize/_common.py", "Optimizer", "__init__"),
    ("itstat_func_and_object", "scico/optimize/_common.py", None, "itstat_func_and_object"),
    ("_all_finite", "scico/optimize/_common.py", None, "_all_finite"),
    ("Timer.__init__", "scico/util.py", "Timer", "__init__"),
    ("Timer.start", "scico/util.py", "Timer", "start"),
    ("Timer.stop", "scico/util.py", "Timer", "stop"),
    ("Timer.reset", "scico/util.py", "Timer", "reset"),
    ("Timer.elapsed", "scico/util.py", "Timer", "elapsed"),
    ("Timer.labels", "scico/util.py", "Timer", "labels"),
    ("Timer.__str__", "scico/util.py", "Timer", "__str__"),
    ("ContextTimer.__init__", "scico/util.py", "ContextTimer", "__init__"),
    ("ContextTimer.__enter__", "scico/util.py", "ContextTimer", "__enter__"),
    ("ContextTimer.__exit__", "scico/util.py", "ContextTimer", "__exit__"),
    ("ContextTimer.elapsed", "scico/util.py", "ContextTimer", "elapsed"),
    ("IterationStats.insert", "scico/diagnostics.py", "IterationStats", "insert"),
    ("IterationStats.end", "scico/diagnostics.py", "IterationStats", "end"),
    ("IterationStats.history", "scico/diagnostics.py", "IterationStats", "history"),
]


def _skeleton(stmts, depth, out):
    """normalised statement list: (nesting depth, text).  Docstrings and comments vanish, annotations of assignments
    are dropped, a `raise` keeps the exception class only (messages are not part of the behaviour compared)."""
    for st in stmts:
        if isinstance(st, ast.Expr) and isinstance(st.value, ast.Constant) and isinstance(st.value.value, str):
            continue  # docstring
        if isinstance(st, ast.If):
            node, kw = st, "if"
            while True:
                out.append((depth, f"{kw} {ast.unparse(node.test)}:"))
                _skeleton(node.body, depth + 1, out)
                if len(node.orelse) == 1 and isinstance(node.orelse[0], ast.If):
                    node, kw = node.orelse[0], "elif"
                    continue
                if node.orelse:
                    out.append((depth, "else:"))
                    _skeleton(node.orelse, depth + 1, out)
                break
        elif isinstance(st, ast.For):
            out.append((depth, f"for {ast.unparse(st.target)} in {ast.unparse(st.iter)}:"))
            _skeleton(st.body, depth + 1, out)
            if st.orelse:
                out.append((depth, "else:"))
                _skeleton(st.orelse, depth + 1, out)
        elif isinstance(st, ast.While):
            out.append((depth, f"while {ast.unparse(st.test)}:"))
            _skeleton(st.body, depth + 1, out)
        elif isinstance(st, ast.With):
            out.append((depth, "with " + ", ".join(ast.unparse(i) for i in st.items) + ":"))
            _skeleton(st.body, depth + 1, out)
        elif isinstance(st, ast.Try):
            out.append((depth, "try:"))
            _skeleton(st.body, depth + 1, out)
            for h in st.handlers:
                out.append((depth, "except " + (ast.unparse(h.type) if h.type else "") + ":"))
                _skeleton(h.body, depth + 1, out)
            if st.finalbody:
                out.append((depth, "finally:"))
                _skeleton(st.finalbody, depth + 1, out)
        elif isinstance(st, ast.Raise):
            exc = st.exc
            if isinstance(exc, ast.Call):
                exc = exc.func
            out.append((depth, "raise " + (ast.unparse(exc) if exc is not None else "")))
        elif isinstance(st, ast.AnnAssign):
            out.append((depth, f"{ast.unparse(st.target)} = {ast.unparse(st.value)}" if st.value is not None else ast.unparse(st.target)))
        else:
            out.append((depth, ast.unparse(st)))
    return out


def _find_function(tree, cname, fname):
    body = tree.body
    if cname is not None:
        cls = [n for n in tree.body if isinstance(n, ast.ClassDef) and n.name == cname]
        if not cls:
            return None
        body = cls[0].body
    for n in body:
        if isinstance(n, ast.FunctionDef) and n.name == fname:
            return n
    return None


def _lit(node, where):
    """option default as a typed literal for the model: ("int", n) | ("bool", b) | ("none",)"""
    if isinstance(node, ast.Constant):
        v = node.value
        if v is None:
            return ("none",)
        if isinstance(v, bool):
            return ("bool", v)
        if isinstance(v, int):
            return ("int", v)
    raise Untranslatable(f"{where}: default {ast.unparse(node)} is not an int / bool / None literal")


def read_source(repo: Path | None = None):
    repo = Path(repo) if repo else common.REPO
    trees = {}
    out = {"skeletons": [], "pops": [], "signature": []}
    # per optimiser class (method found in the class or along its bases inside the module)
    for tag, path, cname in CLASSES:
        tree = ast.parse((repo / path).read_text())
        classes = _classes(tree)
        for mname in ("_objective_evaluatable", "minimizer"):
            fn = _method(classes, cname, mname)
            if fn is None:
                raise Untranslatable(f"{path}: {cname}.{mname} not found inside the module")
            out["skeletons"].append((f"{cname}.{mname}", _skeleton(fn.body, 0, [])))
    for key, path, cname, fname in SKELETONS:
        if path not in trees:
            trees[path] = ast.parse((repo / path).read_text())
        fn = _find_function(trees[path], cname, fname)
        if fn is None:
            raise Untranslatable(f"{path}: {key} not found")
        out["skeletons"].append((key, _skeleton(fn.body, 0, [])))
        # default values of the parameters (Timer / ContextTimer / IterationStats-independent: only what the model uses)
        if key in ("Timer.__init__", "Timer.elapsed", "ContextTimer.__init__", "Timer.start", "Timer.stop", "Timer.reset", "Optimizer.solve"):
            a = fn.args
            names = [x.arg for x in a.args]
            defaults = [None] * (len(names) - len(a.defaults)) + [ast.unparse(d) for d in a.defaults]
            out["signature"].append((key, [(n, d if d is not None else "") for n, d in zip(names, defaults)]))
    # kwargs.pop(name, default) in Optimizer.__init__, in source order
    fn = _find_function(trees["scico/optimize/_common.py"], "Optimizer", "__init__")
    for node in ast.walk(fn):
        if (isinstance(node, ast.Call) and isinstance(node.func, ast.Attribute) and node.func.attr == "pop"
                and isinstance(node.func.value, ast.Name) and node.func.value.id == "kwargs"):
            if len(node.args) != 2 or not isinstance(node.args[0], ast.Constant):
                raise Untranslatable("Optimizer.__init__: kwargs.pop without a literal name and a default")
            out["pops"].append((node.lineno, node.args[0].value, _lit(node.args[1], "Optimizer.__init__")))
    out["pops"] = [(n, v) for _, n, v in sorted(out["pops"])]
    return out


def _optval(v):
    if v[0] == "none":
        return "OptVal.none"
    if v[0] == "bool":
        return f"OptVal.bool {'true' if v[1] else 'false'}"
    return f"OptVal.int ({v[1]})"


def render_source(t) -> str:
    out = [
        "/- GENERATED by harness/driver_translate.py from scico/optimize/_common.py, scico/util.py, scico/diagnostics.py",
        "   — rewritten on every run, do not edit. -/",
        "import Scico.Model.Driver",
        "",
        "namespace Scico.Generated.DriverSource",
        "open Scico.Driver",
        "",
        "/-- normalised statement lists (nesting depth, text) of the methods the model transcribes -/",
        "def skeletons : List (String × List (Nat × String)) := [",
    ]
    rows = []
    for key, sk in t["skeletons"]:
        lines = ",\n    ".join(f"({d}, {_s(txt)})" for d, txt in sk)
        rows.append(f"  ({_s(key)}, [\n    {lines}])")
    out.append(",\n".join(rows))
    out += ["]", "", "/-- parameters and default values of the signatures the model relies on -/",
            "def signatures : List (String × List (String × String)) := ["]
    out.append(",\n".join("  (" + _s(k) + ", [" + ", ".join(f"({_s(n)}, {_s(d)})" for n, d in ps) + "])" for k, ps in t["signature"]))
    out += ["]", "", "/-- `kwargs.pop(name, default)` of `Optimizer.__init__`, in source order -/",
            "def optionDefaults : List (String × OptVal) :=",
            "  [" + ", ".join(f"({_s(n)}, {_optval(v)})" for n, v in t["pops"]) + "]", "",
            "theorem skeletons_ok : skeletons = sourceSkeletons := by decide +kernel",
            "theorem signatures_ok : signatures = sourceSignatures := by decide +kernel",
            "theorem optionDefaults_ok : optionDefaults = Scico.Driver.optionDefaults := by decide +kernel",
            "", "end Scico.Generated.DriverSource", ""]
    return "\n".join(out)


def _stub(module: str, why: str) -> str:
    """a generated module whose obligation fails: the source no longer has the shape the translator understands
    (a change the model does not follow) - reported as a broken obligation, not as an infrastructure failure"""
    return "\n".join([
        "/- GENERATED by harness/driver_translate.py - the source could not be translated:",
        "   " + why.replace("-/", "- /"),
        "-/",
        f"namespace Scico.Generated.{module}",
        "theorem source_has_the_translated_shape : (0 : Nat) = 1 := by decide",
        f"end Scico.Generated.{module}", ""])


def generate_source(repo: Path | None = None):
    try:
        t = read_source(repo)
        txt = render_source(t)
    except (Untranslatable, SyntaxError, OSError) as e:
        t, txt = None, _stub("DriverSource", str(e))
    if not OUT_SRC.exists() or OUT_SRC.read_text() != txt:
        OUT_SRC.write_text(txt)
    return t
