"""Random derivation trees matching the Lean inductive family `Scico.Adjoint.Expr` (property C01).

`gen(rng, ...)` returns a pair (tree, leaves): `tree` is the JSON form understood by Drv/Adjoint.lean, `leaves`
the list of leaf configurations (adjoint_grid format).  `realize(tree, leaf_ops)` builds the real scico operator
by applying the same constructions (`+ - * / @ .T .H .conj() .gram_op VerticalStack DiagonalStack
DiagonalReplicated`) to real leaf objects.
"""

from __future__ import annotations

import numpy as np

import adjoint_grid as G
from adjoint_dense import flat_size, is_nested

R64, C128, R32, C64 = G.R64, G.C128, G.R32, G.C64


def _nested(s):
    return is_nested(s)


def _shape_pool(rng):
    pool = [(1,), (2,), (3,), (4,), (2, 2), (1, 3), (3, 1), (2, 3), (3, 2), (2, 1, 2)]
    return pool[int(rng.integers(len(pool)))]


def _scalar(rng, dt, nonzero=False):
    vals = [2.0, -0.5, 1.5, -1.0, 0.25, 4.0] + ([] if nonzero else [0.0])
    c = vals[int(rng.integers(len(vals)))]
    if G.cplx(dt) and rng.random() < 0.6:
        im = [1.0, -0.5, 2.0, 0.25][int(rng.integers(4))]
        return [c, im]
    return c


def leaf_config(rng, ishape, oshape, dt):
    """a leaf configuration with the requested shapes (nested shapes -> GenericN)"""
    cands = []
    if not _nested(ishape) and not _nested(oshape):
        if len(ishape) == 1 and len(oshape) == 1:
            cands.append({"cls": "MatrixOperator", "m": oshape[0], "n": ishape[0], "dt": dt, "cols": 0})
        if len(ishape) == 2 and len(oshape) == 2 and ishape[1] == oshape[1]:
            cands.append({"cls": "MatrixOperator", "m": oshape[0], "n": ishape[0], "dt": dt, "cols": ishape[1]})
        if tuple(ishape) == tuple(oshape):
            cands.append({"cls": "Diagonal", "dshape": list(ishape), "ishape": None, "dt": dt})
            cands.append({"cls": "ScaledIdentity", "ishape": list(ishape), "dt": dt, "c": _scalar(rng, dt)})
            cands.append({"cls": "Identity", "ishape": list(ishape), "dt": dt})
            ax = int(rng.integers(len(ishape)))
            cands.append({"cls": "SingleAxisFiniteDifference", "ishape": list(ishape), "axis": ax, "prepend": None, "append": None, "circular": True, "dt": dt})
            cands.append({"cls": "CircularConvolve", "hshape": [min(2, ishape[-1])], "ishape": list(ishape), "ndims": 1, "hdt": dt, "idt": dt})
            if dt == C64:
                cands.append({"cls": "DFT", "ishape": list(ishape), "axes": None, "axes_shape": None, "norm": None})
    cands.append({"cls": "GenericN", "ishape": _l(ishape), "oshape": _l(oshape), "dt": dt, "salt": int(rng.integers(1 << 20))})
    cands.append({"cls": "GenericN", "ishape": _l(ishape), "oshape": _l(oshape), "dt": dt, "salt": int(rng.integers(1 << 20))})
    return G._seeded(cands[int(rng.integers(len(cands)))])


def _l(s):
    if _nested(s):
        return [list(b) for b in s]
    return list(s)


def b_genericN(cfg):
    """generic LinearOperator (automatic adjoint) between possibly nested shapes"""
    import jax.numpy as jnp
    import scico.numpy as snp
    from scico.linop import LinearOperator

    rng = G._rng(cfg)
    ish, osh = G._t(cfg["ishape"]), G._t(cfg["oshape"])
    dt = cfg["dt"]
    n, m = flat_size(ish), flat_size(osh)
    M = jnp.asarray(G.dy(rng, (m, n), G.cplx(dt)), dtype=dt)

    def flat(x):
        if _nested(ish):
            return jnp.concatenate([b.ravel() for b in x])
        return x.ravel()

    def unflat(v):
        if _nested(osh):
            out, k = [], 0
            for s in osh:
                sz = flat_size(s)
                out.append(v[k : k + sz].reshape(s))
                k += sz
            return snp.blockarray(out)
        return v.reshape(osh)

    return LinearOperator(input_shape=ish, output_shape=osh, eval_fn=lambda x: unflat(M @ flat(x)), input_dtype=dt, output_dtype=dt, jit=False)


G.BUILDERS["GenericN"] = b_genericN


class Gen:
    def __init__(self, rng, dt, max_leaves=6):
        self.rng = rng
        self.dt = dt
        self.leaves = []
        self.max_leaves = max_leaves
        self.forms = []

    def leaf(self, ishape, oshape):
        cfg = leaf_config(self.rng, ishape, oshape, self.dt)
        self.leaves.append(cfg)
        return {"k": "leaf", "i": len(self.leaves) - 1}

    def gen(self, ishape, oshape, depth):
        rng = self.rng
        if depth <= 0 or len(self.leaves) >= self.max_leaves:
            return self.leaf(ishape, oshape)
        opts = ["leaf", "add", "sub", "smul", "sdiv", "neg", "conj", "comp", "comp", "TH", "TH"]
        if not _nested(ishape) and not _nested(oshape):
            if tuple(ishape) == tuple(oshape):
                opts += ["gram", "gram"]
            if len(oshape) >= 2 and oshape[0] <= 3:
                opts += ["vstack", "vstack"]
            if len(ishape) >= 2 and len(oshape) >= 2 and ishape[0] == oshape[0] and ishape[0] <= 3:
                opts += ["dstack", "dstack"]
            if len(ishape) >= 2 and len(oshape) >= 2:
                ks = [(ia, oa) for ia in range(len(ishape)) for oa in range(len(oshape)) if ishape[ia] == oshape[oa] and ishape[ia] <= 3]
                if ks:
                    opts += ["drep", "drep"]
        elif _nested(oshape) and not _nested(ishape):
            opts += ["vstackB", "vstackB", "vstackB"]
        if _nested(oshape) and _nested(ishape) and len(ishape) == len(oshape):
            opts += ["dstackB", "dstackB", "dstackB"]
        f = opts[int(rng.integers(len(opts)))]
        self.forms.append(f)
        d = depth - 1
        if f == "leaf":
            return self.leaf(ishape, oshape)
        if f in ("add", "sub"):
            return {"k": f, "a": self.gen(ishape, oshape, d), "b": self.gen(ishape, oshape, d)}
        if f == "smul":
            return {"k": "smul", "c": _c2(_scalar(rng, self.dt)), "a": self.gen(ishape, oshape, d), "side": int(rng.integers(2))}
        if f == "sdiv":
            return {"k": "sdiv", "c": _c2(_scalar(rng, self.dt, nonzero=True)), "a": self.gen(ishape, oshape, d)}
        if f == "neg":
            return {"k": "neg", "a": self.gen(ishape, oshape, d)}
        if f == "conj":
            return {"k": "conj", "a": self.gen(ishape, oshape, d)}
        if f == "comp":
            mid = self.mid_shape()
            return {"k": "comp", "a": self.gen(mid, oshape, d), "b": self.gen(ishape, mid, d)}
        if f == "TH":
            k = "T" if rng.random() < 0.5 else "H"
            return {"k": k, "cplx": bool(G.cplx(self.dt)), "a": self.gen(oshape, ishape, d)}
        if f == "gram":
            mid = self.mid_shape()
            return {"k": "gram", "a": self.gen(ishape, mid, d)}
        if f == "vstack":
            S = oshape[0]
            ops = [self.gen(ishape, tuple(oshape[1:]), d) for _ in range(S)]
            return {"k": "vstack", "ops": ops, "nin": flat_size(ishape), "co": True}
        if f == "vstackB":
            ops = [self.gen(ishape, tuple(b), d) for b in oshape]
            # a block shape with equal blocks only arises when collapsing is switched off
            return {"k": "vstack", "ops": ops, "nin": flat_size(ishape), "co": False if _all_equal(oshape) else bool(rng.integers(2))}
        if f == "dstack":
            S = ishape[0]
            ops = [self.gen(tuple(ishape[1:]), tuple(oshape[1:]), d) for _ in range(S)]
            return {"k": "dstack", "ops": ops, "ci": True, "co": True}
        if f == "dstackB":
            ops = [self.gen(tuple(a), tuple(b), d) for a, b in zip(ishape, oshape)]
            return {"k": "dstack", "ops": ops, "ci": False if _all_equal(ishape) else bool(rng.integers(2)),
                    "co": False if _all_equal(oshape) else bool(rng.integers(2))}
        if f == "drep":
            ia, oa = ks[int(rng.integers(len(ks)))]
            k = ishape[ia]
            si = tuple(ishape[:ia]) + tuple(ishape[ia + 1 :])
            so = tuple(oshape[:oa]) + tuple(oshape[oa + 1 :])
            qi = int(np.prod(ishape[ia + 1 :], dtype=np.int64))
            qo = int(np.prod(oshape[oa + 1 :], dtype=np.int64))
            return {"k": "drep", "rep": int(k), "qi": qi, "qo": qo, "ia": ia, "oa": oa, "a": self.gen(si, so, d)}
        raise KeyError(f)

    def mid_shape(self):
        rng = self.rng
        r = rng.random()
        if r < 0.7:
            return _shape_pool(rng)
        if r < 0.85:
            return ((2,), (1, 2))
        return ((2,), (2,))


def _all_equal(shape):
    return all(tuple(b) == tuple(shape[0]) for b in shape)


def _c2(c):
    return [float(c[0]), float(c[1])] if isinstance(c, (list, tuple)) else [float(c), 0.0]


def random_tree(rng, depth, dt):
    g = Gen(rng, dt)
    r = rng.random()
    if r < 0.15:
        ish, osh = _shape_pool(rng), ((2,), (1, 2))
    elif r < 0.25:
        ish, osh = ((2,), (3,)), ((1, 2), (2,))
    else:
        ish, osh = _shape_pool(rng), _shape_pool(rng)
    tree = g.gen(ish, osh, depth)
    return tree, g.leaves, g.forms


def children_of(tree):
    if "ops" in tree:
        return list(tree["ops"])
    return [tree[k] for k in ("a", "b") if k in tree]


def apply_node(tree, ch):
    """apply ONE construction of scico to already built operand objects `ch` (in the order of children_of)"""
    from scico import linop

    k = tree["k"]
    if k == "add":
        return ch[0] + ch[1]
    if k == "sub":
        return ch[0] - ch[1]
    if k == "comp":
        return ch[0] @ ch[1]
    if k == "vstack":
        return linop.VerticalStack(list(ch), collapse_output=tree.get("co", True), jit=False)
    if k == "dstack":
        return linop.DiagonalStack(list(ch), collapse_input=tree.get("ci", True), collapse_output=tree.get("co", True), jit=False)
    A = ch[0]
    if k == "neg":
        return -A
    if k in ("smul", "sdiv"):
        c = tree["c"]
        c = complex(c[0], c[1]) if c[1] != 0.0 else float(c[0])
        if k == "sdiv":
            return A / c
        return c * A if tree.get("side", 0) == 0 else A * c
    if k == "T":
        return A.T
    if k == "H":
        return A.H
    if k == "conj":
        return A.conj()
    if k == "gram":
        return A.gram_op
    if k == "drep":
        return linop.DiagonalReplicated(A, tree["rep"], input_axis=tree["ia"], output_axis=tree["oa"], map_type="vmap" if tree["rep"] > 1 else "auto")
    raise KeyError(k)


def realize(tree, ops):
    """apply the constructions of the tree to real scico leaf operators; fills the `cplx` flag of `.T` nodes from
    the real operand (`is_complex_dtype(self.input_dtype)`)"""
    if tree["k"] == "leaf":
        return ops[tree["i"]]
    ch = [realize(t, ops) for t in children_of(tree)]
    if tree["k"] == "T":
        tree["cplx"] = bool(np.dtype(ch[0].input_dtype).kind == "c")
    return apply_node(tree, ch)


def one_level(tree, nchildren):
    """the node's construction applied to leaves 0..nchildren-1 (wire form for the driver)"""
    t = {k: v for k, v in tree.items() if k not in ("a", "b", "ops")}
    if "ops" in tree:
        t["ops"] = [{"k": "leaf", "i": i} for i in range(nchildren)]
    else:
        for i, key in enumerate([k for k in ("a", "b") if k in tree]):
            t[key] = {"k": "leaf", "i": i}
    return t


def size_of(tree):
    return 1 + sum(size_of(c) for c in children_of(tree))


def depth_of(tree):
    subs = [tree[k] for k in ("a", "b") if k in tree] + list(tree.get("ops", []))
    return 1 + max((depth_of(s) for s in subs), default=0)


def wire_tree(tree):
    """strip harness-only keys"""
    out = {}
    for k, v in tree.items():
        if k in ("side", "co", "ci", "ia", "oa"):
            continue
        if k in ("a", "b"):
            out[k] = wire_tree(v)
        elif k == "ops":
            out[k] = [wire_tree(t) for t in v]
        elif k == "c":
            out[k] = [__import__("common").f2b(v[0]), __import__("common").f2b(v[1])]
        else:
            out[k] = v
    return out
