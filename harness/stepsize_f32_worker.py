"""Default-precision worker of C16 (run as a subprocess WITHOUT jax_enable_x64): PGM / AcceleratedPGM with every step-size policy on
float32 / complex64 problems (the arrays given as float32 / complex64, `L0` a Python float).  For every step it reports the returned
`L` (value and Python/array type), the dtype of the iterate, and what raised.  Reads {"repo", "cases"} on stdin, prints {"results"}."""

import json
import os
import sys
import warnings

os.environ["JAX_PLATFORMS"] = "cpu"
os.environ.pop("JAX_ENABLE_X64", None)
os.environ.setdefault("XLA_FLAGS", "--xla_cpu_multi_thread_eigen=false intra_op_parallelism_threads=2")
req = json.loads(sys.stdin.read())
sys.path.insert(0, req["repo"])
sys.path.insert(0, os.path.dirname(os.path.abspath(__file__)))
warnings.simplefilter("ignore")
import numpy as np  # noqa: E402

import jax  # noqa: E402

assert not jax.config.jax_enable_x64
import scico.numpy as snp  # noqa: E402
from scico.optimize import PGM, AcceleratedPGM  # noqa: E402

import stepsize_gen as G  # noqa: E402

out = []
for case in req["cases"]:
    rec = {"steps": []}
    try:
        Q, b, x0 = G.unpack(case)
        ct = np.complex64 if case["complex"] else np.float32
        G.quad_class()
        if case.get("realview_loss"):
            f = G._QUAD["rv"](np.asarray(case["Q"], dtype=np.float32), np.asarray(case["b"], dtype=np.float32), float(case["c"]))
        else:
            f = G._QUAD["cls"](np.asarray(Q, dtype=ct), np.asarray(b, dtype=ct), float(case["c"]), float(case.get("barrier", 0.0)))
        cls = AcceleratedPGM if case["accel"] else PGM
        pol = G.make_policy(case["policy"])
        s = cls(f=f, g=G.make_g(case), L0=float(case["L0"]), x0=snp.array(np.asarray(x0, dtype=ct)), step_size=pol, maxiter=case["steps"])
        rec["x0_dtype"] = str(s.x.dtype)
        for _ in range(case["steps"]):
            try:
                s.step()
            except Exception as e:  # noqa: BLE001
                rec["steps"].append({"raised": type(e).__name__ + ": " + str(e)[:200]})
                break
            L = s.L
            rec["steps"].append({
                "L": float(np.asarray(L)),
                "L_type": type(L).__name__ if isinstance(L, (float, int)) else str(getattr(L, "dtype", type(L).__name__)),
                "x_dtype": str(s.x.dtype),
                "x": G.realview(np.asarray(s.x), case["complex"]).astype(np.float64).tolist(),
                "raised": None,
            })
    except Exception as e:  # noqa: BLE001
        rec["construct_raised"] = type(e).__name__ + ": " + str(e)[:300]
    out.append(rec)
print(json.dumps({"results": out}))
