"""Default-precision worker of C17 (run as a subprocess WITHOUT jax_enable_x64): operator_norm / power_iteration and the three
estimate_parameters on float32 / complex64 operators (and with dtypes omitted: the library defaults), closed-form norms.
Reads {"repo", "items"} on stdin, prints {"results"}: values as floats, dtypes of what is returned, what raised."""

import json
import os
import sys
import warnings

os.environ["JAX_PLATFORMS"] = "cpu"
os.environ.pop("JAX_ENABLE_X64", None)
os.environ.setdefault("XLA_FLAGS", "--xla_cpu_multi_thread_eigen=false intra_op_parallelism_threads=2")
req = json.loads(sys.stdin.read())
sys.path.insert(0, req["repo"])
warnings.simplefilter("ignore")
import numpy as np  # noqa: E402

import jax  # noqa: E402

assert not jax.config.jax_enable_x64
import scico.numpy as snp  # noqa: E402
from scico import linop  # noqa: E402
from scico.optimize import PDHG, ProximalADMM  # noqa: E402


def build(d):
    k = d["kind"]
    if k == "diag-real":
        return linop.Diagonal(snp.array(np.asarray(d["d"], dtype=np.float32)))
    if k == "diag-complex":
        return linop.Diagonal(snp.array((np.asarray(d["dre"]) + 1j * np.asarray(d["dim"])).astype(np.complex64)))
    if k == "matrix-real":
        return linop.MatrixOperator(snp.array(np.asarray(d["A"], dtype=np.float32)))
    if k == "matrix-complex":
        return linop.MatrixOperator(snp.array((np.asarray(d["Are"]) + 1j * np.asarray(d["Aim"])).astype(np.complex64)))
    if k == "scaled-identity":
        if d.get("flavour") == "identity":
            return linop.Identity((d["n"],))  # dtype omitted: the library default
        return linop.ScaledIdentity(d["c"], (d["n"],))
    raise ValueError(k)


def key_of(k):
    return None if k is None else jax.random.PRNGKey(int(k))


def val(x):
    if isinstance(x, (float, int)):  # a Python scalar (weakly typed), e.g. the `mu = 0.0` of the zero exit
        return {"v": float(x), "dtype": "python-float", "im": 0.0}
    a = np.asarray(x)
    return {"v": float(a.real) if a.shape == () else None, "dtype": str(a.dtype), "im": float(a.imag) if a.shape == () and np.iscomplexobj(a) else 0.0}


out = []
for it in req["items"]:
    rec = {}
    try:
        A = build(it["desc"])
        rec["in_dtype"] = str(np.dtype(A.input_dtype))
        rec["opnorm"] = []
        for k in it["budgets"]:
            try:
                rec["opnorm"].append({"k": k, **val(linop.operator_norm(A, maxiter=k, key=key_of(it.get("key"))))})
            except Exception as e:  # noqa: BLE001
                rec["opnorm"].append({"k": k, "raised": type(e).__name__ + ": " + str(e)[:200]})
        try:
            mu, v = linop.power_iteration(A.H @ A, maxiter=it["budgets"][-1], key=key_of(it.get("key")))
            rec["power"] = {**val(mu), "v_dtype": str(np.asarray(v).dtype), "v_norm": float(np.linalg.norm(np.asarray(v).astype(np.complex128)))}
        except Exception as e:  # noqa: BLE001
            rec["power"] = {"raised": type(e).__name__ + ": " + str(e)[:200]}
        try:
            t, s_ = PDHG.estimate_parameters(A, maxiter=it["budgets"][-1], key=key_of(it.get("key")))
            rec["pdhg"] = {"tau": val(t), "sigma": val(s_)}
        except Exception as e:  # noqa: BLE001
            rec["pdhg"] = {"raised": type(e).__name__ + ": " + str(e)[:200]}
        try:
            m, n = ProximalADMM.estimate_parameters(A, maxiter=it["budgets"][-1], key=key_of(it.get("key")))
            rec["padmm"] = {"mu": val(m), "nu": val(n)}
        except Exception as e:  # noqa: BLE001
            rec["padmm"] = {"raised": type(e).__name__ + ": " + str(e)[:200]}
        if it["desc"]["kind"] in ("diag-real", "diag-complex", "scaled-identity", "matrix-real", "matrix-complex"):
            rec["norms"] = {}
            for o in (None, "fro", "nuc", float("inf"), -float("inf"), 1, -1, 2, -2):
                try:
                    rec["norms"][str(o)] = val(A.norm(o))
                except Exception as e:  # noqa: BLE001
                    rec["norms"][str(o)] = {"raised": type(e).__name__ + ": " + str(e)[:200]}
    except Exception as e:  # noqa: BLE001
        rec["construct_raised"] = type(e).__name__ + ": " + str(e)[:300]
    out.append(rec)
print(json.dumps({"results": out}))
