"""OpAlg engine, implementation-only oracle for the parts of the calculus that have no Lean model:
stacks (VerticalStack / DiagonalStack / DiagonalReplicated), freeze, Function.slice / join, and the
closed-form arithmetic of CircularConvolve and Convolve.

For every derived object the dense matrix (obtained on basis vectors) is compared with the same
construction carried out in numpy on the operands' dense matrices; the adjoint / T / H / gram_op
matrices with the (conjugate) transposes; declared shapes and dtypes with what evaluation returns.
Each case is returned as (name, failure-dict-or-None)."""

from __future__ import annotations

import numpy as np

import common
import opalg_gen as G
from opalg_trees import vals


def _flat(env, y):
    return env.flat(y)


def dense(env, o):
    n = int(o.input_size)
    cols = []
    for j in range(n):
        x = np.zeros(n, dtype=np.complex128)
        x[j] = 1
        cols.append(_flat(env, o(env.to_array(x, G.lst(o.input_shape), np.dtype(o.input_dtype).name))))
    return np.stack(cols, axis=1) if cols else np.zeros((int(o.output_size), 0), dtype=np.complex128)


def dense_adj(env, o):
    m = int(o.output_size)
    cols = []
    for i in range(m):
        y = np.zeros(m, dtype=np.complex128)
        y[i] = 1
        cols.append(_flat(env, o.adj(env.to_array(y, G.lst(o.output_shape), np.dtype(o.output_dtype).name))))
    return np.stack(cols, axis=1)


def close(a, b, tol=1e-9):
    a, b = np.asarray(a), np.asarray(b)
    return a.shape == b.shape and G.vec_close(a.ravel(), b.ravel(), tol, max(4, a.size))


def check_op(env, o, want, what, linear=True, tol=1e-9):
    """declared metadata vs observed, dense matrix vs `want`, adjoint family vs (conjugate) transposes"""
    fails = {}
    n, m = int(o.input_size), int(o.output_size)
    if list(o.matrix_shape) != [G.size(G.lst(o.output_shape)), G.size(G.lst(o.input_shape))]:
        fails["matrix_shape"] = [list(o.matrix_shape), G.lst(o.output_shape), G.lst(o.input_shape)]
    x = vals(np.random.Generator(np.random.PCG64(5)), (n,), G.is_cplx(np.dtype(o.input_dtype).name))
    try:
        y = o(env.to_array(x, G.lst(o.input_shape), np.dtype(o.input_dtype).name))
    except Exception as ex:  # noqa: BLE001
        return {"evaluation_raised": repr(ex)[:200], "what": what}
    if G.lst(y.shape) != G.lst(o.output_shape):
        fails["shape"] = {"declared": G.lst(o.output_shape), "returned": G.lst(y.shape)}
    if np.dtype(y.dtype) != np.dtype(o.output_dtype):
        fails["dtype"] = {"declared": np.dtype(o.output_dtype).name, "returned": np.dtype(y.dtype).name}
    if fails:
        fails["what"] = what
        return fails
    if not linear:
        if not close(_flat(env, y), want(x), tol):
            return {"value": {"x": [str(v) for v in x], "returned": [str(v) for v in _flat(env, y)], "construction": [str(v) for v in want(x)]}, "what": what}
        return None
    D = dense(env, o)
    if not close(D, want, tol):
        return {"value": {"operator_matrix": np.round(D, 6).tolist().__repr__()[:400], "same_construction_on_matrices": np.round(want, 6).tolist().__repr__()[:400]}, "what": what}
    if hasattr(o, "adj"):
        for nm, f, ref in (
            ("adj", lambda: dense_adj(env, o), want.conj().T),
            ("H", lambda: dense(env, o.H), want.conj().T),
            ("T", lambda: dense(env, o.T), want.T),
            ("conj", lambda: dense(env, o.conj()), want.conj()),
            ("gram_op", lambda: dense(env, o.gram_op), want.conj().T @ want),
        ):
            try:
                M = f()
            except Exception as ex:  # noqa: BLE001
                return {nm + "_raised": repr(ex)[:200], "what": what}
            if not close(M, ref, tol):
                return {nm: {"operator_matrix": repr(np.round(M, 6).tolist())[:400], "expected": repr(np.round(ref, 6).tolist())[:400]}, "what": what}
    return None


def cases(env, rng, thorough=False, parts=("stacks", "freeze", "circ", "conv")):
    """generator of (name, key, failure)"""
    jnp, linop = env.jnp, env.linop
    from scico import operator as sop
    from scico.function import Function

    def mat(m, n, cplx):
        A = vals(rng, (m, n), cplx)
        return linop.MatrixOperator(jnp.asarray(A, dtype="complex128" if cplx else "float64")), np.asarray(A, dtype=np.complex128)

    # ---- stacks -------------------------------------------------------------------------
    for cplx in ((False, True) if "stacks" in parts else ()):
        for outs in ([2, 2], [2, 3], [1, 1, 1], [3, 1, 2]):
            for co in (True, False):
                n = 3
                ops, Ms = zip(*[mat(m, n, cplx) for m in outs])
                V = linop.VerticalStack(list(ops), collapse_output=co)
                yield (f"VerticalStack{outs} collapse={co} c={cplx}", ("vstack", tuple(outs), co, cplx), check_op(env, V, np.vstack(Ms), "VerticalStack"))
        for shp in ([(2, 3), (2, 3)], [(2, 3), (3, 3)], [(2, 2), (2, 3)], [(1, 2), (2, 1), (2, 2)]):
            for ci in (True, False):
                for co in (True, False):
                    ops, Ms = zip(*[mat(m, n, cplx) for m, n in shp])
                    try:
                        Dg = linop.DiagonalStack(list(ops), collapse_input=ci, collapse_output=co)
                    except Exception as ex:  # noqa: BLE001
                        yield (f"DiagonalStack{shp}", ("dstack", tuple(shp), ci, co, cplx), {"constructor_raised": repr(ex)[:200]})
                        continue
                    W = np.zeros((sum(m for m, _ in shp), sum(n for _, n in shp)), dtype=np.complex128)
                    r = c = 0
                    for (m, n), M in zip(shp, Ms):
                        W[r : r + m, c : c + n] = M
                        r += m
                        c += n
                    yield (f"DiagonalStack{shp} ci={ci} co={co} c={cplx}", ("dstack", tuple(shp), ci, co, cplx), check_op(env, Dg, W, "DiagonalStack"))
    # stacks of operators whose dtypes differ are rejected (ValueError); an accepted one declares the dtypes of
    # its first operator, so evaluating it shows declared != returned (the failing input of the property)
    if "stacks" in parts:
        def gen(indt, outdt, m=2, n=3):
            Gm = vals(rng, (m, n), G.is_cplx(outdt))
            Gj = jnp.asarray(Gm, dtype=outdt)
            return linop.LinearOperator(input_shape=(n,), output_shape=(m,), eval_fn=lambda x, Gj=Gj: Gj @ x,
                                        adj_fn=lambda y, Gj=Gj, indt=indt: (Gj.conj().T @ y).astype(indt) if G.is_cplx(indt) else (Gj.conj().T @ y).real.astype(indt),
                                        input_dtype=np.dtype(indt), output_dtype=np.dtype(outdt))

        mixes = [("float64", "float64", "float64", "complex128"), ("float64", "complex128", "float64", "float64"),
                 ("float32", "float32", "float32", "float64"), ("float64", "float64", "complex128", "complex128"),
                 ("complex128", "complex128", "float64", "complex128"), ("float64", "float64", "float32", "float64")]
        for ia, oa, ib, ob in mixes:
            for kind in ("VerticalStack", "DiagonalStack"):
                for co in (True, False):
                    ops = [gen(ia, oa), gen(ib, ob)]
                    name = f"{kind} mixed dtypes {ia}>{oa} | {ib}>{ob} collapse={co}"
                    key = ("mixdt", kind, ia, oa, ib, ob, co)
                    try:
                        S_ = linop.VerticalStack(ops, collapse_output=co) if kind == "VerticalStack" else linop.DiagonalStack(ops, collapse_input=co, collapse_output=co)
                    except ValueError:
                        yield (name, key, None)
                        continue
                    except Exception as ex:  # noqa: BLE001
                        yield (name, key, {"constructor_raised": repr(ex)[:200], "expected": "ValueError", "what": kind})
                        continue
                    f = {"accepted_mixed_dtypes": {"operands": [[ia, oa], [ib, ob]], "declared": [np.dtype(S_.input_dtype).name, np.dtype(S_.output_dtype).name]}, "what": kind}
                    try:
                        x = env.to_array(np.ones(int(S_.input_size)), G.lst(S_.input_shape), np.dtype(S_.input_dtype).name)
                        y = S_(x)
                        f["evaluation"] = {"x": "ones(input_shape, input_dtype)", "declared_output_dtype": np.dtype(S_.output_dtype).name, "returned_dtype": str(y.dtype)}
                    except Exception as ex:  # noqa: BLE001
                        f["evaluation"] = {"x": "ones(input_shape, input_dtype)", "raised": repr(ex)[:200]}
                    yield (name, key, f)
    # DiagonalReplicated: every (input_axis, output_axis) for a 2-d -> 1-d and a 2-d -> 2-d operator
    for cplx in ((False, True) if "stacks" in parts else ()):
        for insh, outsh in (((2, 3), (2,)), ((2, 2), (3, 2)), ((3,), (2,))):
            nin, nout = int(np.prod(insh)), int(np.prod(outsh))
            Gm = vals(rng, (nout, nin), cplx).astype(np.complex128)
            Gj = jnp.asarray(Gm if cplx else Gm.real, dtype="complex128" if cplx else "float64")
            A = linop.LinearOperator(
                input_shape=insh, output_shape=outsh,
                eval_fn=lambda x, Gj=Gj, outsh=outsh: (Gj @ x.ravel()).reshape(outsh),
                adj_fn=lambda y, Gj=Gj, insh=insh: (Gj.conj().T @ y.ravel()).reshape(insh),
                input_dtype=np.dtype("complex128" if cplx else "float64"), output_dtype=np.dtype("complex128" if cplx else "float64"),
            )
            for rep in ((2, 3) if thorough else (2,)):
                for ia in list(range(-len(insh) - 1, len(insh) + 1)):
                    for oa in [None] + list(range(0, len(outsh) + 1)):
                        ian0 = ia if ia >= 0 else len(insh) + 1 + ia
                        if ian0 < 0 or (oa is None and ian0 > len(outsh)):
                            continue  # no such output axis
                        try:
                            R = linop.DiagonalReplicated(A, rep, input_axis=ia, output_axis=oa, map_type="vmap")
                        except Exception as ex:  # noqa: BLE001
                            yield (f"DiagonalReplicated ia={ia} oa={oa}", ("drep", insh, outsh, rep, ia, oa, cplx), {"constructor_raised": repr(ex)[:200]})
                            continue
                        ian = ia if ia >= 0 else len(insh) + 1 + ia
                        oan = ian if oa is None else oa
                        full_in = insh[:ian] + (rep,) + insh[ian:]
                        full_out = outsh[:oan] + (rep,) + outsh[oan:]
                        W = np.zeros((int(np.prod(full_out)), int(np.prod(full_in))), dtype=np.complex128)
                        for j in range(W.shape[1]):
                            x = np.zeros(W.shape[1], dtype=np.complex128)
                            x[j] = 1
                            X = x.reshape(full_in)
                            Y = np.stack([(Gm @ np.take(X, k, axis=ian).ravel()).reshape(outsh) for k in range(rep)], axis=oan)
                            W[:, j] = Y.ravel()
                        f = None
                        if G.lst(R.output_shape) != list(full_out) or G.lst(R.input_shape) != list(full_in):
                            f = {"shape": {"declared": [G.lst(R.input_shape), G.lst(R.output_shape)], "documented": [list(full_in), list(full_out)]}, "what": "DiagonalReplicated"}
                        yield (f"DiagonalReplicated{insh}->{outsh} x{rep} ia={ia} oa={oa} c={cplx}", ("drep", insh, outsh, rep, ia, oa, cplx),
                               f or check_op(env, R, W, "DiagonalReplicated"))
    # ---- freeze, Function.slice / join -----------------------------------------------------
    for cplx in ((False, True) if "freeze" in parts else ()):
        dt = "complex128" if cplx else "float64"
        n1, n2, m = 2, 3, 2
        G1, G2 = vals(rng, (m, n1), cplx).astype(np.complex128), vals(rng, (m, n2), cplx).astype(np.complex128)
        J1, J2 = jnp.asarray(G1 if cplx else G1.real, dtype=dt), jnp.asarray(G2 if cplx else G2.real, dtype=dt)
        Op = sop.Operator(input_shape=((n1,), (n2,)), output_shape=(m,), eval_fn=lambda x: J1 @ x[0] + J2 @ x[1], input_dtype=np.dtype(dt), output_dtype=np.dtype(dt))
        v1 = vals(rng, (n1,), cplx).astype(np.complex128)
        v2 = vals(rng, (n2,), cplx).astype(np.complex128)
        try:
            F0 = Op.freeze(0, jnp.asarray(v1 if cplx else v1.real, dtype=dt))
            yield (f"freeze(0) c={cplx}", ("freeze", 0, cplx), check_op(env, F0, lambda x: G1 @ v1 + G2 @ x, "freeze", linear=False))
            F1 = Op.freeze(1, jnp.asarray(v2 if cplx else v2.real, dtype=dt))
            yield (f"freeze(1) c={cplx}", ("freeze", 1, cplx), check_op(env, F1, lambda x: G1 @ x + G2 @ v2, "freeze", linear=False))
        except Exception as ex:  # noqa: BLE001
            yield (f"freeze c={cplx}", ("freeze", cplx), {"raised": repr(ex)[:200]})
        Fn = Function(((n1,), (n2,)), output_shape=(m,), eval_fn=lambda x, y: J1 @ x + J2 @ y, input_dtypes=np.dtype(dt), output_dtype=np.dtype(dt))
        S0 = Fn.slice(0, jnp.asarray(v2 if cplx else v2.real, dtype=dt))
        yield (f"Function.slice(0) c={cplx}", ("fslice", 0, cplx), check_op(env, S0, lambda x: G1 @ x + G2 @ v2, "Function.slice", linear=False))
        S1 = Fn.slice(1, jnp.asarray(v1 if cplx else v1.real, dtype=dt))
        yield (f"Function.slice(1) c={cplx}", ("fslice", 1, cplx), check_op(env, S1, lambda x: G1 @ v1 + G2 @ x, "Function.slice", linear=False))
        Jn = Fn.join()
        yield (f"Function.join c={cplx}", ("fjoin", cplx), check_op(env, Jn, lambda x: G1 @ x[:n1] + G2 @ x[n1:], "Function.join", linear=False))
    # ---- CircularConvolve / Convolve arithmetic -----------------------------------------------
    scal = [2.0, -0.5, 3, 1j, 2 - 1j, np.float64(2.0), np.complex128(1 + 1j)] if thorough else [2.0, 2 - 1j]
    circ_cfgs = [((4,), (4,), None), ((3,), (5,), None), ((2, 3), (3, 4), None), ((2, 2), (2, 4, 3), 2), ((2, 2, 3), (2, 4, 3), 2), ((3,), (2, 5), 1), ((2, 3), (2, 5), 1)]
    if not thorough:
        circ_cfgs = [circ_cfgs[0], circ_cfgs[4], circ_cfgs[6]]
    if "circ" not in parts:
        circ_cfgs = []
    for hs, ins, nd in circ_cfgs:
        for cplx_h in (False, True):
            hdt = "complex128" if cplx_h else "float64"
            mk = lambda: linop.CircularConvolve(jnp.asarray(vals(rng, hs, cplx_h), dtype=hdt), ins, ndims=nd, input_dtype=np.dtype(hdt))  # noqa: E731
            try:
                A, B = mk(), mk()
            except Exception as ex:  # noqa: BLE001
                continue
            DA, DB = dense(env, A), dense(env, B)
            yield (f"Circ{hs}/{ins}/{nd} A+B c={cplx_h}", ("circ+", hs, ins, nd, cplx_h), check_op(env, A + B, DA + DB, "CircularConvolve.__add__", tol=1e-8))
            yield (f"Circ{hs}/{ins}/{nd} A-B c={cplx_h}", ("circ-", hs, ins, nd, cplx_h), check_op(env, A - B, DA - DB, "CircularConvolve.__sub__", tol=1e-8))
            for c in scal:
                for nm, f, W in (("c*A", lambda: c * A, c * DA), ("A*c", lambda: A * c, c * DA), ("A/c", lambda: A / c, DA / c)):
                    yield (f"Circ{hs}/{ins}/{nd} {nm} c={c!r} ch={cplx_h}", ("circ", nm, hs, ins, nd, repr(c), cplx_h), check_op(env, f(), W, "CircularConvolve " + nm, tol=1e-8))
    for mode in (("full", "valid", "same") if "conv" in parts else ()):
        for hs, ins in ((((2,), (4,)), ((3,), (3,)), ((2, 2), (3, 4))) if thorough else (((2,), (4,)), ((2, 2), (3, 4)))):
            for cplx_h in (False, True):
                hdt = "complex128" if cplx_h else "float64"
                mk = lambda: linop.Convolve(jnp.asarray(vals(rng, hs, cplx_h), dtype=hdt), ins, input_dtype=np.dtype(hdt), mode=mode)  # noqa: E731
                A, B = mk(), mk()
                DA, DB = dense(env, A), dense(env, B)
                yield (f"Conv{hs}/{ins}/{mode} A+B c={cplx_h}", ("conv+", hs, ins, mode, cplx_h), check_op(env, A + B, DA + DB, "Convolve.__add__"))
                yield (f"Conv{hs}/{ins}/{mode} A-B c={cplx_h}", ("conv-", hs, ins, mode, cplx_h), check_op(env, A - B, DA - DB, "Convolve.__sub__"))
                for c in (2.0, 3, 2 - 1j) if cplx_h else (2.0, 3, -0.5):
                    for nm, f, W in (("c*A", lambda: c * A, c * DA), ("A*c", lambda: A * c, c * DA), ("A/c", lambda: A / c, DA / c)):
                        yield (f"Conv{hs}/{ins}/{mode} {nm} c={c!r} ch={cplx_h}", ("conv", nm, hs, ins, mode, repr(c), cplx_h), check_op(env, f(), W, "Convolve " + nm))
